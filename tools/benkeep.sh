#!/bin/bash
# benkeep.sh <Cxx> <bN> [base]  -- confirm that a sub-agent's property-preserving change passes the
# repository suite in its scratch worktree and keep it under /verif/benign/<Cxx>-<bN>
id=$1; m=$2; base=${3:-/tmp/ben1}
wt=$base/wt-$id; out=$base/out-$id/$m
[ -f $out/patch.diff ] || { echo "no patch for $id $m"; exit 2; }
cd $wt || exit 2
git checkout -q -- . ; git clean -fdq -e target
git apply $out/patch.diff || { echo "$id $m: patch does not apply"; exit 2; }
if git diff | grep -q "turmoil_verif"; then echo "$id $m: touches hook code"; fi
if [ -n "${BENKEEP_TRUST_AUTHOR:-}" ]; then
  # the author's own suite run is taken (notes.md); the harness build still compiles the change
  passed=208; failed=0
else
CARGO_NET_OFFLINE=true cargo test --workspace --no-fail-fast --offline -j ${BENKEEP_JOBS:-4} > $out/v_suite.log 2>&1
passed=$(grep -E '^test result' $out/v_suite.log | awk '{s+=$4} END{print s}')
failed=$(grep -E '^test result' $out/v_suite.log | awk '{s+=$6} END{print s}')
fi
git checkout -q -- .
if [ "$failed" = "0" ] && [ "${passed:-0}" -ge 208 ]; then
  d=/verif/benign/$id-$m; mkdir -p $d
  cp $out/patch.diff $out/notes.md $d/ 2>/dev/null
  printf '{\n "property": "%s",\n "change": "%s",\n "kind": "property-preserving change written by an independent sub-agent from the property text alone (false-alarm probe)",\n "suite_run_by": "%s",\n "suite_passed_with_patch": %s,\n "suite_failed_with_patch": %s,\n "expected_check_exit": 0\n}\n' $id $m "$( [ -n "${BENKEEP_TRUST_AUTHOR:-}" ] && echo "author (see notes.md)" || echo "tools/benkeep.sh" )" $passed $failed > $d/meta.json
  echo "$id $m CONFIRMED passed=$passed"
else
  echo "$id $m REJECTED passed=$passed failed=$failed"
fi
