#!/bin/bash
# seedkeep.sh <Cxx> <mN> [base]  -- confirm a sub-agent's change in its scratch worktree and keep it under /verif/seeded/<Cxx>-<mN>
id=$1; m=$2; base=${3:-${SEEDKEEP_BASE:-/tmp/seed2}}
export SEED_BASE=$base
out=$base/out-$id/$m
[ -f $out/patch.diff ] || { echo "no patch for $id $m"; exit 2; }
/verif/tools/seedverify.sh $id $m > /dev/null 2>&1
[ -f $out/verify.json ] || { echo "verify failed to run for $id $m"; exit 2; }
python3 - "$id" "$m" "$out" <<'PY'
import json,sys,os,shutil
id,m,out=sys.argv[1:4]
v=json.load(open(f'{out}/verify.json'))
ok = v['suite_failed']==0 and v['suite_passed']>=208 and v['demo_with_patch_rc']!=0 and v['demo_without_patch_rc']==0
print(id,m,'CONFIRMED' if ok else 'REJECTED',v)
if ok:
    d=f'/verif/seeded/{id}-{m}'
    os.makedirs(d,exist_ok=True)
    for f in ('patch.diff','demo.rs','demo.txt','notes.md'):
        if os.path.exists(f'{out}/{f}'): shutil.copy(f'{out}/{f}',f'{d}/{f}')
    meta={"property":id,"mutant":m,"origin":"independent sub-agent (second round) given only the property text, one-line titles of the first-round changes to avoid, and a scratch worktree of /repo at the then-current HEAD",
      "breaks":"see notes.md","confirmed_by_me":{"how":"tools/seedverify.sh in the scratch worktree: full workspace suite with the patch, demo with the patch, demo without the patch",
      "suite_passed_with_patch":v['suite_passed'],"suite_failed_with_patch":v['suite_failed'],"demo_with_patch_exit":v['demo_with_patch_rc'],"demo_without_patch_exit":v['demo_without_patch_rc'],"demo_destination":v['demo_dst'],"demo_features":v['features']},
      "detected_by":"see seeded/RESULTS.md"}
    json.dump(meta,open(f'{d}/meta.json','w'),indent=1)
PY
