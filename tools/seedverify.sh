#!/bin/bash
# seedverify.sh <Cxx> <m1|m2>  -- confirm a sub-agent's mutant in its scratch worktree:
#   full suite passes with the patch, demo fails with it, demo passes without it.
# Writes /tmp/seed/out-<id>/<m>/verify.json
id=$1; m=$2
base=${SEED_BASE:-/tmp/seed}; wt=$base/wt-$id; out=$base/out-$id/$m
cd $wt || exit 2
git checkout -q -- . ; git clean -fdq -e target
demo_dst=$(grep -oE 'crates/[A-Za-z0-9_/-]+\.rs' $out/demo.txt | head -1)
[ -z "$demo_dst" ] && { echo "no demo dst for $id $m"; exit 2; }
feat=$(grep -oE -- '--features[ =][A-Za-z0-9_,-]+' $out/demo.txt | head -1)
crate=$(echo $demo_dst | cut -d/ -f2)
tname=$(basename $demo_dst .rs)
git apply $out/patch.diff || { echo "patch does not apply"; exit 2; }
export CARGO_NET_OFFLINE=true
cargo test --workspace --no-fail-fast --offline > $out/v_suite.log 2>&1
suite_rc=$?
passed=$(grep -E '^test result' $out/v_suite.log | awk '{s+=$4} END{print s}')
failed=$(grep -E '^test result' $out/v_suite.log | awk '{s+=$6} END{print s}')
mkdir -p $(dirname $demo_dst); cp $out/demo.rs $demo_dst
cargo test -p $crate --offline $feat --test $tname > $out/v_demo_with.log 2>&1
with_rc=$?
git checkout -q -- . 
cargo test -p $crate --offline $feat --test $tname > $out/v_demo_without.log 2>&1
without_rc=$?
rm -f $demo_dst
echo "{\"id\":\"$id\",\"m\":\"$m\",\"suite_rc\":$suite_rc,\"suite_passed\":$passed,\"suite_failed\":$failed,\"demo_with_patch_rc\":$with_rc,\"demo_without_patch_rc\":$without_rc,\"demo_dst\":\"$demo_dst\",\"features\":\"$feat\"}" > $out/verify.json
cat $out/verify.json
