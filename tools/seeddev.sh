#!/bin/bash
# seeddev.sh <change-id> [check-id] [tier]  -- run one check of the *working-tree* harness against one kept
# change (seeded/<id> or benign/<id>) in a persistent scratch copy under /tmp/hdev: /repo and /verif are
# not touched, so it can run next to anything else. `seeddev.sh --clean` removes the scratch copy.
base=/tmp/hdev
if [ "$1" = "--clean" ]; then git -C /repo worktree remove --force $base/repo 2>/dev/null; rm -rf $base; git -C /repo worktree prune; exit 0; fi
id=$1; prop=${id%%-*}; c=${2:-$prop}; tier=${3:-quick}
d=/verif/seeded/$id; [ -d $d ] || d=/verif/benign/$id
p=$d/patch.diff; [ -f $d/patch.ported.diff ] && p=$d/patch.ported.diff
head=$(git -C /repo rev-parse HEAD)
mkdir -p $base/run/evidence $base/run/replays
if [ ! -d $base/repo ]; then git -C /repo worktree add -q --detach $base/repo $head || exit 2; fi
git -C $base/repo checkout -q --detach $head 2>/dev/null; git -C $base/repo reset -q --hard $head
rsync -a --delete --exclude target /verif/harness/ $base/harness/
sed -i "s#/repo/crates#$base/repo/crates#g" $base/harness/*/Cargo.toml
sed -i "s#target-dir = \"/verif/target\"#target-dir = \"$base/target\"#" $base/harness/.cargo/config.toml
case "$c" in C06|C13|C16|C17|C19) eng=vx-netk;; C07|C10|C18) eng=vx-fsx;; *) eng=vx-sim;; esac
if [ "$id" != "none" ]; then ( cd $base/repo && ( git apply "$p" 2>/dev/null || git apply -3 "$p" ) ) || { echo "APPLY-FAILED $id"; exit 3; }; fi
( cd $base/harness && CARGO_NET_OFFLINE=true cargo build --release --offline -p $eng -j ${SEEDDEV_JOBS:-8} > $base/build.log 2>&1 ) || { echo "BUILD-FAILED"; tail -20 $base/build.log; git -C $base/repo reset -q --hard $head; exit 2; }
cp /verif/known_findings.json $base/run/
out=$( cd $base/run && VERIF_DIR=$base/run VX_THREADS=${SEEDDEV_THREADS:-8} $base/target/release/$eng $c $tier 2>&1 ); rc=$?
echo "$out" | grep -E "^(VIOLATION|KNOWN-FINDING|OK|MACHINERY)|^  clause" | cut -c1-500 | head -8
echo "RESULT $id check=$c rc=$rc"
rm -f $base/run/replays/*.json
git -C $base/repo reset -q --hard $head
