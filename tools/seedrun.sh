#!/bin/bash
# seedrun.sh <patch.diff> <check-id> [tier]  -- apply a mutant to /repo, run one check, undo.
p=$1; cid=$2; tier=${3:-quick}
cd /repo || exit 2
if [ -n "$(git status --porcelain --untracked-files=no)" ]; then echo "REPO DIRTY"; exit 2; fi
git apply "$p" 2>/dev/null || git apply -3 "$p" 2>/dev/null || { echo "APPLY-FAILED $p"; git reset -q --hard HEAD; exit 3; }
cd /verif
stamp=$(mktemp)
out=$(./check $cid $tier 2>&1); rc=$?
# counterexamples of a seeded change are not kept
find /verif/replays -name "*.json" -newer $stamp -delete 2>/dev/null; rm -f $stamp
git -C /repo reset -q --hard HEAD
echo "$out" | grep -E "^(VIOLATION|KNOWN-FINDING|OK|MACHINERY)" | head -5
echo "  clause: $(echo "$out" | grep -E '^  clause' | head -2 | cut -c1-300)"
echo "RESULT $(basename $(dirname $p)) check=$cid rc=$rc"
