#!/bin/bash
# seedall.sh [tier] -- run every kept seeded change against the check of its property; rewrite seeded/RESULTS.md
tier=${1:-quick}
out=/verif/seeded/RESULTS.md
tmp=$(mktemp)
{
echo "# Seeded property-breaking changes vs. the checks"
echo
echo "Produced by tools/seedall.sh ($tier tier) on $(date -u +%Y-%m-%dT%H:%MZ), /repo HEAD $(git -C /repo rev-parse --short HEAD)."
echo "Each change was written by an independent sub-agent from the property text alone, passes the repository's"
echo "suite, and comes with a demonstration (demo.rs) that fails with it and passes without it."
echo
echo "| change | check run | exit | first reported clause |"
echo "|---|---|---|---|"
} > $tmp
for d in /verif/seeded/C*-m*; do
  id=$(basename $d); prop=${id%%-*}
  p=$d/patch.diff; [ -f $d/patch.ported.diff ] && p=$d/patch.ported.diff
  checks=$prop
  [ "$id" = "C06-m2" ] && checks="C06 C16"
  for c in $checks; do
    r=$(/verif/tools/seedrun.sh $p $c $tier 2>&1)
    rc=$(echo "$r" | grep -o "rc=[0-9]*" | tail -1)
    clause=$(echo "$r" | grep -o "clause=[^:]*" | head -1)
    note=""; [ -f $d/UNDETECTED.md ] && [ "${rc#rc=}" = "0" ] && note=" — $(head -1 $d/UNDETECTED.md)"
    echo "| $id | $c $tier | ${rc#rc=} | ${clause#clause=}$note |" >> $tmp
    echo "$id $c $rc $clause"
  done
done
{
echo
echo "exit 1 = the check reported a VIOLATION (detected); exit 0 = not detected."
} >> $tmp
mv $tmp $out
git -C /repo status --short | head -3
