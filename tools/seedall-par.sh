#!/bin/bash
# seedall-par.sh [tier] [workers]  -- the same table as tools/seedall.sh, produced in scratch copies
# so that /repo and /verif are never touched while it runs: every worker has its own git worktree
# of /repo, its own copy of /verif/harness (path dependencies rewritten to that worktree) and its
# own target directory under /tmp/seedpar. The checks are the committed ones; every change is
# applied to the worker's worktree, the engine is rebuilt, the check of its property is run with
# VERIF_DIR pointing at the worker's scratch run directory, and the worktree is reset.
# Everything under /tmp/seedpar is removed at the end.
tier=${1:-quick}
N=${2:-4}
T=${SEEDPAR_THREADS:-$(( 16 / N ))}; [ $T -lt 1 ] && T=1
base=${SEEDPAR_BASE:-/tmp/seedpar}
src=${SEEDPAR_SRC:-/verif/seeded}   # SEEDPAR_SRC=/verif/benign runs the property-preserving changes (expected exit 0)
out=${SEEDPAR_OUT:-/verif/seeded/RESULTS.md}   # SEEDPAR_ONLY="C09-m6 C20-m2" restricts the run to those changes
head=$(git -C /repo rev-parse HEAD)
rm -rf $base; mkdir -p $base
: > $base/results.txt
engine_of() { case "$1" in C06|C13|C16|C17|C19) echo vx-netk;; C07|C10|C18) echo vx-fsx;; *) echo vx-sim;; esac; }
# job list: "<id> <patch> <check>"
for d in $src/C*-[mb]*; do
  id=$(basename $d); prop=${id%%-*}
  [ -n "${SEEDPAR_ONLY:-}" ] && ! echo " $SEEDPAR_ONLY " | grep -q " $id " && continue
  p=$d/patch.diff; [ -f $d/patch.ported.diff ] && p=$d/patch.ported.diff
  checks=$prop
  [ "$id" = "C06-m2" ] && checks="C06 C16"
  [ "$id" = "C07-m14" ] && checks="C07 C18"
  [ "$id" = "C12-m14" ] && checks="C12 C04"
  [ "$id" = "C12-m15" ] && checks="C12 C04"
  [ "$id" = "C18-m14" ] && checks="C18 C04"
  [ "$id" = "C02-m15" ] && checks="C02 C15"
  if [ -n "${SEEDPAR_ENGINE_WIDE:-}" ]; then   # every check served by the engine that serves the change's property
    case $(engine_of $prop) in
      vx-netk) checks="C06 C13 C16 C17 C19";; vx-fsx) checks="C07 C10 C18";;
      *) [ "$SEEDPAR_ENGINE_WIDE" = "netk-fsx" ] || checks="C01 C02 C03 C04 C05 C08 C09 C11 C12 C14 C15 C20";; esac
  fi
  for c in $checks; do echo "$id $p $c"; done
done > $base/jobs.txt
echo 0 > $base/next
worker() {
  w=$1; wd=$base/w$w
  mkdir -p $wd/run/evidence $wd/run/replays
  git -C /repo worktree add -q --detach $wd/repo $head || exit 2
  rsync -a --exclude target /verif/harness/ $wd/harness/
  sed -i "s#/repo/crates#$wd/repo/crates#g" $wd/harness/*/Cargo.toml
  sed -i "s#target-dir = \"/verif/target\"#target-dir = \"$wd/target\"#" $wd/harness/.cargo/config.toml
  ( cd $wd/harness && cargo build --release --offline -j $T > $wd/build0.log 2>&1 ) || { echo "worker $w: initial build failed"; tail -5 $wd/build0.log; exit 2; }
  while :; do
    # take the next job
    exec 9>$base/lock; flock 9
    k=$(cat $base/next); echo $((k+1)) > $base/next
    flock -u 9
    job=$(sed -n "$((k+1))p" $base/jobs.txt)
    [ -z "$job" ] && break
    set -- $job; id=$1; p=$2; c=$3; eng=$(engine_of $c)
    git -C $wd/repo reset -q --hard $head
    if ! ( cd $wd/repo && ( git apply "$p" 2>/dev/null || git apply -3 "$p" 2>/dev/null ) ); then
      echo "$id|$c|APPLY-FAILED|" >> $base/results.txt; git -C $wd/repo reset -q --hard $head; continue
    fi
    if ! ( cd $wd/harness && cargo build --release --offline -p $eng -j $T > $wd/build.log 2>&1 ); then
      echo "$id|$c|BUILD-FAILED|" >> $base/results.txt; git -C $wd/repo reset -q --hard $head; continue
    fi
    cp /verif/known_findings.json $wd/run/
    r=$( cd $wd/run && VERIF_DIR=$wd/run VX_THREADS=$T $wd/target/release/$eng $c $tier 2>&1 ); rc=$?
    clause=$(echo "$r" | grep -o "clause=[^:]*" | head -1)
    echo "$id|$c|$rc|${clause#clause=}" >> $base/results.txt
    echo "w$w: $id $c rc=$rc ${clause#clause=}"
    rm -f $wd/run/replays/*.json
  done
  git -C /repo worktree remove --force $wd/repo 2>/dev/null
}
for w in $(seq 0 $((N-1))); do worker $w & done
wait
git -C /repo worktree prune
{
echo "# ${SEEDPAR_TITLE:-Seeded property-breaking changes vs. the checks}"
echo
echo "Produced by tools/seedall-par.sh ($tier tier, $N scratch workers with $T threads each) on $(date -u +%Y-%m-%dT%H:%MZ), against /repo commit ${head:0:7}."
if [ "$src" = /verif/seeded ]; then
echo "Each change was written by an independent sub-agent from the property text alone, passes the repository's"
echo "suite, and comes with a demonstration (demo.rs) that fails with it and passes without it."
else
echo "Each change was written by an independent sub-agent from the property text alone, passes the repository's"
echo "suite, and is argued (notes.md) to leave the property intact: the expected exit code is 0."
fi
echo
echo "| change | check run | exit | first reported clause |"
echo "|---|---|---|---|"
sort -t'|' -k1,1V -k2,2 $base/results.txt | while IFS='|' read id c rc clause; do
  note=""; [ -f $src/$id/UNDETECTED.md ] && [ "$rc" = "0" ] && note=" — $(head -1 $src/$id/UNDETECTED.md)"
  echo "| $id | $c $tier | $rc | $clause$note |"
done
echo
if [ "$src" = /verif/seeded ]; then
echo "exit 1 = the check reported a VIOLATION (detected); exit 0 = not detected; exit 2 = machinery error."
else
echo "exit 0 = the check held (no alarm), which is what is expected for every row; exit 1 would be a false alarm; exit 2 a machinery error."
fi
} > $out
rm -rf $base
grep -c "| 1 |" $out; grep -E "\| (0|2|APPLY-FAILED|BUILD-FAILED) \|" $out
