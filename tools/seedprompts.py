#!/usr/bin/env python3
"""seedprompts.py <base> <mA> <mB> [kind]

Writes one self-contained sub-agent prompt per property to <base>/prompts/<id>.txt.
kind = breaking (default): two property-breaking changes named <mA>, <mB>, with the one-line titles of
       every change already kept under /verif/seeded given as "do not repeat".
kind = benign: two property-PRESERVING changes named <mA>, <mB> (used to look for false alarms).
The prompts contain the property text and the paths of the agent's own scratch worktree and output
directory only -- nothing from /verif.
"""
import json, os, re, sys, glob

base, ma, mb = sys.argv[1], sys.argv[2], sys.argv[3]
kind = sys.argv[4] if len(sys.argv) > 4 else "breaking"

HEAD = '''You are working on a scratch git worktree of the Rust project tokio-rs/turmoil (a deterministic single-threaded network/fs simulation framework for tokio) at {wt} . Work ONLY inside {wt} and {out} . Never touch /repo, /verif or any other directory. There is no network: always pass --offline to cargo (e.g. `cargo test --workspace --no-fail-fast --offline -j 4`, run from {wt}; the repository's .cargo/config.toml already sets --cfg tokio_unstable). The unmodified tree passes its test suite (208 tests including doctests).

Here is a semantic property that the current code is meant to satisfy:

PROPERTY {id}: {title}
STATEMENT: {statement}
SCOPE / QUANTIFIER: {quant}
CODE THE PROPERTY IS ANCHORED IN: {files}
'''

BREAK = '''
YOUR TASK: act as a mutation author for a verification study. Produce TWO NEW independent changes (call them {ma} and {mb}, different mechanisms, different code sites) to the turmoil *source* (files under crates/*/src, not tests) such that each change:
 1. breaks the property above (a real behavioural violation of its statement, within its stated scope);
 2. still compiles, and the full existing test suite still passes unedited (`cargo test --workspace --no-fail-fast --offline -j 4` from {wt}: all tests pass -- you MUST run it and confirm);
 3. looks like a realistic regression a developer could introduce (refactor slip, off-by-one, missed case, wrong comparison, forgotten wake-up/cleanup, state updated in the wrong order, two sites that each look fine alone), not an obviously planted sabotage, and no new cfg flags / env vars / magic constants that trigger it;
 4. needs something SPECIFIC to manifest -- a particular interleaving or delivery order, a crash or fault at a particular point, a multi-step sequence of operations, an unusual input or configuration, or two cooperating sites -- rather than something ordinary use would expose at once;
 5. comes with a demonstration: a self-contained Rust integration test file (to be dropped into the appropriate crate's tests/ directory, e.g. crates/turmoil/tests/ or crates/turmoil-net/tests/) that FAILS with the change applied and PASSES on the unmodified tree. Run it both ways and confirm.

Earlier rounds of this study already produced the changes titled below. DO NOT REPEAT any of them or a close variant (same site and same mechanism); prefer parts of the property's statement, API surface and anchored code that this list has left untouched:
{titles}

Read the code first so that the mutation is well-targeted. Prefer small diffs (1-15 lines).

DELIVERABLES, for each mutation n in {{{ma}, {mb}}}, in {out}/<n>/ :
  - patch.diff : output of `git diff` (source change only, NOT including the demo test), applicable with `git apply` from the repository root;
  - demo.rs : the demonstration test file, and demo.txt saying exactly where to copy it (path relative to repo root, written as crates/<crate>/tests/<name>.rs; a stand-alone new file directly under crates/<crate>/tests/ so no other file needs editing), which cargo features it needs (written as `--features a,b` if any), and the exact command to run it;
  - notes.md : first line `# {id} / <n> - <one-line title of the change>`; then which clause of the property it breaks, what exactly is needed for it to manifest, and what you ran with the observed results (full suite with the patch: pass count; demo with patch: fails; demo without patch: passes).
If, while reading or experimenting, you notice that the UNMODIFIED tree already seems to violate the property in some situation, describe that situation in {out}/remarks.md (what you did, what you saw) -- this is valuable, but do not spend long on it.
If you can only find one good mutation, deliver one and say so. When finished, restore the worktree to a clean state (`git checkout -- .` and delete files you added inside {wt}), but do not remove the worktree directory itself or its target/ directory. Your final message should summarise the mutations in a few lines each.
'''

BENIGN = '''
YOUR TASK: act as the author of HARMLESS changes for a verification study that measures false alarms. Produce TWO independent changes (call them {ma} and {mb}, different code sites) to the turmoil *source* (files under crates/*/src, not tests), in or right next to the code the property is anchored in, such that each change:
 1. does NOT break the property above: after the change the statement still holds in its whole scope, for every input and schedule -- argue this carefully in notes.md;
 2. is nevertheless a REAL change a maintainer might make and that a brittle checker might trip over: it alters the implementation or alters behaviour the property deliberately leaves open. Good examples: replacing a data structure or algorithm by an equivalent one; reordering internal bookkeeping; changing the text of an error/panic/log/tracing message; changing an unspecified choice (which free ephemeral port is picked next, the initial sequence number, an internal default that the property does not pin such as a buffer size or a retransmission interval, the order of unrelated internal events, tie-breaking the property leaves open, internal timing within the bounds the statement allows); adding a fast path; tightening or loosening something outside the statement's scope. Aim for changes that move observable-but-unspecified details, not pure renames or comments;
 3. compiles, and the full existing test suite still passes unedited (`cargo test --workspace --no-fail-fast --offline -j 4` from {wt}: all tests pass -- you MUST run it and confirm);
 4. does not touch any item guarded by `#[cfg(turmoil_verif)]` and does not change the signature of public API.
Prefer small diffs (1-25 lines).

DELIVERABLES, for each change n in {{{ma}, {mb}}}, in {out}/<n>/ :
  - patch.diff : output of `git diff`, applicable with `git apply` from the repository root;
  - notes.md : first line `# {id} / <n> - <one-line title of the change>`; then what changes observably (if anything), why the property still holds in its whole scope, and what you ran (full suite with the patch: pass count).
When finished, restore the worktree to a clean state (`git checkout -- .`), but do not remove the worktree directory itself or its target/ directory. Your final message should summarise the two changes in a few lines each.
'''

TAIL = '''

PRACTICAL NOTE: other jobs are running on this machine. The suite test `test_tokio_with_io_disabled` is sensitive to machine load; if it is the only failure, re-run that one test alone (`cargo test -p turmoil --offline test_tokio_with_io_disabled`) before concluding anything. Limit cargo to 4 jobs (`-j 4`) to be a good neighbour. NEVER use `git stash` (the stash list is shared with other jobs working in sibling worktrees of the same repository): to compare with the unmodified tree, save your change with `git diff > /some/file` inside your output directory and use `git checkout -- .` / `git apply`. Disk space is limited: do not create additional target directories or copies of the repository.'''

os.makedirs(f"{base}/prompts", exist_ok=True)
for l in open('/verif/properties.jsonl'):
    p = json.loads(l)
    i = p['id']
    wt, out = f'{base}/wt-{i}', f'{base}/out-{i}'
    titles = ''
    for n in sorted(glob.glob(f'/verif/seeded/{i}-m*/notes.md'), key=lambda s: int(re.search(r'-m(\d+)/', s).group(1))):
        m = re.search(r'-(m\d+)/', n).group(1)
        t = open(n).readline().strip().lstrip('# ').strip()
        t = re.sub(r'^C\d\d\s*/\s*m\d+\s*[-—–:]+\s*', '', t)
        titles += f' - {i} / {m} - {t}\n'
    s = HEAD.format(wt=wt, out=out, id=i, title=p['title'], statement=p['statement'],
                    quant=p['quantifier']['text'], files=', '.join(p['anchors']['files']))
    body = BREAK if kind == 'breaking' else BENIGN
    s += body.format(wt=wt, out=out, id=i, ma=ma, mb=mb, titles=titles.rstrip('\n'))
    s += TAIL
    open(f'{base}/prompts/{i}.txt', 'w').write(s)
print("wrote", base + "/prompts")
