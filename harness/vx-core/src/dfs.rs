//! Stateless, deviation-bounded exploration of a choice tree.
//!
//! `f` is a scenario: it builds the real system from scratch, drives it, asks the
//! chooser wherever the property quantifies, and returns what it observed. The
//! explorer enumerates *every* choice vector whose number of deviations is within the
//! bound; each execution runs the real code to completion.

use crate::chooser::{Chooser, Point, ReplayDivergence};
use crate::report::{Part, Violation};
use std::collections::HashSet;
use std::sync::atomic::{AtomicBool, AtomicU64, AtomicUsize, Ordering};
use std::sync::Mutex;
use std::time::{Duration, Instant};

/// What one execution produced.
#[derive(Default)]
pub struct Exec {
    /// hash of the full observation log (for distinct-outcome counting)
    pub outcome: u64,
    pub violation: Option<Violation>,
    /// optional features reached (engine-defined coverage markers)
    pub features: Vec<&'static str>,
}

pub struct DfsConfig {
    pub name: String,
    pub dev_bound: u32,
    pub max_execs: u64,
    pub wall: Duration,
    pub threads: usize,
    /// stop expanding a branch after it produced a violation
    pub max_violations: usize,
    pub scenario: String,
    /// re-execute each distinct violation twice and require the identical verdict
    pub recheck: bool,
}

impl DfsConfig {
    pub fn new(name: &str, dev_bound: u32) -> Self {
        DfsConfig {
            name: name.to_string(),
            dev_bound,
            max_execs: u64::MAX,
            wall: Duration::from_secs(3600),
            threads: crate::threads(),
            max_violations: 200,
            scenario: name.to_string(),
            recheck: true,
        }
    }
}

pub struct DfsStats {
    pub part: Part,
    pub violations: Vec<Violation>,
    pub features: Vec<String>,
    pub samples: Vec<Vec<String>>,
}

pub fn explore_dfs<F>(cfg: &DfsConfig, f: F) -> DfsStats
where
    F: Fn(&mut Chooser) -> Exec + Sync,
{
    let stack: Mutex<Vec<Vec<Point>>> = Mutex::new(vec![vec![]]);
    let pending = AtomicUsize::new(1);
    let execs = AtomicU64::new(0);
    let max_points = AtomicU64::new(0);
    let edges = AtomicU64::new(0);
    let capped = AtomicBool::new(false);
    let outcomes: Mutex<HashSet<u64>> = Mutex::new(HashSet::new());
    let violations: Mutex<Vec<Violation>> = Mutex::new(vec![]);
    let features: Mutex<HashSet<&'static str>> = Mutex::new(HashSet::new());
    let samples: Mutex<Vec<Vec<String>>> = Mutex::new(vec![]);
    let start = Instant::now();
    let divergence: Mutex<Option<String>> = Mutex::new(None);
    let divergences = AtomicU64::new(0);

    let run_one = |prefix: Vec<Point>| -> (Chooser, Result<Exec, String>) {
        let mut ch = Chooser::new(prefix);
        let r = std::panic::catch_unwind(std::panic::AssertUnwindSafe(|| f(&mut ch)));
        match r {
            Ok(e) => (ch, Ok(e)),
            Err(p) => {
                if let Some(d) = p.downcast_ref::<ReplayDivergence>() {
                    divergence.lock().unwrap().get_or_insert_with(|| d.0.clone());
                    divergences.fetch_add(1, Ordering::Relaxed);
                    (ch, Err("replay divergence".into()))
                } else {
                    let m = crate::take_last_panic().unwrap_or_else(|| "<panic>".into());
                    (ch, Err(m))
                }
            }
        }
    };

    std::thread::scope(|s| {
        for _ in 0..cfg.threads.max(1) {
            s.spawn(|| {
                let mut local_out: HashSet<u64> = HashSet::new();
                let mut idle_spins = 0u32;
                loop {
                    // a replayed prefix that meets different choice points: that execution is
                    // abandoned; the search goes on for a while, because when it is the code
                    // under test that behaves differently from run to run, an execution that
                    // violates the property outright is usually close by
                    if divergences.load(Ordering::Relaxed) > 200 {
                        break;
                    }
                    let item = stack.lock().unwrap().pop();
                    let Some(prefix) = item else {
                        if pending.load(Ordering::SeqCst) == 0 {
                            break;
                        }
                        idle_spins += 1;
                        if idle_spins > 50 {
                            std::thread::sleep(Duration::from_micros(200));
                        } else {
                            std::thread::yield_now();
                        }
                        continue;
                    };
                    idle_spins = 0;
                    let plen = prefix.len();
                    let n = execs.fetch_add(1, Ordering::Relaxed) + 1;
                    let (ch, res) = run_one(prefix);
                    max_points.fetch_max(ch.points.len() as u64, Ordering::Relaxed);
                    edges.fetch_add((ch.points.len().saturating_sub(plen)) as u64 + 1, Ordering::Relaxed);
                    let mut extend = true;
                    match res {
                        Ok(e) => {
                            local_out.insert(e.outcome);
                            if !e.features.is_empty() {
                                let mut fs = features.lock().unwrap();
                                for x in e.features {
                                    fs.insert(x);
                                }
                            }
                            if let Some(mut v) = e.violation {
                                v.choices = ch.choices();
                                if v.actions.is_empty() {
                                    v.actions = ch.describe();
                                }
                                if v.scenario.is_empty() {
                                    v.scenario = cfg.scenario.clone();
                                }
                                let mut vs = violations.lock().unwrap();
                                if vs.len() < cfg.max_violations {
                                    vs.push(v);
                                } else {
                                    capped.store(true, Ordering::Relaxed);
                                }
                                extend = false;
                            }
                        }
                        Err(m) if m == "replay divergence" => {
                            extend = false;
                        }
                        Err(m) => {
                            let mut v = Violation::new("panic", format!("uncaught panic: {m}"));
                            v.choices = ch.choices();
                            v.actions = ch.describe();
                            v.scenario = cfg.scenario.clone();
                            let mut vs = violations.lock().unwrap();
                            if vs.len() < cfg.max_violations {
                                vs.push(v);
                            }
                            extend = false;
                        }
                    }
                    if n % 64 == 1 {
                        let mut sm = samples.lock().unwrap();
                        if sm.len() < 3 {
                            sm.push(ch.describe());
                        }
                    }
                    if n >= cfg.max_execs || start.elapsed() > cfg.wall {
                        capped.store(true, Ordering::Relaxed);
                        extend = false;
                        // drain
                        let mut st = stack.lock().unwrap();
                        let k = st.len();
                        st.clear();
                        pending.fetch_sub(k, Ordering::SeqCst);
                    }
                    if extend {
                        // children: deviate at every later point
                        let mut kids: Vec<Vec<Point>> = vec![];
                        let mut devs: u32 =
                            ch.points[..plen].iter().filter(|p| p.dev && p.chosen != 0).count() as u32;
                        for i in plen..ch.points.len() {
                            let p = &ch.points[i];
                            // p.chosen is 0 here (default), alternatives 1..n
                            let cost = devs + if p.dev { 1 } else { 0 };
                            if cost <= cfg.dev_bound {
                                for alt in 1..p.n {
                                    let mut k: Vec<Point> = ch.points[..i].to_vec();
                                    k.push(Point { site: p.site, n: p.n, chosen: alt, dev: p.dev });
                                    kids.push(k);
                                }
                            }
                            if p.dev && p.chosen != 0 {
                                devs += 1;
                            }
                        }
                        if !kids.is_empty() {
                            pending.fetch_add(kids.len(), Ordering::SeqCst);
                            // reverse so that the shallowest alternative is popped last (DFS-like memory)
                            let mut st = stack.lock().unwrap();
                            st.extend(kids.into_iter().rev());
                        }
                    }
                    pending.fetch_sub(1, Ordering::SeqCst);
                }
                outcomes.lock().unwrap().extend(local_out);
            });
        }
    });

    let mut violations = violations.into_inner().unwrap();
    if let Some(d) = divergence.lock().unwrap().take() {
        if violations.is_empty() {
            crate::machinery_error(&format!("{}: {d}", cfg.name));
        }
        // violations were found as well: they stand (each is re-executed below); the
        // divergence is reported with them
        eprintln!(
            "note: {}: {} replayed prefixes met different choice points than recorded (first: {d}); on the unchanged tree none does, so the code under test behaves differently between runs of one schedule",
            cfg.name,
            divergences.load(Ordering::Relaxed)
        );
    }

    violations.sort_by(|a, b| (a.choices.len(), &a.choices).cmp(&(b.choices.len(), &b.choices)));
    // determinism check of each distinct-signature violation: re-execute twice
    let mut checked: HashSet<String> = HashSet::new();
    for v in violations.iter_mut() {
        if !checked.insert(v.sig.clone()) || checked.len() > 8 {
            continue;
        }
        if v.clause == "panic" || !cfg.recheck {
            continue;
        }
        // (identical on both re-executions, violating re-executions that differ)
        let (mut identical, mut differing, mut last) = (0, 0, String::new());
        for attempt in 0..8 {
            // two identical re-executions settle it; when a re-execution differs, a few more
            // are made so that a violation that shows only in some runs is seen again
            if attempt >= 2 && (identical == 2 || identical + differing > 0) {
                break;
            }
            let mut ch = Chooser::from_choices(&v.choices);
            ch.verbose = false;
            let r = std::panic::catch_unwind(std::panic::AssertUnwindSafe(|| f(&mut ch)));
            match r {
                Ok(e) => match e.violation {
                    Some(w) if w.clause == v.clause && w.detail == v.detail => identical += 1,
                    Some(w) => {
                        differing += 1;
                        last = format!("{}: {}", w.clause, w.detail);
                    }
                    None => last = "no violation".to_string(),
                },
                Err(_) => {
                    differing += 1;
                    last = "a panic".to_string();
                }
            }
        }
        if identical == 2 {
            continue;
        }
        if identical + differing == 0 {
            // the schedule violated once and never again: nothing to stand on
            crate::machinery_error(&format!(
                "{}: violation {} does not reproduce on re-execution (uncaptured nondeterminism)\n  first:  {}: {}\n  then:   {}",
                cfg.name, v.sig, v.clause, v.detail, last
            ));
        }
        // The same schedule violates the property again, but not identically: the harness owns
        // every choice (the unchanged tree reproduces bit for bit), so the code under test behaves
        // differently between runs of one schedule. The violation stands and says so.
        v.detail.push_str(&format!(
            " [re-executing the same schedule violated the property again but not identically ({} identical; e.g. {}): the code under test is not deterministic under a fixed schedule]",
            identical, last
        ));
    }
    let n_out = outcomes.lock().unwrap().len() as u64;
    let execs = execs.load(Ordering::Relaxed);
    let capped = capped.load(Ordering::Relaxed);
    let mut caps = vec![];
    if capped {
        caps.push(format!(
            "stopped early (max_execs={} wall={}s max_violations={})",
            cfg.max_execs,
            cfg.wall.as_secs(),
            cfg.max_violations
        ));
    }
    let mut feats: Vec<String> = features.lock().unwrap().iter().map(|s| s.to_string()).collect();
    feats.sort();
    let mut part = Part {
        name: cfg.name.clone(),
        states: edges.load(Ordering::Relaxed) + 1,
        transitions: edges.load(Ordering::Relaxed),
        executions: execs,
        distinct_outcomes: n_out,
        max_depth: max_points.load(Ordering::Relaxed),
        exhaustive: !capped,
        caps_hit: caps,
        bounds: format!("stateless choice tree (states/transitions = nodes/edges of the choice tree visited), deviation bound {}", cfg.dev_bound),
        extra: Default::default(),
    };
    part.extra.insert("features".into(), serde_json::json!(feats));
    DfsStats { part, violations, features: feats, samples: samples.into_inner().unwrap() }
}
