//! Evidence, replay artefacts, known findings, exit codes.

use serde_json::{json, Value};
use std::collections::BTreeMap;
use std::path::PathBuf;
use std::time::Instant;

#[derive(Clone, Copy, Debug, PartialEq, Eq)]
pub enum Tier {
    Quick,
    Thorough,
}

impl Tier {
    pub fn parse(s: &str) -> Tier {
        match s {
            "quick" => Tier::Quick,
            "thorough" => Tier::Thorough,
            _ => crate::machinery_error(&format!("unknown tier {s}")),
        }
    }
    pub fn name(self) -> &'static str {
        match self {
            Tier::Quick => "quick",
            Tier::Thorough => "thorough",
        }
    }
    pub fn pick<T>(self, q: T, t: T) -> T {
        match self {
            Tier::Quick => q,
            Tier::Thorough => t,
        }
    }
}

#[derive(Clone, Debug)]
pub struct Violation {
    /// which oracle clause failed (stable short id)
    pub clause: String,
    /// signature used for known-findings matching: clause + the minimal cause the
    /// engine could identify (deviations, operation slice). Stable across runs.
    pub sig: String,
    /// human-readable: expected vs observed
    pub detail: String,
    /// scenario / configuration identifier understood by the engine's `replay`
    pub scenario: String,
    /// raw choice vector or action history
    pub choices: Vec<u32>,
    /// human-readable action list
    pub actions: Vec<String>,
}

impl Violation {
    pub fn new(clause: &str, detail: String) -> Violation {
        Violation {
            clause: clause.to_string(),
            sig: clause.to_string(),
            detail,
            scenario: String::new(),
            choices: vec![],
            actions: vec![],
        }
    }
    pub fn with_sig(mut self, sig: String) -> Self {
        self.sig = sig;
        self
    }
}

pub fn verif_dir() -> PathBuf {
    PathBuf::from(std::env::var("VERIF_DIR").unwrap_or_else(|_| "/verif".into()))
}

pub fn seed() -> u64 {
    std::env::var("VERIF_SEED").ok().and_then(|s| s.parse().ok()).unwrap_or(0)
}

#[derive(Clone, Debug)]
pub struct KnownFinding {
    pub property: String,
    pub status: String,
    pub signature: String,
    pub what: String,
}

pub fn load_known_findings() -> Vec<KnownFinding> {
    let p = verif_dir().join("known_findings.json");
    let Ok(txt) = std::fs::read_to_string(&p) else { return vec![] };
    let v: Value = match serde_json::from_str(&txt) {
        Ok(v) => v,
        Err(e) => crate::machinery_error(&format!("known_findings.json does not parse: {e}")),
    };
    let mut out = vec![];
    for e in v["findings"].as_array().cloned().unwrap_or_default() {
        let sigs: Vec<String> = match &e["signatures"] {
            Value::Array(a) => a.iter().filter_map(|s| s.as_str().map(String::from)).collect(),
            _ => e["signature"].as_str().map(|s| vec![s.to_string()]).unwrap_or_default(),
        };
        for s in sigs {
            out.push(KnownFinding {
                property: e["property"].as_str().unwrap_or("").to_string(),
                status: e["status"].as_str().unwrap_or("").to_string(),
                signature: s,
                what: e["what"].as_str().unwrap_or("").to_string(),
            });
        }
    }
    out
}

/// One part of a check (a scenario family / configuration) with its own counters.
#[derive(Clone, Debug, Default)]
pub struct Part {
    pub name: String,
    pub states: u64,
    pub transitions: u64,
    pub executions: u64,
    pub distinct_outcomes: u64,
    pub max_depth: u64,
    pub exhaustive: bool,
    pub caps_hit: Vec<String>,
    pub bounds: String,
    pub extra: BTreeMap<String, Value>,
}

pub struct Report {
    pub property: String,
    pub tier: Tier,
    pub level: &'static str,
    pub engine: &'static str,
    pub rule: String,
    pub parts: Vec<Part>,
    pub samples: Vec<Value>,
    pub violations: Vec<Violation>,
    pub assumptions: Vec<String>,
    pub extra: BTreeMap<String, Value>,
    start: Instant,
}

impl Report {
    pub fn new(property: &str, tier: Tier, level: &'static str, engine: &'static str) -> Report {
        Report {
            property: property.to_string(),
            tier,
            level,
            engine,
            rule: String::new(),
            parts: vec![],
            samples: vec![],
            violations: vec![],
            assumptions: vec![],
            extra: BTreeMap::new(),
            start: Instant::now(),
        }
    }

    pub fn elapsed_s(&self) -> f64 {
        self.start.elapsed().as_secs_f64()
    }

    pub fn add_part(&mut self, p: Part) {
        eprintln!(
            "[{}] part {}: states={} transitions={} executions={} outcomes={} depth={} exhaustive={} {} ({:.1}s)",
            self.property,
            p.name,
            p.states,
            p.transitions,
            p.executions,
            p.distinct_outcomes,
            p.max_depth,
            p.exhaustive,
            if p.caps_hit.is_empty() { String::new() } else { format!("caps={:?}", p.caps_hit) },
            self.elapsed_s()
        );
        self.parts.push(p);
    }

    pub fn sample(&mut self, v: Value) {
        if self.samples.len() < 12 {
            self.samples.push(v);
        }
    }

    /// Write evidence + replay files, print KNOWN-FINDING / VIOLATION lines, exit.
    pub fn finish(self) -> ! {
        let dir = verif_dir();
        let known = load_known_findings();
        let mut known_hit: BTreeMap<String, String> = BTreeMap::new();
        let mut fresh: Vec<&Violation> = vec![];
        for v in &self.violations {
            if let Some(k) = known
                .iter()
                .find(|k| k.property == self.property && k.status == "known" && k.signature == v.sig)
            {
                known_hit.entry(k.signature.clone()).or_insert_with(|| k.what.clone());
            } else {
                fresh.push(v);
            }
        }
        // vacuity: many executions, one outcome => nothing collided
        let execs: u64 = self.parts.iter().map(|p| p.executions).sum();
        let states: u64 = self.parts.iter().map(|p| p.states).sum();
        let transitions: u64 = self.parts.iter().map(|p| p.transitions).sum();
        let outcomes: u64 = self.parts.iter().map(|p| p.distinct_outcomes).sum();
        let exhaustive = !self.parts.is_empty() && self.parts.iter().all(|p| p.exhaustive);

        // triage aid: every distinct fresh signature with its count and first example
        if !fresh.is_empty() {
            let mut by: BTreeMap<String, (usize, String)> = BTreeMap::new();
            for v in &fresh {
                let e = by.entry(v.sig.clone()).or_insert((0, v.detail.clone()));
                e.0 += 1;
            }
            let mut txt = String::new();
            for (s, (n, d)) in &by {
                txt.push_str(&format!("{n}\t{s}\n\t{d}\n"));
            }
            let _ = std::fs::create_dir_all(dir.join("target"));
            let _ = std::fs::write(dir.join("target").join(format!("sigs-{}.txt", self.property)), txt);
        }
        let mut replay_paths = vec![];
        let _ = std::fs::create_dir_all(dir.join("replays"));
        // distinct signatures only; cap the number of files
        let mut seen_sig = std::collections::BTreeSet::new();
        for v in &fresh {
            if !seen_sig.insert(v.sig.clone()) || replay_paths.len() >= 5 {
                continue;
            }
            let h = crate::hash::Digest::of64(&(v.sig.as_str(), v.scenario.as_str(), &v.choices));
            let path = dir.join("replays").join(format!("{}-{:016x}.json", self.property, h));
            let body = json!({
                "property": self.property,
                "engine": self.engine,
                "clause": v.clause,
                "signature": v.sig,
                "scenario": v.scenario,
                "choices": v.choices,
                "actions": v.actions,
                "detail": v.detail,
            });
            let _ = std::fs::write(&path, serde_json::to_string_pretty(&body).unwrap());
            replay_paths.push((path, v.clause.clone(), v.detail.clone()));
        }

        let parts_json: Vec<Value> = self
            .parts
            .iter()
            .map(|p| {
                let mut m = serde_json::Map::new();
                m.insert("name".into(), json!(p.name));
                m.insert("bounds".into(), json!(p.bounds));
                m.insert("states".into(), json!(p.states));
                m.insert("transitions".into(), json!(p.transitions));
                m.insert("executions".into(), json!(p.executions));
                m.insert("distinct_outcomes".into(), json!(p.distinct_outcomes));
                m.insert("max_depth".into(), json!(p.max_depth));
                m.insert("exhaustive".into(), json!(p.exhaustive));
                m.insert("caps_hit".into(), json!(p.caps_hit));
                for (k, v) in &p.extra {
                    m.insert(k.clone(), v.clone());
                }
                Value::Object(m)
            })
            .collect();

        let mut cov = serde_json::Map::new();
        cov.insert("states".into(), json!(states.max(0)));
        cov.insert("transitions".into(), json!(transitions));
        cov.insert("traces_validated_against_impl".into(), json!(execs));
        cov.insert("evaluations".into(), json!(execs));
        cov.insert("distinct_nontrivial".into(), json!(outcomes));
        cov.insert(
            "rule".into(),
            json!(format!(
                "{} | every execution runs on the real implementation; distinct_nontrivial counts distinct observation logs (outcomes) summed over parts; states counts distinct canonical digests (explicit-state parts) or distinct outcomes (stateless parts)",
                self.rule
            )),
        );
        cov.insert("samples".into(), Value::Array(self.samples.clone()));
        cov.insert("exhaustive".into(), json!(exhaustive));
        cov.insert("parts".into(), Value::Array(parts_json));
        cov.insert("engine".into(), json!(self.engine));
        cov.insert(
            "known_findings_matched".into(),
            json!(known_hit.keys().cloned().collect::<Vec<_>>()),
        );
        for (k, v) in &self.extra {
            cov.insert(k.clone(), v.clone());
        }
        let ev = json!({
            "property_id": self.property,
            "tier": self.tier.name(),
            "seed": seed(),
            "level": self.level,
            "coverage": Value::Object(cov),
            "assumptions": self.assumptions,
            "wall_s": self.start.elapsed().as_secs_f64(),
            "violations": fresh.len(),
        });
        let _ = std::fs::create_dir_all(dir.join("evidence"));
        let evp = dir.join("evidence").join(format!("{}.json", self.property));
        if let Err(e) = std::fs::write(&evp, serde_json::to_string_pretty(&ev).unwrap()) {
            crate::machinery_error(&format!("cannot write {}: {e}", evp.display()));
        }

        for (sig, what) in &known_hit {
            println!("KNOWN-FINDING: property={} {} [{}]", self.property, what, sig);
        }
        if !replay_paths.is_empty() {
            for (p, clause, detail) in &replay_paths {
                println!("VIOLATION property={} replay={}", self.property, p.display());
                println!("  clause={clause}: {detail}");
            }
            println!(
                "{}: {} violating executions, {} distinct signatures",
                self.property,
                fresh.len(),
                seen_sig.len()
            );
            std::process::exit(1);
        }
        if execs == 0 {
            crate::machinery_error("no executions were run");
        }
        if execs > 50 && outcomes <= 1 {
            crate::machinery_error("vacuous exploration: many executions, a single outcome");
        }
        println!(
            "OK property={} tier={} states={} transitions={} executions={} outcomes={} exhaustive={} wall={:.1}s",
            self.property,
            self.tier.name(),
            states,
            transitions,
            execs,
            outcomes,
            exhaustive,
            self.start.elapsed().as_secs_f64()
        );
        std::process::exit(0)
    }
}

/// Load a replay file: (scenario, choices)
pub fn load_replay(path: &str) -> (String, String, Vec<u32>) {
    let txt = std::fs::read_to_string(path)
        .unwrap_or_else(|e| crate::machinery_error(&format!("cannot read replay file {path}: {e}")));
    let v: Value = serde_json::from_str(&txt)
        .unwrap_or_else(|e| crate::machinery_error(&format!("replay file does not parse: {e}")));
    let choices = v["choices"]
        .as_array()
        .map(|a| a.iter().map(|x| x.as_u64().unwrap_or(0) as u32).collect())
        .unwrap_or_default();
    (
        v["property"].as_str().unwrap_or("").to_string(),
        v["scenario"].as_str().unwrap_or("").to_string(),
        choices,
    )
}
