//! vx-core: bounded exhaustive exploration of real code.
//!
//! * `chooser` / `dfs` — stateless choice-tree exploration with a deviation bound
//!   (every execution re-runs the real code from its initial state).
//! * `bfs` — level-synchronous explicit-state search with duplicate detection on a
//!   canonical digest; every state is reached by replaying its action history on the
//!   real implementation, and a deterministic fair suffix is run from every new state.
//! * `exec` — a tiny single-threaded executor that polls a task only when its waker fired.
//! * `report` — evidence files, replay artefacts, known-findings matching, exit codes.

pub mod bfs;
pub mod chooser;
pub mod dfs;
pub mod exec;
pub mod hash;
pub mod report;

pub use bfs::{explore_bfs, BfsConfig, BfsStats, System};
pub use chooser::{Chooser, Point, ReplayDivergence};
pub use dfs::{explore_dfs, DfsConfig, DfsStats, Exec as ExecResult};
pub use hash::Digest;
pub use report::{Report, Tier, Violation};

use std::cell::RefCell;

thread_local! {
    static LAST_PANIC: RefCell<Option<String>> = const { RefCell::new(None) };
}

/// Install a panic hook that records the message (and location) in a thread-local
/// instead of printing it. Exploration runs millions of executions, some of which are
/// *expected* to panic (documented panics are outcomes the oracles judge).
pub fn install_quiet_panic_hook() {
    std::panic::set_hook(Box::new(|info| {
        let msg = if let Some(s) = info.payload().downcast_ref::<&str>() {
            s.to_string()
        } else if let Some(s) = info.payload().downcast_ref::<String>() {
            s.clone()
        } else if info.payload().downcast_ref::<ReplayDivergence>().is_some() {
            "replay divergence".to_string()
        } else {
            "<non-string panic payload>".to_string()
        };
        let loc = info
            .location()
            .map(|l| format!(" at {}:{}", l.file(), l.line()))
            .unwrap_or_default();
        LAST_PANIC.with(|p| *p.borrow_mut() = Some(format!("{msg}{loc}")));
    }));
}

/// Message of the most recent panic on this thread (cleared by the call).
pub fn take_last_panic() -> Option<String> {
    LAST_PANIC.with(|p| p.borrow_mut().take())
}

/// Run `f`, turning a panic into `Err(message)`.
pub fn catch<T>(f: impl FnOnce() -> T) -> Result<T, String> {
    match std::panic::catch_unwind(std::panic::AssertUnwindSafe(f)) {
        Ok(v) => Ok(v),
        Err(p) => {
            if p.downcast_ref::<ReplayDivergence>().is_some() {
                std::panic::resume_unwind(p);
            }
            Err(take_last_panic().unwrap_or_else(|| "<panic>".into()))
        }
    }
}

/// Number of worker threads to use (all cores unless VX_THREADS is set).
pub fn threads() -> usize {
    std::env::var("VX_THREADS")
        .ok()
        .and_then(|s| s.parse().ok())
        .unwrap_or_else(|| std::thread::available_parallelism().map(|n| n.get()).unwrap_or(4))
}

/// Machinery failure: never a verdict. Exit code 2.
pub fn machinery_error(msg: &str) -> ! {
    eprintln!("MACHINERY-ERROR: {msg}");
    println!("MACHINERY-ERROR: {msg}");
    std::process::exit(2)
}
