//! 128-bit digests from two independently keyed SipHash streams (std's DefaultHasher
//! is deterministic when built with `new()`), so digests are equal across runs,
//! threads and processes.

use std::collections::hash_map::DefaultHasher;
use std::hash::{Hash, Hasher};

pub struct Digest {
    a: DefaultHasher,
    b: DefaultHasher,
}

impl Default for Digest {
    fn default() -> Self {
        Self::new()
    }
}

impl Digest {
    pub fn new() -> Self {
        let mut a = DefaultHasher::new();
        let mut b = DefaultHasher::new();
        a.write_u64(0x9e37_79b9_7f4a_7c15);
        b.write_u64(0xc2b2_ae3d_27d4_eb4f);
        Digest { a, b }
    }
    pub fn add<T: Hash + ?Sized>(&mut self, t: &T) -> &mut Self {
        t.hash(&mut self.a);
        t.hash(&mut self.b);
        self
    }
    pub fn add_str(&mut self, s: &str) -> &mut Self {
        self.add(s)
    }
    pub fn finish(&self) -> u128 {
        ((self.a.finish() as u128) << 64) | self.b.finish() as u128
    }
    pub fn of<T: Hash + ?Sized>(t: &T) -> u128 {
        let mut d = Digest::new();
        d.add(t);
        d.finish()
    }
    pub fn of64<T: Hash + ?Sized>(t: &T) -> u64 {
        let mut a = DefaultHasher::new();
        t.hash(&mut a);
        a.finish()
    }
}
