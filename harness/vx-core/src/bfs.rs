//! Level-synchronous explicit-state search over the *real implementation*.
//!
//! A state is identified by the action history that reaches it (live objects do not
//! clone); expansion replays the history from the initial state on the real code and
//! applies one more action. A canonical 128-bit digest deduplicates states. After
//! every new state the deterministic fair suffix (`finish`) is run, so liveness
//! clauses are judged from every reachable state within the bound.
//!
//! Determinism: the new (digest, history) pairs of a level are sorted and reduced to
//! the lexicographically smallest history per digest, so counts and representative
//! histories are identical on every run regardless of thread timing.

use crate::report::{Part, Violation};
use std::collections::HashSet;
use std::sync::atomic::{AtomicBool, AtomicU64, AtomicUsize, Ordering};
use std::sync::Mutex;
use std::time::{Duration, Instant};

pub trait System: Sized {
    type Cfg: Sync;
    fn init(cfg: &Self::Cfg) -> Self;
    /// actions enabled in this state, in a canonical order (simplest first)
    fn actions(&self, out: &mut Vec<u16>);
    fn describe(&self, a: u16) -> String;
    /// execute one action on the real code and check the step oracles
    fn apply(&mut self, a: u16) -> Result<(), Violation>;
    /// canonical digest of implementation state + harness state + budgets
    fn digest(&self) -> u128;
    /// deterministic fair suffix and end-of-execution oracle; returns a hash of the
    /// complete observation log
    fn finish(self) -> (u64, Option<Violation>);
    /// engine-defined coverage markers reached in this state
    fn features(&self, _out: &mut Vec<&'static str>) {}
}

pub struct BfsConfig {
    pub name: String,
    pub scenario: String,
    pub max_depth: usize,
    pub max_states: usize,
    pub wall: Duration,
    pub threads: usize,
    pub max_violations: usize,
    pub bounds: String,
    /// run the fair suffix from every new state (true) or not at all (false)
    pub run_suffix: bool,
}

impl BfsConfig {
    pub fn new(name: &str) -> Self {
        BfsConfig {
            name: name.into(),
            scenario: name.into(),
            max_depth: 1000,
            max_states: 20_000_000,
            wall: Duration::from_secs(3600),
            threads: crate::threads(),
            max_violations: 200,
            bounds: String::new(),
            run_suffix: true,
        }
    }
}

pub struct BfsStats {
    pub part: Part,
    pub violations: Vec<Violation>,
    pub features: Vec<String>,
    pub samples: Vec<Vec<String>>,
    pub closed: bool,
}

struct Local {
    new: Vec<(u128, Box<[u16]>)>,
    transitions: u64,
    executions: u64,
    outcomes: HashSet<u64>,
    violations: Vec<(Vec<u16>, Violation)>,
    features: HashSet<&'static str>,
}

fn replay<S: System>(cfg: &S::Cfg, h: &[u16], name: &str) -> S {
    let mut s = S::init(cfg);
    for (i, &a) in h.iter().enumerate() {
        let r = std::panic::catch_unwind(std::panic::AssertUnwindSafe(|| s.apply(a)));
        match r {
            Ok(Ok(())) => {}
            Ok(Err(v)) => crate::machinery_error(&format!(
                "{name}: replay of a previously clean history failed at step {i} ({}): {} — uncaptured nondeterminism",
                v.clause, v.detail
            )),
            Err(_) => crate::machinery_error(&format!(
                "{name}: replay of a previously clean history panicked at step {i}: {:?}",
                crate::take_last_panic()
            )),
        }
    }
    s
}

pub fn describe_history<S: System>(cfg: &S::Cfg, h: &[u16]) -> Vec<String> {
    let mut s = S::init(cfg);
    let mut out = vec![];
    for &a in h {
        out.push(s.describe(a));
        let r = std::panic::catch_unwind(std::panic::AssertUnwindSafe(|| s.apply(a)));
        if !matches!(r, Ok(Ok(()))) {
            break;
        }
    }
    out
}

/// Re-run a history; returns the violation it produces (in `apply` of the last action
/// or in `finish`), if any.
pub fn run_history<S: System>(cfg: &S::Cfg, h: &[u16]) -> Option<Violation> {
    let mut s = S::init(cfg);
    for &a in h {
        let r = std::panic::catch_unwind(std::panic::AssertUnwindSafe(|| s.apply(a)));
        match r {
            Ok(Ok(())) => {}
            Ok(Err(v)) => return Some(v),
            Err(_) => {
                return Some(Violation::new(
                    "panic",
                    format!("uncaught panic: {}", crate::take_last_panic().unwrap_or_default()),
                ))
            }
        }
    }
    let r = std::panic::catch_unwind(std::panic::AssertUnwindSafe(|| s.finish()));
    match r {
        Ok((_, v)) => v,
        Err(_) => Some(Violation::new(
            "panic",
            format!("uncaught panic in suffix: {}", crate::take_last_panic().unwrap_or_default()),
        )),
    }
}

pub fn explore_bfs<S: System>(cfg: &BfsConfig, scfg: &S::Cfg) -> BfsStats {
    let start = Instant::now();
    let mut seen: HashSet<u128> = HashSet::new();
    let mut frontier: Vec<Box<[u16]>> = vec![];
    let mut transitions = 0u64;
    let mut executions = 0u64;
    let mut outcomes: HashSet<u64> = HashSet::new();
    let mut violations: Vec<(Vec<u16>, Violation)> = vec![];
    let mut features: HashSet<&'static str> = HashSet::new();
    let mut caps: Vec<String> = vec![];
    let mut level_sizes: Vec<usize> = vec![];
    let mut samples: Vec<Vec<u16>> = vec![];

    // root
    {
        let s = S::init(scfg);
        seen.insert(s.digest());
        let mut fs = vec![];
        s.features(&mut fs);
        features.extend(fs);
        if cfg.run_suffix {
            let (o, v) = s.finish();
            executions += 1;
            outcomes.insert(o);
            if let Some(v) = v {
                violations.push((vec![], v));
            }
        }
        if violations.is_empty() {
            frontier.push(Box::new([]));
        }
    }
    let mut depth = 0usize;
    let mut closed = false;
    let mut stopped = false;
    let mut dropped_violations = 0u64;
    while depth < cfg.max_depth {
        if frontier.is_empty() {
            closed = true;
            break;
        }
        level_sizes.push(frontier.len());
        let idx = AtomicUsize::new(0);
        let stop = AtomicBool::new(false);
        let done_states = AtomicU64::new(0);
        let locals: Mutex<Vec<Local>> = Mutex::new(vec![]);
        let seen_ref = &seen;
        let frontier_ref = &frontier;
        std::thread::scope(|sc| {
            for _ in 0..cfg.threads.max(1) {
                sc.spawn(|| {
                    let mut l = Local {
                        new: vec![],
                        transitions: 0,
                        executions: 0,
                        outcomes: HashSet::new(),
                        violations: vec![],
                        features: HashSet::new(),
                    };
                    let mut acts: Vec<u16> = vec![];
                    let mut feats: Vec<&'static str> = vec![];
                    loop {
                        if stop.load(Ordering::Relaxed) {
                            break;
                        }
                        let i = idx.fetch_add(1, Ordering::Relaxed);
                        if i >= frontier_ref.len() {
                            break;
                        }
                        if i % 256 == 0 && start.elapsed() > cfg.wall {
                            stop.store(true, Ordering::Relaxed);
                            break;
                        }
                        let h = &frontier_ref[i];
                        let base: S = replay::<S>(scfg, h, &cfg.name);
                        acts.clear();
                        base.actions(&mut acts);
                        // Only one live system per thread at a time (implementations use
                        // thread-local installation): the replayed base serves the first
                        // action, every further action gets a fresh replay after the
                        // previous instance has been dropped.
                        let mut base = Some(base);
                        for &a in acts.iter() {
                            let mut c: S = match base.take() {
                                Some(b) => b,
                                None => replay::<S>(scfg, h, &cfg.name),
                            };
                            l.transitions += 1;
                            let r = std::panic::catch_unwind(std::panic::AssertUnwindSafe(|| c.apply(a)));
                            let mut hist: Vec<u16> = h.to_vec();
                            hist.push(a);
                            match r {
                                Ok(Ok(())) => {}
                                Ok(Err(v)) => {
                                    l.violations.push((hist, v));
                                    continue;
                                }
                                Err(_) => {
                                    let m = crate::take_last_panic().unwrap_or_default();
                                    l.violations
                                        .push((hist, Violation::new("panic", format!("uncaught panic: {m}"))));
                                    continue;
                                }
                            }
                            let d = c.digest();
                            if seen_ref.contains(&d) {
                                continue;
                            }
                            feats.clear();
                            c.features(&mut feats);
                            l.features.extend(feats.iter().copied());
                            if cfg.run_suffix {
                                let r = std::panic::catch_unwind(std::panic::AssertUnwindSafe(|| c.finish()));
                                l.executions += 1;
                                match r {
                                    Ok((o, None)) => {
                                        l.outcomes.insert(o);
                                    }
                                    Ok((o, Some(v))) => {
                                        l.outcomes.insert(o);
                                        l.violations.push((hist, v));
                                        continue;
                                    }
                                    Err(_) => {
                                        let m = crate::take_last_panic().unwrap_or_default();
                                        l.violations.push((
                                            hist,
                                            Violation::new("panic", format!("uncaught panic in suffix: {m}")),
                                        ));
                                        continue;
                                    }
                                }
                            }
                            l.new.push((d, hist.into_boxed_slice()));
                        }
                        done_states.fetch_add(1, Ordering::Relaxed);
                    }
                    locals.lock().unwrap().push(l);
                });
            }
        });
        let stopped_now = stop.load(Ordering::Relaxed);
        let mut new: Vec<(u128, Box<[u16]>)> = vec![];
        for l in locals.into_inner().unwrap() {
            new.extend(l.new);
            transitions += l.transitions;
            executions += l.executions;
            outcomes.extend(l.outcomes);
            violations.extend(l.violations);
            features.extend(l.features);
        }
        // keep the shortest few histories per signature: a listed finding that fires on
        // hundreds of branches must not use up the violation budget (its branches are cut
        // anyway), while every distinct signature stays reported
        {
            violations.sort_by(|a, b| (a.0.len(), &a.0).cmp(&(b.0.len(), &b.0)));
            let mut per: std::collections::HashMap<String, usize> = std::collections::HashMap::new();
            violations.retain(|(_, v)| {
                let k = per.entry(v.sig.clone()).or_insert(0);
                *k += 1;
                if *k > 3 {
                    dropped_violations += 1;
                }
                *k <= 3
            });
        }
        if stopped_now {
            caps.push(format!(
                "wall cap {}s hit while expanding depth {} ({} of {} states of that level expanded); depths < {} fully expanded",
                cfg.wall.as_secs(),
                depth,
                done_states.load(Ordering::Relaxed),
                frontier.len(),
                depth
            ));
            stopped = true;
            break;
        }
        new.sort();
        new.dedup_by(|b, a| a.0 == b.0);
        depth += 1;
        for (d, _) in &new {
            seen.insert(*d);
        }
        if samples.len() < 3 {
            if let Some((_, h)) = new.last() {
                samples.push(h.to_vec());
            }
        }
        frontier = new.into_iter().map(|(_, h)| h).collect();
        if violations.len() >= cfg.max_violations {
            caps.push(format!("violation cap {} reached at depth {}", cfg.max_violations, depth));
            stopped = true;
            break;
        }
        if seen.len() > cfg.max_states {
            caps.push(format!(
                "state cap {} reached after completing depth {}; all states at depth <= {} expanded",
                cfg.max_states,
                depth,
                depth - 1
            ));
            stopped = true;
            break;
        }
    }
    if !closed && !stopped && frontier.is_empty() {
        closed = true;
    }

    // sort violations: shortest history first, then lexicographic
    violations.sort_by(|a, b| (a.0.len(), &a.0).cmp(&(b.0.len(), &b.0)));
    let mut out_v = vec![];
    let mut checked: HashSet<String> = HashSet::new();
    for (h, mut v) in violations {
        if checked.insert(v.sig.clone()) && checked.len() <= 8 {
            // reproduce twice
            let (mut identical, mut differing, mut last) = (0, 0, String::new());
            for _ in 0..2 {
                match run_history::<S>(scfg, &h) {
                    Some(w) if w.clause == v.clause && w.detail == v.detail => identical += 1,
                    Some(w) => {
                        differing += 1;
                        last = format!("{}: {}", w.clause, w.detail);
                    }
                    None => last = "no violation".into(),
                }
            }
            if identical + differing == 0 {
                crate::machinery_error(&format!(
                    "{}: violation {} does not reproduce on re-execution (got {:?})",
                    cfg.name, v.sig, last
                ));
            }
            if identical < 2 {
                v.detail.push_str(&format!(
                    " [re-executing the same history violated the property again but not identically ({} of 2 identical; e.g. {}): the code under test is not deterministic under a fixed history]",
                    identical, last
                ));
            }
            v.actions = describe_history::<S>(scfg, &h);
        }
        v.choices = h.iter().map(|&a| a as u32).collect();
        if v.scenario.is_empty() {
            v.scenario = cfg.scenario.clone();
        }
        out_v.push(v);
    }

    let mut feats: Vec<String> = features.iter().map(|s| s.to_string()).collect();
    feats.sort();
    let mut part = Part {
        name: cfg.name.clone(),
        states: seen.len() as u64,
        transitions,
        executions,
        distinct_outcomes: outcomes.len() as u64,
        max_depth: depth as u64,
        exhaustive: !stopped,
        caps_hit: caps,
        bounds: format!(
            "{}; explicit-state BFS, depth bound {}{}",
            cfg.bounds,
            cfg.max_depth,
            if closed { ", state space closed (frontier empty)" } else { "" }
        ),
        extra: Default::default(),
    };
    part.extra.insert("closed".into(), serde_json::json!(closed));
    part.extra.insert("violating_executions_beyond_three_per_signature".into(), serde_json::json!(dropped_violations));
    part.extra.insert("level_sizes".into(), serde_json::json!(level_sizes));
    part.extra.insert("features".into(), serde_json::json!(feats));
    let samples = samples.iter().map(|h| describe_history::<S>(scfg, h)).collect();
    BfsStats { part, violations: out_v, features: feats, samples, closed }
}
