//! The choice oracle handed to every scenario.

#[derive(Clone, Debug)]
pub struct Point {
    pub site: &'static str,
    pub n: u32,
    pub chosen: u32,
    /// a non-zero answer at a `dev` site costs one deviation
    pub dev: bool,
}

/// Panic payload used when a replayed prefix meets a different choice point than the
/// one recorded: the harness does not own some nondeterminism. Machinery error.
#[derive(Debug)]
pub struct ReplayDivergence(pub String);

pub struct Chooser {
    prefix: Vec<Point>,
    pub points: Vec<Point>,
    /// free-form log lines a scenario may add (only kept when `verbose`)
    pub log: Vec<String>,
    pub verbose: bool,
}

impl Chooser {
    pub fn new(prefix: Vec<Point>) -> Self {
        Chooser { prefix, points: Vec::new(), log: Vec::new(), verbose: false }
    }
    /// Replay from bare choice numbers (replay files): sites are not validated.
    pub fn from_choices(choices: &[u32]) -> Self {
        let prefix = choices
            .iter()
            .map(|&c| Point { site: "", n: u32::MAX, chosen: c, dev: false })
            .collect();
        Chooser { prefix, points: Vec::new(), log: Vec::new(), verbose: true }
    }

    fn pick(&mut self, site: &'static str, n: usize, dev: bool) -> usize {
        assert!(n > 0, "choose() with an empty menu at {site}");
        if n == 1 {
            return 0;
        }
        let i = self.points.len();
        let chosen = if i < self.prefix.len() {
            let p = &self.prefix[i];
            if p.n != u32::MAX && (p.site != site || p.n != n as u32) {
                std::panic::panic_any(ReplayDivergence(format!(
                    "choice point {i}: recorded {}/{} but replay met {}/{}",
                    p.site, p.n, site, n
                )));
            }
            if p.chosen as usize >= n {
                std::panic::panic_any(ReplayDivergence(format!(
                    "choice point {i} ({site}): recorded answer {} out of range {n}",
                    p.chosen
                )));
            }
            p.chosen
        } else {
            0
        };
        self.points.push(Point { site, n: n as u32, chosen, dev });
        chosen as usize
    }

    /// A choice that is part of the normal alphabet (no deviation cost).
    pub fn choose(&mut self, site: &'static str, n: usize) -> usize {
        self.pick(site, n, false)
    }
    /// A choice whose non-zero answers are departures from the default environment
    /// answer; each costs one unit of the deviation bound.
    pub fn deviate(&mut self, site: &'static str, n: usize) -> usize {
        self.pick(site, n, true)
    }
    pub fn flag(&mut self, site: &'static str) -> bool {
        self.pick(site, 2, false) == 1
    }
    pub fn dev_flag(&mut self, site: &'static str) -> bool {
        self.pick(site, 2, true) == 1
    }
    /// choose one element of a slice
    pub fn of<'a, T>(&mut self, site: &'static str, xs: &'a [T]) -> &'a T {
        &xs[self.pick(site, xs.len(), false)]
    }
    pub fn note(&mut self, f: impl FnOnce() -> String) {
        if self.verbose {
            let s = f();
            self.log.push(s);
        }
    }
    pub fn deviations(&self) -> u32 {
        self.points.iter().filter(|p| p.dev && p.chosen != 0).count() as u32
    }
    pub fn choices(&self) -> Vec<u32> {
        self.points.iter().map(|p| p.chosen).collect()
    }
    pub fn describe(&self) -> Vec<String> {
        self.points
            .iter()
            .map(|p| format!("{}={}/{}{}", p.site, p.chosen, p.n, if p.dev && p.chosen != 0 { "*" } else { "" }))
            .collect()
    }
}
