//! A minimal single-threaded executor: a task is polled only when its waker fired.
//!
//! A missing wake-up in the code under test therefore shows up as a task that is never
//! polled again (a hang the bounded-liveness oracles report), instead of being hidden
//! by a harness that polls eagerly.

use std::future::Future;
use std::pin::Pin;
use std::sync::atomic::{AtomicBool, AtomicU32, Ordering};
use std::sync::Arc;
use std::task::{Context, Poll, Wake, Waker};

struct Flag {
    woken: AtomicBool,
    wakes: AtomicU32,
}

impl Wake for Flag {
    fn wake(self: Arc<Self>) {
        self.woken.store(true, Ordering::SeqCst);
        self.wakes.fetch_add(1, Ordering::SeqCst);
    }
    fn wake_by_ref(self: &Arc<Self>) {
        self.woken.store(true, Ordering::SeqCst);
        self.wakes.fetch_add(1, Ordering::SeqCst);
    }
}

pub struct Task {
    fut: Option<Pin<Box<dyn Future<Output = ()>>>>,
    flag: Arc<Flag>,
    waker: Waker,
    pub tag: u32,
    pub polls: u32,
}

#[derive(Default)]
pub struct Executor {
    pub tasks: Vec<Task>,
}

impl Executor {
    pub fn new() -> Self {
        Executor { tasks: vec![] }
    }
    /// Spawn a task; it starts runnable. `tag` is passed to the `before` callback of
    /// the run functions (e.g. to select the current host).
    pub fn spawn(&mut self, tag: u32, fut: impl Future<Output = ()> + 'static) -> usize {
        let flag = Arc::new(Flag { woken: AtomicBool::new(true), wakes: AtomicU32::new(0) });
        let waker = Waker::from(flag.clone());
        self.tasks.push(Task { fut: Some(Box::pin(fut)), flag, waker, tag, polls: 0 });
        self.tasks.len() - 1
    }
    pub fn is_done(&self, id: usize) -> bool {
        self.tasks[id].fut.is_none()
    }
    pub fn is_runnable(&self, id: usize) -> bool {
        self.tasks[id].fut.is_some() && self.tasks[id].flag.woken.load(Ordering::SeqCst)
    }
    pub fn runnable(&self) -> Vec<usize> {
        (0..self.tasks.len()).filter(|&i| self.is_runnable(i)).collect()
    }
    pub fn all_done(&self) -> bool {
        self.tasks.iter().all(|t| t.fut.is_none())
    }
    /// Drop the task's future (cancellation).
    pub fn cancel(&mut self, id: usize) {
        self.tasks[id].fut = None;
    }
    /// Poll one task once. Returns true if it completed.
    pub fn poll(&mut self, id: usize) -> bool {
        let t = &mut self.tasks[id];
        let Some(fut) = t.fut.as_mut() else { return true };
        t.flag.woken.store(false, Ordering::SeqCst);
        t.polls += 1;
        let mut cx = Context::from_waker(&t.waker);
        match fut.as_mut().poll(&mut cx) {
            Poll::Ready(()) => {
                t.fut = None;
                true
            }
            Poll::Pending => false,
        }
    }
    /// Poll runnable tasks in index order until none is runnable (or `limit` polls).
    /// `before(tag)` is called before each poll. Returns number of polls; `limit`
    /// reached means a task keeps waking itself (livelock).
    pub fn run_until_stalled(&mut self, limit: usize, mut before: impl FnMut(u32)) -> usize {
        let mut polls = 0;
        loop {
            let mut any = false;
            for i in 0..self.tasks.len() {
                if self.is_runnable(i) {
                    before(self.tasks[i].tag);
                    self.poll(i);
                    polls += 1;
                    any = true;
                    if polls >= limit {
                        return polls;
                    }
                }
            }
            if !any {
                return polls;
            }
        }
    }
    /// A coarse description of task states for digests: (done, woken) per task.
    pub fn shape(&self) -> Vec<(bool, bool)> {
        self.tasks
            .iter()
            .map(|t| (t.fut.is_none(), t.flag.woken.load(Ordering::SeqCst)))
            .collect()
    }
}

/// A future that yields once (returns Pending after waking itself).
pub struct YieldNow(pub bool);
impl Future for YieldNow {
    type Output = ();
    fn poll(mut self: Pin<&mut Self>, cx: &mut Context<'_>) -> Poll<()> {
        if self.0 {
            Poll::Ready(())
        } else {
            self.0 = true;
            cx.waker().wake_by_ref();
            Poll::Pending
        }
    }
}
pub fn yield_now() -> YieldNow {
    YieldNow(false)
}
