//! Engine D, io_uring (C18): histories of push / submit / advance / drain / cancel /
//! close / crash over one or two rings and one file, against an order-agnostic
//! reference: every CQE must belong to an operation that is eligible *now*, carry the
//! result the same operation has on the reference file at that moment, and every
//! submission must end up with exactly one CQE (none after a crash).

use std::collections::VecDeque;
use std::os::fd::AsRawFd;
use std::sync::{Arc, Mutex};
use std::time::Duration;

use turmoil_fs::shim::std::fs as sfs;
use turmoil_fs::{EnterCtx, Fs, FsConfig};
use turmoil_io_uring::host::{self, IoUringHostState};
use turmoil_io_uring::{opcode, squeue, types, IoUring};
use vx_core::{Digest, System, Violation};

use crate::fsys::ScriptRng;

#[derive(Clone, Debug)]
pub struct UCfg {
    pub name: String,
    pub rings: usize,
    pub depth_ring: u32,
    pub latency_us: u64,
    pub depth: usize,
    pub page_cache: bool,
    /// disk capacity in bytes (None = unlimited)
    pub capacity: Option<u64>,
    /// the file is opened with O_DIRECT (alignment 1): the page cache must be bypassed
    pub odirect: bool,
    pub letters: Vec<u16>,
}

impl UCfg {
    pub fn describe(&self) -> String {
        format!(
            "{} rings={} sq_depth={} latency={}us history_depth={} page_cache={} capacity={:?} odirect={} letters={}",
            self.name,
            self.rings,
            self.depth_ring,
            self.latency_us,
            self.depth,
            self.page_cache,
            self.capacity,
            self.odirect,
            self.letters.len()
        )
    }
}

pub const A_SUBMIT0: u16 = 0;
pub const A_SUBMIT1: u16 = 1;
pub const A_ADV_HALF: u16 = 2;
pub const A_ADV_FULL: u16 = 3;
pub const A_DRAIN0: u16 = 4;
pub const A_DRAIN1: u16 = 5;
pub const A_DRAIN_ONE0: u16 = 6;
pub const A_CLOSE: u16 = 7;
pub const A_CRASH: u16 = 8;
pub const A_READ0: u16 = 10;
pub const A_READ2: u16 = 11;
pub const A_WRITE0: u16 = 12;
pub const A_WRITE3: u16 = 13;
pub const A_FSYNC: u16 = 14;
pub const A_CANCEL_LAST: u16 = 15;
pub const A_CANCEL_UNKNOWN: u16 = 16;
pub const A_CANCEL_DONE: u16 = 17;
pub const A_BADFLAG: u16 = 18;
pub const A_READ_DUP: u16 = 19;
/// write two bytes at offset 7: past end-of-file, leaving a hole
pub const A_WRITE_HOLE: u16 = 20;
/// read with ASYNC | IO_LINK: the unsupported flag must still be rejected
pub const A_BADFLAG_ASYNC: u16 = 21;
pub const A_R1_WRITE1: u16 = 30;
pub const A_R1_READ0: u16 = 31;
/// drop ring 0 (everything on it has been drained) while ring 1 stays in use, then open
/// two rings: the new ring 0 and a spare one that is kept alive and never used
pub const A_CHURN0: u16 = 50;
/// drain ring 0 with the k-th scripted shuffle value
pub const A_DRAIN0_PERM: u16 = 40;

#[derive(Clone, Debug, Hash, PartialEq, Eq)]
enum K {
    Read { off: u64, len: usize },
    Write { off: u64, data: Vec<u8> },
    Fsync,
    Cancel { target: u64 },
    BadFlag,
    /// ASYNC (accepted on its own) combined with an unsupported flag
    BadFlagAsync,
}

/// expectation "any negative result"
const ANY_ERROR: i32 = i32::MIN;

fn handle_mode_of(name: &str) -> u8 {
    if name.contains("read-only-handle") {
        1
    } else if name.contains("write-only-handle") {
        2
    } else {
        0
    }
}

#[derive(Clone, Copy, Debug, Hash, PartialEq, Eq)]
enum St {
    Pushed,
    InFlight,
    Cancelled, // replaced by an immediate -ECANCELED completion
    Immediate(i32),
    Done,
    Lost, // crashed away: must never complete
}

#[derive(Clone, Debug, Hash)]
struct Sub {
    ud: u64,
    ring: usize,
    k: K,
    st: St,
    ready_at_us: u64,
    buf: usize,
    cqes: u32,
}

pub struct USys {
    fs: Arc<Mutex<Fs>>,
    /// twin filesystem that receives the same operations through the synchronous Fs API at
    /// completion time: the source of the expected result under a capacity limit
    shadow: Arc<Mutex<Fs>>,
    iou: Arc<Mutex<IoUringHostState>>,
    rings: Vec<Option<IoUring>>,
    dead_rings: Vec<IoUring>,
    spare_rings: Vec<IoUring>,
    churns: u32,
    file: Option<sfs::File>,
    file_fd: i32,
    bufs: Vec<Box<[u8; 8]>>,
    cfg: UCfg,
    now_us: u64,
    // reference
    subs: Vec<Sub>,
    content: Vec<u8>,
    durable: Vec<u8>,
    file_open: bool,
    next_ud: u64,
    steps: usize,
    crashes: u32,
    rngq: Arc<Mutex<VecDeque<u64>>>,
    log: Vec<String>,
    feats: Vec<&'static str>,
    /// cancellations that hit a user_data shared by several outstanding operations: which
    /// instance was cancelled is implementation-defined, so the choice floats until the
    /// -ECANCELED completion is seen
    floating: Vec<(usize, u64)>,
    /// -ECANCELED completions already delivered for a user_data that several outstanding
    /// operations share, not yet attributed to one of them: the instances that complete
    /// normally later identify themselves by their results, what remains was the cancelled one
    cancel_seen: Vec<(usize, u64)>,
}

const SENTINEL: u8 = 0xEE;
const EBADF: i32 = -9;
const ECANCELED: i32 = -125;
const ENOENT: i32 = -2;
const ENOSPC: i32 = -28;
const EINVAL: i32 = -22;

fn dur(us: u64) -> Duration {
    Duration::from_micros(us)
}

struct Guards<'a> {
    _f: turmoil_fs::FsEnterGuard<'a>,
    _i: host::IoUringEnterGuard<'a>,
}

impl USys {
    fn enter(&self) -> Guards<'_> {
        let now = dur(1_000_000 + self.now_us);
        Guards {
            _f: turmoil_fs::enter(&self.fs, EnterCtx { now, on_corruption: None }),
            _i: host::enter(&self.iou, host::EnterCtx { now }),
        }
    }

    fn outstanding(&self) -> Vec<usize> {
        (0..self.subs.len())
            .filter(|&i| matches!(self.subs[i].st, St::InFlight | St::Cancelled | St::Immediate(_)))
            .collect()
    }

    fn eligible(&self, ring: usize) -> Vec<usize> {
        self.outstanding()
            .into_iter()
            .filter(|&i| {
                let s = &self.subs[i];
                s.ring == ring
                    && match s.st {
                        St::InFlight => s.ready_at_us <= self.now_us,
                        St::Cancelled | St::Immediate(_) => true,
                        _ => false,
                    }
            })
            .collect()
    }

    fn push(&mut self, ring: usize, k: K, ud: Option<u64>, bad: bool) -> Result<(), Violation> {
        let ud = ud.unwrap_or_else(|| {
            self.next_ud += 1;
            self.next_ud
        });
        self.bufs.push(Box::new([SENTINEL; 8]));
        let bi = self.bufs.len() - 1;
        let fd = types::Fd(self.file_fd);
        let entry = match &k {
            K::Read { off, len } => opcode::Read::new(fd, self.bufs[bi].as_mut_ptr(), *len as u32).offset(*off).build(),
            K::Write { off, data } => {
                self.bufs[bi][..data.len()].copy_from_slice(data);
                opcode::Write::new(fd, self.bufs[bi].as_ptr(), data.len() as u32).offset(*off).build()
            }
            K::Fsync => opcode::Fsync::new(fd).build(),
            K::Cancel { target } => opcode::AsyncCancel::new(*target).build(),
            K::BadFlag | K::BadFlagAsync => opcode::Read::new(fd, self.bufs[bi].as_mut_ptr(), 2).build(),
        };
        let entry = entry.user_data(ud);
        let entry = if bad {
            entry.flags(if k == K::BadFlagAsync { squeue::Flags::ASYNC | squeue::Flags::IO_LINK } else { squeue::Flags::IO_LINK })
        } else {
            entry
        };
        let pushed_now = self.subs.iter().filter(|s| s.ring == ring && s.st == St::Pushed).count();
        let ring_alive = self.rings[ring].is_some();
        let want_ok = ring_alive && pushed_now < self.cfg.depth_ring as usize;
        let got_ok = match self.rings[ring].as_mut() {
            Some(r) => unsafe { r.submission().push(&entry).is_ok() },
            None => false,
        };
        if got_ok != want_ok {
            return Err(Violation::new(
                "push",
                format!("push on ring {ring} with {pushed_now} queued entries (depth {}) returned ok={got_ok}, expected ok={want_ok}", self.cfg.depth_ring),
            ));
        }
        if got_ok {
            self.subs.push(Sub { ud, ring, k, st: St::Pushed, ready_at_us: 0, buf: bi, cqes: 0 });
        } else {
            self.feats.push("sq-full");
        }
        Ok(())
    }

    fn submit(&mut self, ring: usize) -> Result<(), Violation> {
        let Some(r) = self.rings[ring].as_ref() else { return Ok(()) };
        let got = r.submit();
        let queued: Vec<usize> = (0..self.subs.len()).filter(|&i| self.subs[i].ring == ring && self.subs[i].st == St::Pushed).collect();
        match got {
            Ok(n) if n == queued.len() => {}
            other => {
                return Err(Violation::new("submit", format!("submit returned {other:?}, {} entries were queued", queued.len())));
            }
        }
        for i in queued {
            let k = self.subs[i].k.clone();
            match k {
                K::BadFlag | K::BadFlagAsync => {
                    self.subs[i].st = St::Immediate(EINVAL);
                    self.feats.push("unsupported-flag");
                }
                K::Cancel { target } => {
                    // first outstanding match on this ring (not yet drained)
                    let hit = (0..self.subs.len()).find(|&j| {
                        j != i && self.subs[j].ring == ring && self.subs[j].ud == target && matches!(self.subs[j].st, St::InFlight | St::Cancelled | St::Immediate(_))
                    });
                    let n_match = (0..self.subs.len())
                        .filter(|&j| {
                            j != i && self.subs[j].ring == ring && self.subs[j].ud == target && matches!(self.subs[j].st, St::InFlight | St::Cancelled | St::Immediate(_))
                        })
                        .count();
                    match hit {
                        Some(_) if n_match >= 2 => {
                            self.floating.push((ring, target));
                            self.subs[i].st = St::Immediate(0);
                            self.feats.push("cancel-hit-duplicate-user-data");
                        }
                        Some(j) => {
                            self.subs[j].st = St::Cancelled;
                            self.subs[i].st = St::Immediate(0);
                            self.feats.push("cancel-hit");
                        }
                        None => {
                            self.subs[i].st = St::Immediate(ENOENT);
                            self.feats.push("cancel-miss");
                        }
                    }
                }
                K::Read { .. } if self.cfg.page_cache && !self.cfg.odirect => {
                    // a page-cache hit completes after ~100ns instead of the configured
                    // latency; the cache is not modelled, so a read is only required
                    // not to complete before it was submitted
                    self.subs[i].st = St::InFlight;
                    self.subs[i].ready_at_us = self.now_us;
                }
                _ => {
                    self.subs[i].st = St::InFlight;
                    self.subs[i].ready_at_us = self.now_us + self.cfg.latency_us;
                }
            }
        }
        Ok(())
    }

    /// drain up to `limit` completions of `ring`, checking each against the reference
    fn drain(&mut self, ring: usize, limit: usize, script: Option<u64>) -> Result<(), Violation> {
        let elig = self.eligible(ring);
        let Some(r) = self.rings[ring].as_mut() else { return Ok(()) };
        let mut got: Vec<(u64, i32)> = vec![];
        {
            let mut cq = r.completion();
            cq.sync();
            let visible = cq.len();
            if visible != elig.len() && !(self.cfg.page_cache && !self.cfg.odirect) && self.floating.is_empty() && self.cancel_seen.is_empty() {
                return Err(Violation::new(
                    "visible-count",
                    format!(
                        "ring {ring}: completion queue shows {visible} entries after sync, but {} submitted operations have reached their completion time (latency {}us)",
                        elig.len(),
                        self.cfg.latency_us
                    ),
                ));
            }
            if let Some(v) = script {
                let mut q = self.rngq.lock().unwrap();
                q.clear();
                q.push_back(v);
            }
            for _ in 0..limit {
                match cq.next() {
                    Some(e) => got.push((e.user_data(), e.result())),
                    None => break,
                }
            }
            self.rngq.lock().unwrap().clear();
        }
        if elig.len() >= 2 {
            self.feats.push("simultaneous-completions");
        }
        for (ud, res) in got {
            // candidates: eligible instances with this user_data, plus — for a floating
            // cancellation — any outstanding instance with it
            let mut cands: Vec<usize> = self.eligible(ring).into_iter().filter(|&i| self.subs[i].ud == ud).collect();
            let fl = self.floating.iter().position(|f| *f == (ring, ud));
            if res == ECANCELED && fl.is_some() {
                cands = self.outstanding().into_iter().filter(|&i| self.subs[i].ring == ring && self.subs[i].ud == ud).collect();
            }
            if cands.is_empty() {
                let known = self.subs.iter().any(|s| s.ud == ud);
                return Err(Violation::new(
                    if known { "unexpected-cqe" } else { "unknown-cqe" },
                    format!(
                        "ring {ring}: CQE user_data={ud} result={res} but no submitted operation with that user_data is due (a second completion, a completion before its latency elapsed, or one that should have been cancelled/lost)"
                    ),
                ));
            }
            let sentinel_only = |s: &USys, i: usize| s.bufs[s.subs[i].buf].iter().all(|b| *b == SENTINEL);
            let mut matched = None;
            let mut wants = vec![];
            if res == ECANCELED && fl.is_some() && cands.len() >= 2 {
                // which of the instances was cancelled shows later: the others complete
                // with their own results
                self.floating.remove(fl.unwrap());
                self.cancel_seen.push((ring, ud));
                self.log.push(format!("cqe {ud}={res}"));
                continue;
            }
            if res == ECANCELED && fl.is_some() {
                // prefer an instance whose buffer is untouched
                matched = cands.iter().copied().find(|&i| sentinel_only(self, i) || !matches!(self.subs[i].k, K::Read { .. }));
                if matched.is_none() {
                    return Err(Violation::new(
                        "buffer-touched",
                        format!("user_data={ud} completed with -ECANCELED but every read buffer submitted under it was modified"),
                    ));
                }
                let i = matched.unwrap();
                self.subs[i].st = St::Cancelled;
                self.floating.remove(fl.unwrap());
            } else {
                // among equal expectations prefer a read whose buffer has been filled
                let mut order = cands.clone();
                order.sort_by_key(|&i| sentinel_only(self, i) as u8);
                for &i in &order {
                    let want = self.expected_result(i);
                    wants.push(want);
                    if (want == res || (want == ANY_ERROR && res < 0)) && matched.is_none() {
                        matched = Some(i);
                    }
                }
            }
            let Some(i) = matched else {
                return Err(Violation::new(
                    "result",
                    format!("ring {ring}: CQE user_data={ud} result={res}; the same operation through the synchronous file API gives {wants:?} ({:?})", self.subs[cands[0]].k),
                ));
            };
            // apply effect and check buffers
            self.apply_effect(i)?;
            self.subs[i].st = St::Done;
            self.subs[i].cqes += 1;
            self.log.push(format!("cqe {ud}={res}"));
        }
        Ok(())
    }

    /// 0 = the ring works on a read-write handle, 1 = on a read-only one, 2 = on a write-only one
    fn handle_mode(&self) -> u8 {
        handle_mode_of(&self.cfg.name)
    }

    fn expected_result(&self, i: usize) -> i32 {
        let s = &self.subs[i];
        match s.st {
            St::Cancelled => ECANCELED,
            St::Immediate(e) => e,
            _ => {
                if !self.file_open {
                    return EBADF;
                }
                match &s.k {
                    // the synchronous API refuses a read through a handle opened without read
                    // access, and a write through one opened without write access: so must the
                    // ring (with whatever error), without touching buffer or file
                    K::Read { .. } if self.handle_mode() == 2 => ANY_ERROR,
                    K::Write { .. } if self.handle_mode() == 1 => ANY_ERROR,
                    K::Read { off, len } => {
                        let st = (*off as usize).min(self.content.len());
                        let en = (st + len).min(self.content.len());
                        (en - st) as i32
                    }
                    K::Write { off, data } => {
                        if self.cfg.capacity.is_some() {
                            // what the synchronous write_at does: charge the growth of the file
                            let sh = self.shadow.lock().unwrap();
                            let cur = sh.file_len(std::path::Path::new("/f"));
                            let additional = (*off + data.len() as u64).saturating_sub(cur);
                            if additional > 0 && sh.check_space(additional).is_err() {
                                return ENOSPC;
                            }
                        }
                        data.len() as i32
                    }
                    K::Fsync => 0,
                    K::Cancel { .. } | K::BadFlag | K::BadFlagAsync => 0,
                }
            }
        }
    }

    fn apply_effect(&mut self, i: usize) -> Result<(), Violation> {
        let s = self.subs[i].clone();
        let buf = *self.bufs[s.buf];
        match (&s.st, &s.k) {
            (St::Cancelled, K::Read { .. }) | (St::Immediate(_), K::BadFlag) | (St::Immediate(_), K::BadFlagAsync) => {
                if buf.iter().any(|b| *b != SENTINEL) {
                    return Err(Violation::new(
                        "buffer-touched",
                        format!("operation user_data={} completed with an error but its buffer was modified: {:?}", s.ud, buf),
                    ));
                }
            }
            (St::InFlight, K::Read { .. }) if self.file_open && self.expected_result(i) == ANY_ERROR => {
                if buf.iter().any(|b| *b != SENTINEL) {
                    return Err(Violation::new(
                        "buffer-touched",
                        format!("read user_data={} through a handle opened without read access completed with an error but its buffer was modified: {:?}", s.ud, buf),
                    ));
                }
            }
            (St::InFlight, K::Read { off, len }) if self.file_open => {
                let st = (*off as usize).min(self.content.len());
                let en = (st + len).min(self.content.len());
                let want = &self.content[st..en];
                if &buf[..en - st] != want || buf[en - st..].iter().any(|b| *b != SENTINEL) {
                    return Err(Violation::new(
                        "read-data",
                        format!("read user_data={} off={} len={}: buffer {:?}, file holds {:?} there", s.ud, off, len, buf, want),
                    ));
                }
            }
            (St::InFlight, K::Write { off, data }) if self.file_open && self.expected_result(i) >= 0 => {
                self.shadow.lock().unwrap().write_file(std::path::Path::new("/f"), *off, data, std::time::Duration::ZERO);
                let end = *off as usize + data.len();
                if self.content.len() < end {
                    self.content.resize(end, 0);
                }
                self.content[*off as usize..end].copy_from_slice(data);
            }
            (St::InFlight, K::Fsync) if self.file_open => {
                let _ = self.shadow.lock().unwrap().sync_file(std::path::Path::new("/f"));
                self.durable = self.content.clone();
            }
            _ => {}
        }
        Ok(())
    }

    fn check_file(&self, when: &str) -> Result<(), Violation> {
        let got = sfs::read("/f").map_err(|e| Violation::new("file", format!("{when}: reading /f failed: {e}")))?;
        if got != self.content {
            return Err(Violation::new(
                "file-effect",
                format!("{when}: /f holds {:?} through the synchronous API, the reference (same operations applied at completion time) holds {:?}", got, self.content),
            ));
        }
        Ok(())
    }

    fn crash(&mut self) -> Result<(), Violation> {
        self.fs.lock().unwrap().crash();
        self.shadow.lock().unwrap().crash();
        self.iou.lock().unwrap().crash();
        self.crashes += 1;
        for s in &mut self.subs {
            if !matches!(s.st, St::Done) {
                s.st = St::Lost;
            }
        }
        self.floating.clear();
        self.cancel_seen.clear();
        self.content = self.durable.clone();
        // the application restarts: old handles are kept aside (they must stay dead), new ones are made
        let old_file = self.file.take();
        drop(old_file);
        for r in self.rings.iter_mut() {
            if let Some(x) = r.take() {
                self.dead_rings.push(x);
            }
        }
        self.dead_rings.append(&mut self.spare_rings);
        for i in 0..self.cfg.rings {
            self.rings[i] = Some(IoUring::new(self.cfg.depth_ring).map_err(|e| Violation::new("new-ring", format!("IoUring::new after crash failed: {e}")))?);
        }
        let mode = self.handle_mode();
        let f = sfs::OpenOptions::new().read(mode != 2).write(mode != 1).open("/f").map_err(|e| Violation::new("reopen", format!("reopening /f after crash failed: {e}")))?;
        self.file_fd = f.as_raw_fd();
        self.file = Some(f);
        self.file_open = true;
        Ok(())
    }

    fn step(&mut self, a: u16) -> Result<(), Violation> {
        let _g = self.enter();
        // SAFETY of the guard borrow: the guards only install thread-locals
        let _g: Guards<'static> = unsafe { std::mem::transmute(_g) };
        let r = self.step_inner(a);
        drop(_g);
        r
    }

    fn step_inner(&mut self, a: u16) -> Result<(), Violation> {
        match a {
            A_SUBMIT0 => self.submit(0)?,
            A_SUBMIT1 => self.submit(1)?,
            A_ADV_HALF => {
                self.now_us += self.cfg.latency_us / 2;
                return Ok(());
            }
            A_ADV_FULL => {
                self.now_us += self.cfg.latency_us;
                return Ok(());
            }
            A_CHURN0 => {
                self.churns += 1;
                let old = self.rings[0].take();
                drop(old);
                self.rings[0] = Some(IoUring::new(self.cfg.depth_ring).map_err(|e| Violation::new("new-ring", format!("IoUring::new failed: {e}")))?);
                self.spare_rings.push(IoUring::new(self.cfg.depth_ring).map_err(|e| Violation::new("new-ring", format!("IoUring::new failed: {e}")))?);
                self.log.push("ring 0 dropped; new ring 0 and a spare ring opened".into());
                return Ok(());
            }
            A_DRAIN0 => self.drain(0, usize::MAX, None)?,
            A_DRAIN1 => self.drain(1, usize::MAX, None)?,
            A_DRAIN_ONE0 => self.drain(0, 1, None)?,
            a if (A_DRAIN0_PERM..A_DRAIN0_PERM + 6).contains(&a) => {
                let k = (a - A_DRAIN0_PERM) as u64;
                // spread the scripted 32-bit value over the range the shuffle samples from
                let v = ((k * 715_827_883 + 1) << 32) | 1;
                self.drain(0, usize::MAX, Some(v))?
            }
            A_CLOSE => {
                let f = self.file.take();
                drop(f);
                self.file_open = false;
                self.feats.push("closed-file");
            }
            A_CRASH => self.crash()?,
            A_READ0 => self.push(0, K::Read { off: 0, len: 2 }, None, false)?,
            A_READ2 => self.push(0, K::Read { off: 2, len: 4 }, None, false)?,
            A_WRITE0 => self.push(0, K::Write { off: 0, data: b"XY".to_vec() }, None, false)?,
            A_WRITE3 => self.push(0, K::Write { off: 3, data: b"PQ".to_vec() }, None, false)?,
            A_WRITE_HOLE => self.push(0, K::Write { off: 7, data: b"HJ".to_vec() }, None, false)?,
            A_FSYNC => self.push(0, K::Fsync, None, false)?,
            A_CANCEL_LAST => {
                let t = self.subs.iter().rev().find(|s| s.ring == 0 && !matches!(s.k, K::Cancel { .. })).map(|s| s.ud).unwrap_or(77);
                let dup = self.subs.iter().filter(|s| s.ud == t).count() >= 2;
                let already = self.subs.iter().any(|s| matches!(&s.k, K::Cancel { target } if *target == t));
                if dup && already {
                    // a second cancel of a duplicated user_data may hit the pending
                    // -ECANCELED entry or the other operation: outcome not defined
                    return Ok(());
                }
                self.push(0, K::Cancel { target: t }, None, false)?
            }
            A_CANCEL_UNKNOWN => self.push(0, K::Cancel { target: 9999 }, None, false)?,
            A_CANCEL_DONE => {
                let t = self.subs.iter().find(|s| s.st == St::Done).map(|s| s.ud).unwrap_or(9998);
                self.push(0, K::Cancel { target: t }, None, false)?
            }
            A_BADFLAG => self.push(0, K::BadFlag, None, true)?,
            A_BADFLAG_ASYNC => self.push(0, K::BadFlagAsync, None, true)?,
            A_READ_DUP => {
                let t = self.subs.iter().rev().find(|s| s.ring == 0 && matches!(s.st, St::Pushed | St::InFlight) && !matches!(s.k, K::Cancel { .. })).map(|s| s.ud);
                let already = self.feats.contains(&"duplicate-user-data");
                if t.is_none() || already {
                    // at most one duplicated user_data per history keeps CQE attribution decidable
                    return Ok(());
                }
                self.feats.push("duplicate-user-data");
                self.push(0, K::Read { off: 1, len: 1 }, t, false)?
            }
            A_R1_WRITE1 => self.push(1, K::Write { off: 1, data: b"Q".to_vec() }, None, false)?,
            A_R1_READ0 => self.push(1, K::Read { off: 0, len: 4 }, None, false)?,
            _ => {}
        }
        if self.file_open || self.file.is_none() {
            // the synchronous view must agree after every action
            self.check_file("after the action")?;
        }
        Ok(())
    }
}

impl USys {
    pub fn trace_state(&self) -> String {
        let now = dur(1_000_000 + self.now_us);
        format!(
            "    now={}us content={:?} durable={:?} open={}\n    subs={:?}\n    {}",
            self.now_us,
            String::from_utf8_lossy(&self.content),
            String::from_utf8_lossy(&self.durable),
            self.file_open,
            self.subs.iter().map(|s| format!("{}:{:?}:{:?}@{}", s.ud, s.k, s.st, s.ready_at_us)).collect::<Vec<_>>(),
            self.iou.lock().unwrap().verif_dump(now).replace('\n', "\n    ")
        )
    }
}

impl System for USys {
    type Cfg = UCfg;

    fn init(cfg: &UCfg) -> Self {
        let mut c = FsConfig::default();
        if cfg.latency_us > 0 {
            c.io_latency().min_latency(dur(cfg.latency_us)).max_latency(dur(cfg.latency_us));
        }
        if cfg.page_cache {
            c.page_cache();
        }
        if let Some(cap) = cfg.capacity {
            c.capacity(cap);
        }
        if cfg.odirect {
            c.direct_io_alignment(1);
        }
        // the twin: same capacity, no latency / cache, driven through the synchronous API
        let shadow = {
            let mut sc = FsConfig::default();
            if let Some(cap) = cfg.capacity {
                sc.capacity(cap);
            }
            let sh = Arc::new(Mutex::new(Fs::new(sc, 7)));
            {
                let _g = turmoil_fs::enter(&sh, EnterCtx { now: dur(1_000_000), on_corruption: None });
                use std::os::unix::fs::FileExt;
                let f = sfs::OpenOptions::new().read(true).write(true).create(true).open("/f").expect("create shadow /f");
                f.write_at(b"abcd", 0).unwrap();
                f.sync_all().unwrap();
                sfs::sync_dir("/").unwrap();
            }
            sh
        };
        let q = Arc::new(Mutex::new(VecDeque::new()));
        let mut fs = Fs::new(c, 7);
        fs.rng = Box::new(ScriptRng { q: q.clone(), unscripted: Arc::new(Mutex::new(0)), plain_no: false, fallback: crate::fsys::fallback_rng() });
        let fs = Arc::new(Mutex::new(fs));
        let iou = Arc::new(Mutex::new(IoUringHostState::new()));
        let mut s = USys {
            fs,
            shadow,
            iou,
            rings: vec![],
            dead_rings: vec![],
            spare_rings: vec![],
            churns: 0,
            file: None,
            file_fd: -1,
            bufs: vec![],
            cfg: cfg.clone(),
            now_us: 0,
            subs: vec![],
            content: b"abcd".to_vec(),
            durable: b"abcd".to_vec(),
            file_open: true,
            next_ud: 100,
            steps: 0,
            crashes: 0,
            rngq: q,
            log: vec![],
            feats: vec![],
            floating: vec![],
            cancel_seen: vec![],
        };
        {
            let g = s.enter();
            let g: Guards<'static> = unsafe { std::mem::transmute(g) };
            use std::os::unix::fs::FileExt;
            let f = if cfg.odirect {
                use std::os::unix::fs::OpenOptionsExt;
                sfs::OpenOptions::new().read(true).write(true).create(true).custom_flags(0x4000).open("/f").expect("create /f (O_DIRECT)")
            } else {
                sfs::OpenOptions::new().read(true).write(true).create(true).open("/f").expect("create /f")
            };
            f.write_at(b"abcd", 0).unwrap();
            f.sync_all().unwrap();
            sfs::sync_dir("/").unwrap();
            let mode = handle_mode_of(&cfg.name);
            let f = if mode == 0 {
                f
            } else {
                drop(f);
                sfs::OpenOptions::new().read(mode != 2).write(mode != 1).open("/f").expect("reopen /f with restricted access")
            };
            s.file_fd = f.as_raw_fd();
            s.file = Some(f);
            for _ in 0..cfg.rings {
                s.rings.push(Some(IoUring::new(cfg.depth_ring).expect("ring")));
            }
            drop(g);
        }
        s
    }

    fn actions(&self, out: &mut Vec<u16>) {
        if self.steps >= self.cfg.depth {
            return;
        }
        for &a in &self.cfg.letters {
            match a {
                A_CLOSE if !self.file_open => continue,
                A_CRASH if self.crashes >= 1 => continue,
                A_SUBMIT1 | A_DRAIN1 | A_R1_WRITE1 | A_R1_READ0 if self.cfg.rings < 2 => continue,
                A_CHURN0 if self.cfg.rings < 2 || self.churns >= 1 || self.rings[0].is_none() || !self.subs.iter().filter(|s| s.ring == 0).all(|s| matches!(s.st, St::Done | St::Lost)) => continue,
                _ => {}
            }
            out.push(a);
        }
        if self.eligible(0).len() >= 2 {
            for k in 1..4 {
                out.push(A_DRAIN0_PERM + k);
            }
        }
    }

    fn describe(&self, a: u16) -> String {
        match a {
            A_SUBMIT0 => "ring0.submit()".into(),
            A_SUBMIT1 => "ring1.submit()".into(),
            A_ADV_HALF => "advance time by L/2".into(),
            A_ADV_FULL => "advance time by L".into(),
            A_DRAIN0 => "ring0: cq.sync(); drain all".into(),
            A_DRAIN1 => "ring1: cq.sync(); drain all".into(),
            A_DRAIN_ONE0 => "ring0: cq.sync(); take one CQE; drop the queue".into(),
            A_CLOSE => "close the file".into(),
            A_CHURN0 => "drop ring0 (fully drained), open a new ring0 and a spare ring that stays alive".into(),
            A_CRASH => "CRASH host (Fs::crash + IoUringHostState::crash), restart: new rings, reopen file".into(),
            A_READ0 => "ring0: push read(off 0, len 2)".into(),
            A_READ2 => "ring0: push read(off 2, len 4)".into(),
            A_WRITE0 => "ring0: push write(off 0, \"XY\")".into(),
            A_WRITE3 => "ring0: push write(off 3, \"PQ\")".into(),
            A_WRITE_HOLE => "ring0: push write(off 7, \"HJ\") (past end-of-file)".into(),
            A_FSYNC => "ring0: push fsync".into(),
            A_CANCEL_LAST => "ring0: push cancel(latest operation)".into(),
            A_CANCEL_UNKNOWN => "ring0: push cancel(unknown user_data)".into(),
            A_CANCEL_DONE => "ring0: push cancel(an already completed operation)".into(),
            A_BADFLAG => "ring0: push read with IO_LINK (unsupported flag)".into(),
            A_BADFLAG_ASYNC => "ring0: push read with ASYNC | IO_LINK (unsupported flag next to an accepted one)".into(),
            A_READ_DUP => "ring0: push read(off 1, len 1) re-using the user_data of the latest outstanding operation".into(),
            A_R1_WRITE1 => "ring1: push write(off 1, \"Q\")".into(),
            A_R1_READ0 => "ring1: push read(off 0, len 4)".into(),
            a => format!("ring0: drain all with scripted completion-order value #{}", a - A_DRAIN0_PERM),
        }
    }

    fn apply(&mut self, a: u16) -> Result<(), Violation> {
        self.steps += 1;
        self.step(a).map_err(|mut v| {
            v.sig = format!("{}|{}", v.clause, self.cfg.name);
            v.scenario = self.cfg.describe();
            v
        })
    }

    fn digest(&self) -> u128 {
        let mut d = Digest::new();
        let now = dur(1_000_000 + self.now_us);
        d.add_str(&self.fs.lock().unwrap().verif_dump());
        d.add_str(&self.iou.lock().unwrap().verif_dump(now));
        d.add(&self.subs);
        d.add(&(&self.content, &self.durable, self.file_open, self.steps, self.crashes, &self.floating, self.churns, &self.cancel_seen));
        d.add(&self.feats.contains(&"duplicate-user-data"));
        d.finish()
    }

    fn features(&self, out: &mut Vec<&'static str>) {
        out.extend(self.feats.iter().copied());
        if self.crashes > 0 {
            out.push("crashed");
        }
    }

    fn finish(mut self) -> (u64, Option<Violation>) {
        let pre = self.log.clone();
        let r = (|| -> Result<(), Violation> {
            // fair suffix: submit what is queued, let every latency elapse, drain everything
            let g = self.enter();
            let g: Guards<'static> = unsafe { std::mem::transmute(g) };
            for r in 0..self.cfg.rings {
                self.submit(r)?;
            }
            drop(g);
            self.now_us += 2 * self.cfg.latency_us + 1;
            let g = self.enter();
            let g: Guards<'static> = unsafe { std::mem::transmute(g) };
            for r in 0..self.cfg.rings {
                self.drain(r, usize::MAX, None)?;
                self.drain(r, usize::MAX, None)?;
            }
            // cancellations of a shared user_data that were delivered but not attributed: what
            // is still outstanding under that user_data is what was cancelled
            let seen = std::mem::take(&mut self.cancel_seen);
            for (ring, ud) in seen {
                let rest: Vec<usize> = self.outstanding().into_iter().filter(|&i| self.subs[i].ring == ring && self.subs[i].ud == ud).collect();
                let Some(&i) = rest.first() else {
                    return Err(Violation::new(
                        "exactly-once",
                        format!("ring {ring}: a -ECANCELED completion for user_data={ud} was delivered, and every operation submitted under it completed normally as well"),
                    ));
                };
                if matches!(self.subs[i].k, K::Read { .. }) && self.bufs[self.subs[i].buf].iter().any(|b| *b != SENTINEL) {
                    return Err(Violation::new("buffer-touched", format!("user_data={ud} completed with -ECANCELED but the buffer of the cancelled read was modified")));
                }
                self.subs[i].st = St::Done;
                self.subs[i].cqes += 1;
            }
            // a spare ring never had a submission: it stays silent
            for r in self.spare_rings.iter_mut() {
                let _ = r.submit();
                let mut cq = r.completion();
                cq.sync();
                if let Some(e) = cq.next() {
                    return Err(Violation::new(
                        "foreign-completion",
                        format!("a ring that never had a submission delivered CQE user_data={} result={}", e.user_data(), e.result()),
                    ));
                }
            }
            // rings from before a crash must stay silent
            let dead = std::mem::take(&mut self.dead_rings);
            for mut r in dead {
                let _ = r.submit();
                let mut cq = r.completion();
                cq.sync();
                if let Some(e) = cq.next() {
                    return Err(Violation::new(
                        "post-crash-completion",
                        format!("a ring created before the crash delivered CQE user_data={} result={} after the crash", e.user_data(), e.result()),
                    ));
                }
            }
            if self.file_open {
                self.check_file("after the fair suffix")?;
            } else {
                // file was closed: reopen to compare contents
                self.check_file("after the fair suffix (file closed)")?;
            }
            drop(g);
            if self.crashes == 0 && !self.floating.is_empty() {
                return Err(Violation::new(
                    "exactly-once",
                    format!("a cancellation hit user_data {:?} but no -ECANCELED completion for it was ever delivered", self.floating),
                ));
            }
            for s in &self.subs {
                let want = match s.st {
                    St::Lost => 0,
                    _ => 1,
                };
                if s.cqes != want {
                    return Err(Violation::new(
                        "exactly-once",
                        format!("operation user_data={} ({:?}, final state {:?}) produced {} completions, expected {}", s.ud, s.k, s.st, s.cqes, want),
                    ));
                }
            }
            Ok(())
        })();
        let o = Digest::of64(&(&pre, &self.log, &self.content));
        let cfgname = self.cfg.name.clone();
        let scen = self.cfg.describe();
        // drop handles while entered
        {
            let g = self.enter();
            let g: Guards<'static> = unsafe { std::mem::transmute(g) };
            self.file.take();
            self.rings.clear();
            self.spare_rings.clear();
            self.dead_rings.clear();
            drop(g);
        }
        (
            o,
            r.err().map(|mut v| {
                v.sig = format!("{}|{}", v.clause, cfgname);
                v.scenario = scen;
                v
            }),
        )
    }
}

impl Drop for USys {
    fn drop(&mut self) {
        let now = dur(1_000_000 + self.now_us);
        let _f = turmoil_fs::enter(&self.fs, EnterCtx { now, on_corruption: None });
        let f = self.file.take();
        drop(f);
    }
}
