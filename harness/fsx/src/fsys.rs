//! Engine D: BFS over operation histories of the real turmoil-fs (entered directly,
//! harness-owned time and rng) against the reference model. Serves C10 (no crash) and
//! C07 (crash is a transition enabled in every state).

use std::collections::VecDeque;
use std::sync::{Arc, Mutex};
use std::time::Duration;

use turmoil_fs::{EnterCtx, Fs, FsConfig};
use vx_core::{Digest, System, Violation};

use crate::model::Model;
use crate::ops::*;

#[derive(Clone, Copy, Debug, PartialEq, Eq)]
pub enum Prop {
    C10,
    C07,
}

#[derive(Clone, Debug)]
pub struct FsCfg {
    pub name: String,
    pub prop: Prop,
    pub letters: Vec<Op>,
    pub depth: usize,
    pub sync_prob: f64,
    pub block: Option<u64>,
    /// operations applied (to the implementation and the reference) before the exploration
    /// starts; the history and its depth bound count from there
    pub prelude: Vec<Op>,
}

impl FsCfg {
    pub fn describe(&self) -> String {
        format!(
            "{} prop={:?} letters={} depth={} sync_probability={} block_size={:?}",
            self.name,
            self.prop,
            self.letters.len(),
            self.depth,
            self.sync_prob,
            self.block
        )
    }
}

/// RngCore that answers from a script and reports unscripted draws.
pub struct ScriptRng {
    pub q: Arc<Mutex<VecDeque<u64>>>,
    pub unscripted: Arc<Mutex<u64>>,
    /// answer unscripted draws with "no" (fs engine) instead of the fallback generator
    pub plain_no: bool,
    /// per-instance deterministic source for draws the harness does not script (latency
    /// variates whose value is irrelevant because min == max)
    pub fallback: rand::rngs::SmallRng,
}

pub fn fallback_rng() -> rand::rngs::SmallRng {
    <rand::rngs::SmallRng as rand::SeedableRng>::seed_from_u64(0x5eed)
}

impl rand::RngCore for ScriptRng {
    fn next_u32(&mut self) -> u32 {
        (self.next_u64() >> 32) as u32
    }
    fn next_u64(&mut self) -> u64 {
        match self.q.lock().unwrap().pop_front() {
            Some(v) => v,
            None => {
                *self.unscripted.lock().unwrap() += 1;
                if self.plain_no {
                    // "no" for random_bool; crash scripts pad their own queue
                    u64::MAX
                } else {
                    rand::RngCore::next_u64(&mut self.fallback)
                }
            }
        }
    }
    fn fill_bytes(&mut self, dst: &mut [u8]) {
        for b in dst {
            *b = self.next_u64() as u8;
        }
    }
}

/// value that makes `random_bool(p)` (0<p<1) answer `yes`
pub fn coin(yes: bool) -> u64 {
    if yes {
        0
    } else {
        u64::MAX
    }
}
/// value that makes `random_range(0..=n)` return k
pub fn pick(k: u64, n: u64) -> u64 {
    (((k as u128) << 64) / (n as u128 + 1)) as u64 + (1 << 40)
}

/// start-up calibration of the two mappings against the rand version in the lock file
pub fn calibrate() -> Result<(), String> {
    use rand::Rng;
    let q = Arc::new(Mutex::new(VecDeque::new()));
    let mut r = ScriptRng { q: q.clone(), unscripted: Arc::new(Mutex::new(0)), plain_no: true, fallback: fallback_rng() };
    for yes in [true, false] {
        for p in [0.5f64, 0.01, 0.99] {
            q.lock().unwrap().push_back(coin(yes));
            if r.random_bool(p) != yes {
                return Err(format!("random_bool({p}) did not answer {yes}"));
            }
            if !q.lock().unwrap().is_empty() {
                return Err("random_bool consumed an unexpected number of draws".into());
            }
        }
    }
    for n in 1..=4u64 {
        for k in 0..=n {
            q.lock().unwrap().push_back(pick(k, n));
            let got = r.random_range(0..=n as usize) as u64;
            if got != k || !q.lock().unwrap().is_empty() {
                return Err(format!("random_range(0..={n}) gave {got}, wanted {k}"));
            }
        }
    }
    if *r.unscripted.lock().unwrap() != 0 {
        return Err("calibration drew unscripted values".into());
    }
    Ok(())
}

pub struct FsSys {
    fs: Arc<Mutex<Fs>>,
    other: Arc<Mutex<Fs>>,
    other_snapshot: Vec<PathObs>,
    model: Model,
    cfg: FsCfg,
    hist: Vec<Op>,
    now: Duration,
    terminal: bool,
    rngq: Arc<Mutex<VecDeque<u64>>>,
    unscripted: Arc<Mutex<u64>>,
    crashes: u32,
    skipped: bool,
    /// the live view already diverged for a reason outside the listed families (C07 mode)
    tainted: bool,
    pub verbose: bool,
}

fn enter<'a>(fs: &'a Arc<Mutex<Fs>>, now: Duration) -> turmoil_fs::FsEnterGuard<'a> {
    turmoil_fs::enter(fs, EnterCtx { now, on_corruption: None })
}

fn mkfs(cfg: &FsCfg, q: &Arc<Mutex<VecDeque<u64>>>, u: &Arc<Mutex<u64>>) -> Arc<Mutex<Fs>> {
    let mut c = FsConfig::default();
    if cfg.sync_prob > 0.0 {
        c.sync_probability(cfg.sync_prob);
    }
    if let Some(b) = cfg.block {
        c.block_size(b);
    }
    let mut fs = Fs::new(c, 1);
    fs.rng = Box::new(ScriptRng { q: q.clone(), unscripted: u.clone(), plain_no: true, fallback: fallback_rng() });
    Arc::new(Mutex::new(fs))
}

/// what diverged, for messages and signatures
#[derive(Clone, Debug)]
pub struct Divergence {
    pub observable: String,
    /// for existence divergences: which way round ("" otherwise); part of the signature of
    /// post-crash divergences only
    pub direction: &'static str,
    pub path: String,
    pub detail: String,
}

fn compare_sweep(model: &Model, skip: &dyn Fn(&str) -> bool) -> Option<Divergence> {
    let got = observe_impl(skip);
    let want = observe_model(model, skip);
    for (g, w) in got.iter().zip(want.iter()) {
        if g == w {
            continue;
        }
        let observable = if g.exists != w.exists || g.kind != w.kind {
            "existence/kind"
        } else if g.len != w.len {
            "length"
        } else if g.content != w.content {
            "content"
        } else {
            "directory listing"
        };
        let direction = if g.exists && !w.exists {
            ":present-but-not-durable"
        } else if !g.exists && w.exists {
            ":durable-but-missing"
        } else {
            ""
        };
        return Some(Divergence {
            observable: observable.into(),
            direction,
            path: g.path.to_string(),
            detail: format!(
                "{}: implementation shows exists={} kind={} len={} content={:?} entries={:?}; reference tree has exists={} kind={} len={} content={:?} entries={:?}",
                g.path,
                g.exists,
                g.kind,
                g.len,
                String::from_utf8_lossy(&g.content),
                g.entries,
                w.exists,
                w.kind,
                w.len,
                String::from_utf8_lossy(&w.content),
                w.entries
            ),
        });
    }
    None
}

impl FsSys {
    /// torn-write survival vectors available at a crash in this state: the product of
    /// 0..=blocks over the model's pending writes on files with a durable entry (≤ 2
    /// writes enumerated; more are answered "0 blocks")
    fn torn_options(&self) -> Vec<Vec<(usize, usize, u64)>> {
        let Some(b) = self.cfg.block else { return vec![] };
        // global submission order of pending writes = order in the implementation's log;
        // the model keeps them per inode, so restrict the enumeration to states where at
        // most one inode has pending writes on a durable path
        let mut cands: Vec<(usize, usize, u64)> = vec![]; // inode, idx, blocks
        let mut inodes_with = 0;
        for (p, &i) in &self.model.files {
            if !self.model.dur_files.get(p).map(|&j| j == i).unwrap_or(false) {
                continue;
            }
            let pw = &self.model.inodes[i].pending_writes;
            if pw.is_empty() {
                continue;
            }
            inodes_with += 1;
            for (k, (_, d)) in pw.iter().enumerate() {
                cands.push((i, k, (d.len() as u64).div_ceil(b)));
            }
        }
        if inodes_with != 1 || cands.len() > 2 {
            return vec![];
        }
        let mut out: Vec<Vec<(usize, usize, u64)>> = vec![vec![]];
        for &(i, k, blocks) in &cands {
            let mut next = vec![];
            for v in &out {
                for keep in 0..=blocks {
                    let mut w = v.clone();
                    w.push((i, k, keep));
                    next.push(w);
                }
            }
            out = next;
        }
        // the all-zero vector is the plain crash
        out.retain(|v| v.iter().any(|x| x.2 > 0));
        out
    }

    fn step(&mut self, op: Op) -> Result<(), Violation> {
        crate::ops::set_all_tokio(self.cfg.name.ends_with("-tokio-front"));
        let _g = enter(&self.fs, self.now);
        let mk = |clause: &str, d: &Divergence, s: &FsSys| {
            Violation::new(clause, format!("after `{}`: {}", op.describe(), d.detail)).with_sig(format!(
                "{}:{}{}|{}",
                clause,
                d.observable,
                if clause == "post-crash" { d.direction } else { "" },
                s.cfg.name
            ))
        };
        match op {
            Op::Advance => {
                self.now += Duration::from_secs(1);
            }
            Op::Crash | Op::CrashTorn(_) => {
                let torn: Vec<(usize, usize, u64)> = match op {
                    Op::CrashTorn(k) => self.torn_options().get(k as usize).cloned().unwrap_or_default(),
                    _ => vec![],
                };
                if let Some(b) = self.cfg.block {
                    // script the survival draws: one per pending write on a durable path,
                    // in submission order; unlisted writes get 0 blocks
                    let mut q = self.rngq.lock().unwrap();
                    q.clear();
                    for &(i, k, keep) in &torn {
                        let len = self.model.inodes[i].pending_writes[k].1.len() as u64;
                        q.push_back(pick(keep, len.div_ceil(b)));
                    }
                    // any further survival draw answers "0 blocks"
                    for _ in 0..8 {
                        q.push_back(1 << 40);
                    }
                }
                self.fs.lock().unwrap().crash();
                self.rngq.lock().unwrap().clear();
                self.model.crash(&torn, self.cfg.block.unwrap_or(1));
                self.crashes += 1;
                let unspec = self.model.unspecified.clone();
                let skip = move |p: &str| unspec.iter().any(|u| p == u || crate::model::is_under(p, u));
                if let Some(d) = compare_sweep(&self.model, &skip) {
                    return Err(mk("post-crash", &d, self));
                }
                if !self.model.unspecified.is_empty() {
                    // a dangling subtree survived: its later behaviour is unspecified
                    self.terminal = true;
                }
                return Ok(());
            }
            _ => {
                if let Op::WriteAtSynced(..) = op {
                    self.rngq.lock().unwrap().push_back(coin(true));
                } else if self.cfg.sync_prob > 0.0 {
                    // every other write/set_len coin says "no background sync"
                    let mut q = self.rngq.lock().unwrap();
                    q.clear();
                    for _ in 0..4 {
                        q.push_back(coin(false));
                    }
                }
                let got = exec_impl(op);
                self.rngq.lock().unwrap().clear();
                let want = exec_model(&mut self.model, op);
                let ok = match (&got, &want) {
                    (Res::Err(g), Err(w)) => class_ok(g, *w),
                    (Res::Err(_), Ok(_)) | (_, Err(_)) => false,
                    (g, Ok(w)) => g == w,
                };
                if !ok {
                    let d = Divergence {
                        observable: "return value".into(),
                        direction: "",
                        path: op.paths().first().copied().unwrap_or("").into(),
                        detail: format!("returned {got:?}; a POSIX file tree returns {want:?}"),
                    };
                    return Err(mk("result", &d, self));
                }
            }
        }
        if let Some(d) = compare_sweep(&self.model, &|_| false) {
            return Err(mk("view", &d, self));
        }
        Ok(())
    }
}

/// Replay a list of ops on a fresh filesystem; returns the clause and observable of the
/// first divergence.
pub fn run_ops(cfg: &FsCfg, ops: &[Op]) -> Option<(String, String)> {
    run_ops_ext(cfg, ops, false)
}

/// `only_post_crash`: live-view divergences are passed over (used when minimising a
/// post-crash divergence that was reached through one)
fn run_ops_ext(cfg: &FsCfg, ops: &[Op], only_post_crash: bool) -> Option<(String, String)> {
    let mut s = FsSys::init(cfg);
    for &op in ops {
        s.hist.push(op);
        let r = std::panic::catch_unwind(std::panic::AssertUnwindSafe(|| s.step(op)));
        match r {
            Ok(Ok(())) => {}
            Ok(Err(v)) if only_post_crash && v.clause != "post-crash" => {}
            Ok(Err(v)) => {
                let obs = v.sig.split('|').next().unwrap_or("").to_string();
                return Some((v.clause, obs));
            }
            Err(_) => {
                let _ = vx_core::take_last_panic();
                return Some(("panic".into(), "panic".into()));
            }
        }
    }
    None
}

/// ddmin over the history (one-at-a-time removal to a fixpoint) keeping the same
/// clause+observable, then abstraction to op kinds with path roles.
fn signature(cfg: &FsCfg, hist: &[Op], clause: &str, obs: &str) -> (String, Vec<Op>) {
    let mut cur: Vec<Op> = hist.to_vec();
    let target = (clause.to_string(), obs.to_string());
    let only_pc = clause == "post-crash" && cfg.prop == Prop::C07;
    loop {
        let mut shrunk = false;
        let mut i = 0;
        while i + 1 < cur.len() {
            // never remove the last op (the one that exposes the divergence)
            let mut cand = cur.clone();
            cand.remove(i);
            if run_ops_ext(cfg, &cand, only_pc) == Some(target.clone()) {
                cur = cand;
                shrunk = true;
            } else {
                i += 1;
            }
        }
        if !shrunk {
            break;
        }
    }
    // Known defect families of the path-keyed pending log (DESIGN.md section 8, F-FS-*):
    // classified by the shape of the *minimal* history so that the signature is stable
    // across depths and alphabets.
    let creator = |o: &Op| matches!(o, Op::Create(_) | Op::CreateNew(_) | Op::OpenTrunc(_) | Op::Cursor(_));
    if cur.iter().any(|o| matches!(o, Op::RenameD(..))) {
        return (format!("fs-name-reuse:directory-rename|{obs}"), cur);
    }
    for (i, o) in cur.iter().enumerate() {
        if let Op::Rmdir(d) | Op::RmdirAll(d) = o {
            let dn = DIRS[*d as usize];
            if cur[i + 1..].iter().any(|x| match x {
                Op::Mkdir(e) | Op::MkdirAll(e) => DIRS[*e as usize] == dn || crate::model::is_under(DIRS[*e as usize], dn),
                _ => false,
            }) {
                // which directory's sync exposes it: the re-created directory itself (the listed
                // finding) or another one, e.g. its parent
                let other_sync = cur.iter().rev().find_map(|x| match x {
                    Op::SyncDir(sd) => Some(crate::ops::dir_name(*sd) != dn),
                    _ => None,
                });
                let suffix = if other_sync == Some(true) { ":exposed-by-sync-of-another-directory" } else { "" };
                return (format!("fs-name-reuse:directory-remove-then-recreate{suffix}|{obs}"), cur);
            }
        }
        if let Op::RemoveFile(f) = o {
            if let Some(x) = cur[i + 1..].iter().find(|x| creator(x) && x.paths().first() == Some(&FILES[*f as usize])) {
                // a re-creation that truncates starts from an empty file whatever the log
                // still holds for the name: that variant is not part of the listed family
                // (what exposes it is part of that signature: the re-creating open itself
                // must already show an empty file; a later sync replaying the stale removal is
                // the listed finding again)
                let trunc = if matches!(x, Op::OpenTrunc(_)) { format!(":recreated-with-truncate:at-{}", cur.last().map(|o| o.kind()).unwrap_or("?")) } else { String::new() };
                return (format!("fs-name-reuse:file-remove-then-recreate{trunc}|{obs}"), cur);
            }
        }
    }
    // F-FS-1 is exposed by an operation issued *after* a file rename (under the old or
    // the new name, or a sync/remove of a parent directory); a divergence exposed by a
    // rename of a single file is not part of that family and keeps its exact signature
    // (renames that replace or cross a second file are)
    let created: std::collections::BTreeSet<&str> =
        cur.iter().filter(|o| creator(o)).filter_map(|o| o.paths().first().copied()).collect();
    if cur.iter().any(|o| matches!(o, Op::RenameF(..)))
        && (!matches!(cur.last(), Some(Op::RenameF(..))) || created.len() >= 2)
    {
        let cross = cur.iter().any(|o| match o {
            Op::RenameF(a, b) => crate::model::parent(FILES[*a as usize]) != crate::model::parent(FILES[*b as usize]),
            _ => false,
        });
        // a file created again under the name that was renamed away
        let mut recreated = false;
        for (i, o) in cur.iter().enumerate() {
            if let Op::RenameF(a, _) = o {
                if cur[i + 1..].iter().any(|x| creator(x) && x.paths().first() == Some(&FILES[*a as usize])) {
                    recreated = true;
                }
            }
        }
        let mut sig = String::from("fs-name-reuse:file-rename-with-pending-operations");
        if cross {
            sig.push_str(":cross-directory");
        }
        if recreated {
            sig.push_str(":old-name-recreated");
        }
        // The listed family is about files that still have pending operations when they are
        // renamed. If, in the history as it was executed, every renamed file (and a replaced
        // destination) was fully durable at that moment — data synced after its last change,
        // entry synced after its creation — the divergence is not part of it, whatever the
        // minimised history looks like.
        // (only for renames within one directory that are followed by nothing but directory
        // syncs and crashes: a rename across directories, or work under the new name while
        // the rename itself is pending, is the listed family whatever the files' state)
        let post_rename_work = {
            let first = cur.iter().position(|o| matches!(o, Op::RenameF(..))).unwrap_or(0);
            cur[first + 1..].iter().any(|o| !matches!(o, Op::SyncDir(_) | Op::Crash | Op::CrashTorn(_) | Op::RenameF(..)))
        };
        if !cross && !post_rename_work && renames_only_durable_files(hist) {
            sig.push_str(":renamed-files-were-fully-durable");
        }
        sig.push('|');
        sig.push_str(obs);
        return (sig, cur);
    }
    // path roles by first occurrence
    let mut names: Vec<&'static str> = vec![];
    let mut parts = vec![];
    for op in &cur {
        let mut roles = vec![];
        for p in op.paths() {
            let idx = match names.iter().position(|n| *n == p) {
                Some(i) => i,
                None => {
                    names.push(p);
                    names.len() - 1
                }
            };
            // parent relationship to an earlier-named path matters (entry vs inode)
            let mut role = format!("p{idx}");
            for (j, n) in names.iter().enumerate() {
                if j != idx && crate::model::parent(n) == p {
                    role = format!("parent(p{j})");
                    break;
                }
            }
            roles.push(role);
        }
        parts.push(format!("{}({})", op.kind(), roles.join(",")));
    }
    (format!("{}|{}", obs, parts.join(" ")), cur)
}

/// true iff the history contains a file rename and, at every file rename, source and (if
/// present) destination had no unsynced change: a data sync after the last modification and
/// a sync of the parent directory after the creation
fn renames_only_durable_files(hist: &[Op]) -> bool {
    let modifies = |o: &Op, p: &str| -> bool {
        match o {
            Op::Create(_) | Op::CreateNew(_) | Op::OpenTrunc(_) | Op::WriteAt(..) | Op::WriteAtSynced(..) | Op::Append(_) | Op::AppendRing(_) | Op::SetLen(..) | Op::Cursor(_) | Op::AppendCursor(_) | Op::RemoveFile(_) => {
                o.paths().first() == Some(&p)
            }
            Op::RenameF(a, b) => FILES[*a as usize] == p || FILES[*b as usize] == p,
            _ => false,
        }
    };
    let durable_at = |i: usize, p: &str| -> bool {
        // last modification of p before i
        let Some(last) = (0..i).rev().find(|&j| modifies(&hist[j], p)) else { return true };
        if matches!(hist[last], Op::RenameF(..) | Op::RemoveFile(_)) {
            return false;
        }
        let data = (last + 1..i).any(|j| matches!(hist[j], Op::SyncAll(f, _) | Op::SyncData(f) | Op::SyncAllRO(f) if FILES[f as usize] == p));
        let first = (0..i).find(|&j| modifies(&hist[j], p)).unwrap();
        let parent = crate::model::parent(p);
        let entry = (first + 1..i).any(|j| matches!(hist[j], Op::SyncDir(d) if crate::ops::dir_name(d) == parent));
        let crashed = (first..i).any(|j| matches!(hist[j], Op::Crash | Op::CrashTorn(_)));
        data && entry && !crashed
    };
    let mut any = false;
    for (i, o) in hist.iter().enumerate() {
        if let Op::RenameF(a, b) = o {
            any = true;
            if !durable_at(i, FILES[*a as usize]) || !durable_at(i, FILES[*b as usize]) {
                return false;
            }
        }
    }
    any
}

impl System for FsSys {
    type Cfg = FsCfg;

    fn init(cfg: &FsCfg) -> Self {
        let rngq = Arc::new(Mutex::new(VecDeque::new()));
        let unscripted = Arc::new(Mutex::new(0u64));
        let fs = mkfs(cfg, &rngq, &unscripted);
        let q2 = Arc::new(Mutex::new(VecDeque::new()));
        let other = mkfs(cfg, &q2, &Arc::new(Mutex::new(0)));
        let now = Duration::from_secs(1_700_000_000);
        let other_snapshot = {
            let _g = enter(&other, now);
            let _ = exec_impl(Op::Mkdir(0));
            let _ = exec_impl(Op::Create(0));
            let _ = exec_impl(Op::WriteAt(0, 0, 1, Front::Std));
            let _ = exec_impl(Op::Create(1));
            observe_impl(&|_| false)
        };
        let mut sys = FsSys {
            fs,
            other,
            other_snapshot,
            model: Model::new(),
            cfg: cfg.clone(),
            hist: vec![],
            now,
            terminal: false,
            rngq,
            unscripted,
            crashes: 0,
            skipped: false,
            tainted: false,
            verbose: false,
        };
        for op in cfg.prelude.clone() {
            if let Err(v) = sys.step(op) {
                vx_core::machinery_error(&format!("{}: the prelude already diverges at `{}`: {}", cfg.name, op.describe(), v.detail));
            }
        }
        sys
    }

    fn actions(&self, out: &mut Vec<u16>) {
        if self.terminal || self.hist.len() >= self.cfg.depth {
            return;
        }
        for (i, op) in self.cfg.letters.iter().enumerate() {
            if let Op::CrashTorn(_) = op {
                continue;
            }
            out.push(i as u16);
        }
        if self.cfg.prop == Prop::C07 && self.cfg.block.is_some() {
            for k in 0..self.torn_options().len().min(8) {
                out.push(1000 + k as u16);
            }
        }
    }

    fn describe(&self, a: u16) -> String {
        if a >= 1000 {
            let v = self.torn_options().get((a - 1000) as usize).cloned().unwrap_or_default();
            return format!("CRASH with torn writes: surviving blocks per pending write {:?}", v.iter().map(|x| x.2).collect::<Vec<_>>());
        }
        self.cfg.letters[a as usize].describe()
    }

    fn apply(&mut self, a: u16) -> Result<(), Violation> {
        let op = if a >= 1000 { Op::CrashTorn((a - 1000) as u8) } else { self.cfg.letters[a as usize] };
        self.hist.push(op);
        let r = self.step(op);
        match r {
            Ok(()) => Ok(()),
            Err(v) => {
                if self.cfg.prop == Prop::C07 && v.clause != "post-crash" {
                    // a no-crash divergence is C10's subject. If it belongs to the listed
                    // path-keyed-log family the model no longer tracks the implementation
                    // and the branch is not judged further under C07; any other live-view
                    // divergence is passed over here (C10 reports it) but the branch goes
                    // on, so that what a crash leaves behind is still compared with what
                    // was made durable
                    if self.tainted {
                        return Ok(());
                    }
                    let obs = v.sig.split('|').next().unwrap_or("").to_string();
                    let (sig, _) = signature(&self.cfg, &self.hist, &v.clause, &obs);
                    if sig.starts_with("fs-name-reuse:") && !sig.contains(":recreated-with-truncate") && !sig.contains(":exposed-by-sync-of-another-directory") && !sig.contains(":renamed-files-were-fully-durable") {
                        self.terminal = true;
                        self.skipped = true;
                    } else {
                        self.tainted = true;
                    }
                    return Ok(());
                }
                let obs = v.sig.split('|').next().unwrap_or("").to_string();
                let (sig, min) = signature(&self.cfg, &self.hist, &v.clause, &obs);
                let mut v = v;
                v.sig = sig;
                v.scenario = self.cfg.describe();
                v.detail = format!("{} [minimal history: {}]", v.detail, min.iter().map(|o| o.describe()).collect::<Vec<_>>().join("; "));
                Err(v)
            }
        }
    }

    fn digest(&self) -> u128 {
        let mut d = Digest::new();
        d.add_str(&self.fs.lock().unwrap().verif_dump());
        d.add(&self.model);
        d.add(&self.hist.len());
        d.add(&self.terminal);
        d.add(&self.tainted);
        d.finish()
    }

    fn features(&self, out: &mut Vec<&'static str>) {
        if self.crashes > 0 {
            out.push("crashed");
        }
        if self.crashes > 1 {
            out.push("crashed-twice");
        }
        if self.skipped {
            out.push("c10-divergence-not-judged-under-c07");
        }
        if !self.model.unspecified.is_empty() {
            out.push("dangling-subtree-unspecified");
        }
    }

    fn finish(self) -> (u64, Option<Violation>) {
        // independence of hosts: the other filesystem must be untouched
        let mut v = None;
        {
            let _g = enter(&self.other, self.now);
            let now_obs = observe_impl(&|_| false);
            if now_obs != self.other_snapshot {
                v = Some(
                    Violation::new("cross-host", "operations on one host's filesystem changed another host's tree".into())
                        .with_sig("cross-host".into()),
                );
            }
        }
        if *self.unscripted.lock().unwrap() > 0 && v.is_none() && self.cfg.sync_prob == 0.0 && self.cfg.block.is_none() {
            v = Some(
                Violation::new("rng", "the filesystem drew random numbers although every fault knob is off".into())
                    .with_sig("rng-draw-with-knobs-off".into()),
            );
        }
        let _g = enter(&self.fs, self.now);
        let o = Digest::of64(&(observe_impl(&|_| false), &self.hist));
        (o, v)
    }
}
