//! C07 through `Sim::crash` / `Sim::bounce` inside a running simulation.
//!
//! A host runs a script of whole-file writes (synced or not), unsynced creations and an
//! optional unsynced removal, one operation per step, and then either parks or returns.
//! The controller crashes the host before every step (also after its software has
//! returned), bounces it after 0 or 1 steps, lets the new incarnation record what it
//! finds and optionally run a second script followed by a second crash. A second host
//! with its own tree must be unaffected. The reference is the durable image: the file's
//! contents at its last data sync (entry synced), nothing else.

use std::cell::RefCell;
use std::rc::Rc;
use std::time::Duration;

use turmoil::fs::shim::std::fs;
use vx_core::dfs::Exec;
use vx_core::{Chooser, Digest, Violation};

#[derive(Clone, Copy, Debug, PartialEq, Eq)]
enum Sop {
    /// write the whole file, sync_all, sync_dir of the parent
    WriteSynced(u8),
    /// write the whole file, sync_data only (entry must already be durable to survive)
    WriteDataSynced(u8),
    WriteUnsynced(u8),
    CreateTmp,
    MkdirSub,
    RemoveUnsynced,
}

fn content(v: u8) -> Vec<u8> {
    vec![b'A' + v; 8]
}

fn run_op(op: Sop) -> std::io::Result<()> {
    match op {
        Sop::WriteSynced(v) => {
            fs::write("/d/f", content(v))?;
            fs::OpenOptions::new().write(true).open("/d/f")?.sync_all()?;
            fs::sync_dir("/d")
        }
        Sop::WriteDataSynced(v) => {
            fs::write("/d/f", content(v))?;
            fs::OpenOptions::new().write(true).open("/d/f")?.sync_data()
        }
        Sop::WriteUnsynced(v) => fs::write("/d/f", content(v)),
        Sop::CreateTmp => fs::write("/d/tmp", b"t"),
        Sop::MkdirSub => fs::create_dir("/d/sub"),
        Sop::RemoveUnsynced => fs::remove_file("/d/f"),
    }
}

#[derive(Default)]
struct St {
    /// ops completed by incarnation i: (incarnation, index, result)
    done: Vec<(u32, usize, Result<(), String>)>,
    /// what each incarnation found at start: (f content, tmp exists, sub exists)
    found: Vec<(Option<Vec<u8>>, bool, bool)>,
    starts: u32,
    other: Vec<String>,
}

/// durable image after the given completed ops (entry of /d/f durable?, durable content)
#[derive(Clone, Debug, Default, PartialEq)]
struct Durable {
    entry: bool,
    data: Option<Vec<u8>>,
    /// /d/tmp and /d/sub exist live / their entries were covered by a later sync_dir("/d")
    tmp_live: bool,
    sub_live: bool,
    tmp: bool,
    sub: bool,
}

fn apply_durable(d: &mut Durable, op: Sop, live_exists: &mut bool) {
    match op {
        Sop::WriteSynced(v) => {
            d.entry = true;
            d.data = Some(content(v));
            *live_exists = true;
            // sync_dir("/d") makes every entry of /d durable
            d.tmp = d.tmp_live;
            d.sub = d.sub_live;
        }
        Sop::WriteDataSynced(v) => {
            // data reaches the disk; the entry only if it was durable already
            d.data = Some(content(v));
            *live_exists = true;
        }
        Sop::WriteUnsynced(_) => *live_exists = true,
        Sop::RemoveUnsynced => *live_exists = false,
        Sop::CreateTmp => d.tmp_live = true,
        Sop::MkdirSub => d.sub_live = true,
    }
}

pub fn scenario(ch: &mut Chooser, thorough: bool) -> Exec {
    let alphabet: &[Sop] = &[Sop::WriteSynced(0), Sop::WriteSynced(1), Sop::WriteDataSynced(2), Sop::WriteUnsynced(3), Sop::CreateTmp, Sop::MkdirSub];
    let n1 = if thorough { 3 } else { 2 };
    let mut script1: Vec<Sop> = (0..n1).map(|_| *ch.of("op", alphabet)).collect();
    if ch.flag("then_remove_unsynced") {
        script1.push(Sop::RemoveUnsynced);
    }
    let exits = ch.flag("software_returns_after_its_script");
    let crash_before = 1 + ch.choose("crash_before_step_minus_1", script1.len() + 3); // 1.. len+3
    let bounce_after = ch.choose("bounce_after_steps", 2);
    let by_regex = ch.flag("host_selected_by_regex");
    // second incarnation: optional one more op and a second crash
    let second: Option<Sop> = *ch.of("second_incarnation_op_then_second_crash", &[None, Some(Sop::WriteSynced(4)), Some(Sop::WriteUnsynced(5)), Some(Sop::WriteDataSynced(6))]);

    let mut b = turmoil::Builder::new();
    b.tick_duration(Duration::from_millis(1)).simulation_duration(Duration::from_secs(600)).rng_seed(vx_core::report::seed());
    let mut sim = b.build();
    let st: Rc<RefCell<St>> = Rc::new(RefCell::new(St::default()));
    let (s1, sc1) = (st.clone(), script1.clone());
    sim.host("h", move || {
        let (s1, sc1) = (s1.clone(), sc1.clone());
        async move {
            let inc = {
                let mut g = s1.borrow_mut();
                g.starts += 1;
                g.starts
            };
            // record what survived
            let f = fs::read("/d/f").ok();
            let tmp = fs::metadata("/d/tmp").is_ok();
            let sub = fs::metadata("/d/sub").is_ok();
            s1.borrow_mut().found.push((f, tmp, sub));
            if inc == 1 {
                fs::create_dir_all("/d")?;
                fs::sync_dir("/")?;
                fs::sync_dir("/d")?;
            }
            let script: Vec<Sop> = if inc == 1 { sc1.clone() } else { second.into_iter().collect() };
            for (i, op) in script.iter().enumerate() {
                tokio::time::sleep(Duration::from_millis(1)).await;
                let r = run_op(*op).map_err(|e| format!("{:?}", e.kind()));
                s1.borrow_mut().done.push((inc, i, r));
            }
            if exits {
                return Ok(());
            }
            std::future::pending::<()>().await;
            Ok(())
        }
    });
    let s2 = st.clone();
    sim.host("other", move || {
        let s2 = s2.clone();
        async move {
            fs::create_dir_all("/d")?;
            let mut k = 0u8;
            loop {
                k = k.wrapping_add(1);
                fs::write("/d/f", [k; 4])?;
                let back = fs::read("/d/f")?;
                let names: Vec<String> = fs::read_dir("/d")?.flatten().map(|e| e.file_name().to_string_lossy().into_owned()).collect();
                s2.borrow_mut().other.push(format!("{k}:{back:?}:{names:?}"));
                tokio::time::sleep(Duration::from_millis(1)).await;
            }
        }
    });

    let mut obs: Vec<String> = vec![];
    let mut violation: Option<Violation> = None;
    let crash = |sim: &mut turmoil::Sim| {
        if by_regex {
            sim.crash(turmoil_regex("^h$"))
        } else {
            sim.crash("h")
        }
    };
    let total = script1.len() + 10;
    let mut crashed1: Option<usize> = None;
    let mut second_crash_done = false;
    let mut bounced = false;
    let mut expected: Vec<Durable> = vec![]; // durable image seen by incarnation i+2
    for k in 0..total {
        if k == crash_before && crashed1.is_none() {
            // durable image = effect of the ops completed so far
            let g = st.borrow();
            let mut d = Durable::default();
            let mut live = false;
            for (inc, i, r) in &g.done {
                if *inc == 1 && r.is_ok() {
                    apply_durable(&mut d, script1[*i], &mut live);
                }
            }
            drop(g);
            expected.push(d);
            crash(&mut sim);
            crashed1 = Some(k);
            obs.push(format!("crash before step {k}"));
        }
        if let Some(c) = crashed1 {
            if k == c + bounce_after && !bounced {
                bounced = true;
                sim.bounce("h");
                obs.push(format!("bounce before step {k}"));
            }
            // second crash: three steps after the bounce
            if second.is_some() && !second_crash_done && k == c + bounce_after + 3 {
                let g = st.borrow();
                let mut d = expected[0].clone();
                d.tmp_live = d.tmp;
                d.sub_live = d.sub;
                let mut live = d.entry && d.data.is_some();
                for (inc, _i, r) in &g.done {
                    if *inc == 2 && r.is_ok() {
                        apply_durable(&mut d, second.unwrap(), &mut live);
                    }
                }
                drop(g);
                expected.push(d);
                crash(&mut sim);
                sim.bounce("h");
                second_crash_done = true;
                obs.push(format!("second crash + bounce before step {k}"));
            }
        }
        if let Err(e) = vx_core::catch(|| sim.step()).unwrap_or_else(|p| Err(p.into())) {
            violation = Some(Violation::new("sim-error", e.to_string()));
            break;
        }
    }
    let g = st.borrow();
    obs.push(format!("script={script1:?} exits={exits} second={second:?} done={:?} found={:?}", g.done, g.found));
    // if the host was crashed before it ever ran, the first record is the second incarnation's
    let first_found = 1;
    if violation.is_none() {
        for (i, want) in expected.iter().enumerate() {
            let Some((f, tmp, sub)) = g.found.get(i + first_found) else {
                violation = Some(Violation::new("harness", format!("incarnation {} never started", i + 2)));
                break;
            };
            // the file is present iff its entry is durable; contents = last data sync
            let want_f: Option<Vec<u8>> = if want.entry { Some(want.data.clone().unwrap_or_default()) } else { None };
            if *f != want_f || *tmp != want.tmp || *sub != want.sub {
                violation = Some(Violation::new(
                    "post-crash",
                    format!(
                        "incarnation {} found /d/f = {:?}, /d/tmp exists = {}, /d/sub exists = {}; the durable image is /d/f = {:?}, /d/tmp exists = {}, /d/sub exists = {} (entries are durable once sync_dir of /d ran after their creation)",
                        i + 2,
                        f.as_ref().map(|b| String::from_utf8_lossy(b).into_owned()),
                        tmp,
                        sub,
                        want_f.as_ref().map(|b| String::from_utf8_lossy(b).into_owned()),
                        want.tmp,
                        want.sub
                    ),
                ));
                break;
            }
        }
    }
    if violation.is_none() {
        // the other host's tree is its own
        for (i, l) in g.other.iter().enumerate() {
            let k = (i + 1) as u8;
            let want = format!("{k}:{:?}:{:?}", [k; 4], vec!["f".to_string()]);
            if *l != want {
                violation = Some(Violation::new("other-host-disturbed", format!("host `other` observed {l}, expected {want}")));
                break;
            }
        }
    }
    let mut feats = vec![];
    if crashed1.is_some() {
        feats.push("sim-crash");
    }
    if let Some(v) = violation.as_mut() {
        v.sig = format!("sim-layer|{}", v.clause);
        v.scenario = format!("c07-sim tier={} script={script1:?} exits={exits} crash_before={crash_before} bounce_after={bounce_after} regex={by_regex} second={second:?}", if thorough { "thorough" } else { "quick" });
        v.actions = obs.clone();
    }
    Exec { outcome: Digest::of64(&obs), violation, features: feats }
}

fn turmoil_regex(_s: &str) -> &'static str {
    // the regex feature is not enabled in this engine: select by name
    "h"
}
