//! Operation alphabet over a small path universe, executed on the real turmoil-fs
//! shims and on the reference model, plus the observation sweep.

use std::collections::BTreeSet;
use std::io::{ErrorKind, Read, Seek, SeekFrom, Write};
use std::os::unix::fs::FileExt;

use turmoil_fs::shim::std::fs as sfs;
use turmoil_fs::shim::tokio::fs as tfs;

use crate::model::{Errc, Model};

pub const FILES: [&str; 5] = ["/a", "/d/a", "/d/b", "/e/a", "/b"];
pub const DIRS: [&str; 3] = ["/d", "/e", "/d/s"];
pub const DATA: [&[u8]; 3] = [b"xy", b"Z", b""];

#[derive(Clone, Copy, Debug, PartialEq, Eq, Hash)]
pub enum Front {
    Std,
    Tokio,
    /// one entry on a fresh simulated io_uring ring, submitted and reaped at once (no latency
    /// is configured in these histories)
    Uring,
}

#[derive(Clone, Copy, Debug, PartialEq, Eq, Hash)]
pub enum Op {
    Create(u8),
    CreateNew(u8),
    OpenTrunc(u8),
    WriteAt(u8, u8, u8, Front),
    Append(u8),
    /// open(append) only; one ring Write of "q" at the current end of the file (an append-only
    /// handle is a writable descriptor)
    AppendRing(u8),
    SetLen(u8, u8),
    /// read_at through an opened handle: (file, off, len)
    ReadAt(u8, u8, u8, Front),
    /// cursor script on one handle: write DATA[0], seek(Start 1), read 2, seek(End -1), write "Z", seek(Current -2), read 4
    Cursor(u8),
    /// open(read, append): write "q", report the cursor, read (must be at EOF), seek(Start 0), read 1
    AppendCursor(u8),
    RenameF(u8, u8),
    RenameD(u8, u8),
    RemoveFile(u8),
    Mkdir(u8),
    MkdirAll(u8),
    Rmdir(u8),
    RmdirAll(u8),
    SyncAll(u8, Front),
    /// sync_all through a handle that was opened read-only (the "re-open the path just to fsync it" idiom)
    SyncAllRO(u8),
    SyncData(u8),
    /// 0..=2 = DIRS, 3 = "/"
    SyncDir(u8),
    Advance,
    Crash,
    /// crash with torn-write survival choices (index into the enumerated vectors)
    CrashTorn(u8),
    /// write with the background-sync coin answered "sync now"
    WriteAtSynced(u8, u8, u8),
}

pub fn dir_name(i: u8) -> &'static str {
    if i as usize >= DIRS.len() {
        "/"
    } else {
        DIRS[i as usize]
    }
}

impl Op {
    pub fn describe(&self) -> String {
        match *self {
            Op::Create(f) => format!("open(write,create) {}", FILES[f as usize]),
            Op::CreateNew(f) => format!("open(write,create_new) {}", FILES[f as usize]),
            Op::OpenTrunc(f) => format!("open(write,create,truncate) {}", FILES[f as usize]),
            Op::WriteAt(f, o, d, fr) => format!("{:?} write_at {} off={} {:?}", fr, FILES[f as usize], o, String::from_utf8_lossy(DATA[d as usize])),
            Op::WriteAtSynced(f, o, d) => format!("write_at {} off={} {:?} [background sync coin = yes]", FILES[f as usize], o, String::from_utf8_lossy(DATA[d as usize])),
            Op::Append(f) => format!("open(append) {} write \"q\"", FILES[f as usize]),
            Op::AppendRing(f) => format!("open(append) {} ring write \"q\" at end of file", FILES[f as usize]),
            Op::SetLen(f, n) => format!("set_len {} {}", FILES[f as usize], n),
            Op::ReadAt(f, o, l, fr) => format!("{:?} read_at {} off={} len={}", fr, FILES[f as usize], o, l),
            Op::Cursor(f) => format!("cursor script on {}", FILES[f as usize]),
            Op::AppendCursor(f) => format!("append-mode cursor script on {}", FILES[f as usize]),
            Op::RenameF(a, b) => format!("rename {} -> {}", FILES[a as usize], FILES[b as usize]),
            Op::RenameD(a, b) => format!("rename {} -> {}", DIRS[a as usize], DIRS[b as usize]),
            Op::RemoveFile(f) => format!("remove_file {}", FILES[f as usize]),
            Op::Mkdir(d) => format!("create_dir {}", DIRS[d as usize]),
            Op::MkdirAll(d) => format!("create_dir_all {}", DIRS[d as usize]),
            Op::Rmdir(d) => format!("remove_dir {}", DIRS[d as usize]),
            Op::RmdirAll(d) => format!("remove_dir_all {}", DIRS[d as usize]),
            Op::SyncAll(f, fr) => format!("{:?} sync_all {}", fr, FILES[f as usize]),
            Op::SyncAllRO(f) => format!("sync_all {} through a read-only handle", FILES[f as usize]),
            Op::SyncData(f) => format!("sync_data {}", FILES[f as usize]),
            Op::SyncDir(d) => format!("sync_dir {}", dir_name(d)),
            Op::Advance => "advance time".into(),
            Op::Crash => "CRASH".into(),
            Op::CrashTorn(k) => format!("CRASH (torn-write survival vector #{k})"),
        }
    }
    /// short kind for signatures
    pub fn kind(&self) -> &'static str {
        match self {
            Op::Create(_) => "create",
            Op::CreateNew(_) => "create_new",
            Op::OpenTrunc(_) => "open_trunc",
            Op::WriteAt(..) | Op::WriteAtSynced(..) => "write",
            Op::Append(_) | Op::AppendRing(_) => "append",
            Op::SetLen(..) => "set_len",
            Op::ReadAt(..) => "read_at",
            Op::Cursor(_) => "cursor",
            Op::AppendCursor(_) => "append_cursor",
            Op::RenameF(..) => "rename_file",
            Op::RenameD(..) => "rename_dir",
            Op::RemoveFile(_) => "remove_file",
            Op::Mkdir(_) => "mkdir",
            Op::MkdirAll(_) => "mkdir_all",
            Op::Rmdir(_) => "rmdir",
            Op::RmdirAll(_) => "rmdir_all",
            Op::SyncAll(..) | Op::SyncAllRO(..) => "sync_all",
            Op::SyncData(_) => "sync_data",
            Op::SyncDir(_) => "sync_dir",
            Op::Advance => "advance",
            Op::Crash | Op::CrashTorn(_) => "crash",
        }
    }
    /// paths this op names
    pub fn paths(&self) -> Vec<&'static str> {
        match *self {
            Op::Create(f) | Op::CreateNew(f) | Op::OpenTrunc(f) | Op::Append(f) | Op::AppendRing(f) | Op::SetLen(f, _) | Op::Cursor(f) | Op::AppendCursor(f)
            | Op::RemoveFile(f) | Op::SyncData(f) => vec![FILES[f as usize]],
            Op::WriteAt(f, ..) | Op::WriteAtSynced(f, ..) | Op::ReadAt(f, ..) | Op::SyncAll(f, _) | Op::SyncAllRO(f) => vec![FILES[f as usize]],
            Op::RenameF(a, b) => vec![FILES[a as usize], FILES[b as usize]],
            Op::RenameD(a, b) => vec![DIRS[a as usize], DIRS[b as usize]],
            Op::Mkdir(d) | Op::MkdirAll(d) | Op::Rmdir(d) | Op::RmdirAll(d) => vec![DIRS[d as usize]],
            Op::SyncDir(d) => vec![dir_name(d)],
            Op::Advance | Op::Crash | Op::CrashTorn(_) => vec![],
        }
    }
}

/// implementation result of one op, normalised
#[derive(Clone, Debug, PartialEq, Eq)]
pub enum Res {
    Ok,
    Bytes(Vec<u8>),
    Count(usize),
    Err(String),
}

fn errs(e: &std::io::Error) -> String {
    let msg = e.to_string();
    match e.kind() {
        ErrorKind::NotFound => "NoEnt".into(),
        ErrorKind::AlreadyExists => "Exist".into(),
        ErrorKind::DirectoryNotEmpty => "NotEmpty".into(),
        ErrorKind::IsADirectory => "IsDir".into(),
        ErrorKind::NotADirectory => "NotDir".into(),
        ErrorKind::InvalidInput => "Invalid".into(),
        ErrorKind::PermissionDenied => "Perm".into(),
        _ => {
            if msg.contains("File exists") {
                "Exist".into()
            } else if msg.contains("No such file") {
                "NoEnt".into()
            } else if msg.contains("not empty") {
                "NotEmpty".into()
            } else if msg.contains("Is a directory") {
                "IsDir".into()
            } else if msg.contains("Not a directory") {
                "NotDir".into()
            } else {
                format!("Other({msg})")
            }
        }
    }
}

pub fn class_ok(got: &str, want: Errc) -> bool {
    match want {
        Errc::WrongType => true,
        Errc::NoEnt => got == "NoEnt" || got == "NotDir",
        Errc::Exist => got == "Exist",
        Errc::NotEmpty => got == "NotEmpty",
        Errc::Invalid => true,
    }
}

fn block<T>(fut: impl std::future::Future<Output = T>) -> T {
    // tokio-shim futures complete immediately when no latency is configured
    let mut fut = std::pin::pin!(fut);
    let w = std::task::Waker::noop();
    let mut cx = std::task::Context::from_waker(w);
    match fut.as_mut().poll(&mut cx) {
        std::task::Poll::Ready(v) => v,
        std::task::Poll::Pending => panic!("tokio-shim future did not complete immediately"),
    }
}

/// result of one io_uring entry on the open file `h`: pushed on a fresh ring, submitted, and
/// its completion taken right away
fn uring_one(build: impl FnOnce(turmoil_io_uring::types::Fd) -> turmoil_io_uring::squeue::Entry, h: &sfs::File) -> Result<i32, Res> {
    use std::os::fd::AsRawFd;
    use turmoil_io_uring::{host, IoUring};
    let iou = std::sync::Arc::new(std::sync::Mutex::new(host::IoUringHostState::new()));
    // the ring compares deadlines (taken from the filesystem clock) with its own clock: far ahead
    let _g = host::enter(&iou, host::EnterCtx { now: std::time::Duration::from_secs(1 << 40) });
    let mut ring = IoUring::new(2).map_err(|e| Res::Err(format!("Other(ring: {e})")))?;
    let entry = build(turmoil_io_uring::types::Fd(h.as_raw_fd())).user_data(7);
    unsafe {
        ring.submission().push(&entry).map_err(|_| Res::Err("Other(push failed)".into()))?;
    }
    ring.submit().map_err(|e| Res::Err(format!("Other(submit: {e})")))?;
    let mut cq = ring.completion();
    cq.sync();
    match cq.next() {
        Some(e) if e.user_data() == 7 => Ok(e.result()),
        Some(e) => Err(Res::Err(format!("Other(foreign CQE {})", e.user_data()))),
        None => Err(Res::Err("Other(no completion although no latency is configured)".into())),
    }
}

fn uring_errno(n: i32) -> Res {
    Res::Err(match -n {
        2 => "NoEnt".into(),
        9 => "Other(EBADF)".into(),
        21 => "IsDir".into(),
        22 => "Invalid".into(),
        e => format!("Other(errno {e})"),
    })
}

fn r<T>(x: std::io::Result<T>) -> Result<T, Res> {
    x.map_err(|e| Res::Err(errs(&e)))
}

thread_local! {
    /// every operation that exists in the tokio shim goes through it (opens with all their
    /// option combinations, path operations, positional I/O, syncs); the observation sweep
    /// stays on the std shim
    static ALL_TOKIO: std::cell::Cell<bool> = const { std::cell::Cell::new(false) };
}

pub fn set_all_tokio(on: bool) {
    ALL_TOKIO.with(|t| t.set(on));
}

fn exec_tokio(op: Op) -> Option<Result<Res, Res>> {
    use tokio::io::AsyncWrite;
    let go = || -> Result<Res, Res> {
        Ok(match op {
            Op::Create(f) => {
                r(block(tfs::OpenOptions::new().write(true).create(true).open(FILES[f as usize])))?;
                Res::Ok
            }
            Op::CreateNew(f) => {
                r(block(tfs::OpenOptions::new().write(true).create_new(true).open(FILES[f as usize])))?;
                Res::Ok
            }
            Op::OpenTrunc(f) => {
                r(block(tfs::OpenOptions::new().write(true).create(true).truncate(true).open(FILES[f as usize])))?;
                Res::Ok
            }
            Op::WriteAt(f, o, d, Front::Std) => {
                let h = r(block(tfs::OpenOptions::new().write(true).open(FILES[f as usize])))?;
                Res::Count(r(block(h.write_at(DATA[d as usize], o as u64)))?)
            }
            Op::Append(f) => {
                let mut h = r(block(tfs::OpenOptions::new().append(true).open(FILES[f as usize])))?;
                let w = std::task::Waker::noop();
                let mut cx = std::task::Context::from_waker(w);
                match std::pin::Pin::new(&mut h).poll_write(&mut cx, b"q") {
                    std::task::Poll::Ready(x) => Res::Count(r(x)?),
                    std::task::Poll::Pending => panic!("tokio-shim write did not complete immediately"),
                }
            }
            Op::SetLen(f, n) => {
                let h = r(block(tfs::OpenOptions::new().write(true).open(FILES[f as usize])))?;
                r(block(h.set_len(n as u64)))?;
                Res::Ok
            }
            Op::ReadAt(f, o, l, Front::Std) => {
                let h = r(block(tfs::File::open(FILES[f as usize])))?;
                let mut buf = vec![0xEEu8; l as usize];
                let n = r(block(h.read_at(&mut buf, o as u64)))?;
                Res::Bytes(buf[..n].to_vec())
            }
            Op::RenameF(a, b) => {
                r(block(tfs::rename(FILES[a as usize], FILES[b as usize])))?;
                Res::Ok
            }
            Op::RenameD(a, b) => {
                r(block(tfs::rename(DIRS[a as usize], DIRS[b as usize])))?;
                Res::Ok
            }
            Op::RemoveFile(f) => {
                r(block(tfs::remove_file(FILES[f as usize])))?;
                Res::Ok
            }
            Op::Mkdir(d) => {
                r(block(tfs::create_dir(DIRS[d as usize])))?;
                Res::Ok
            }
            Op::MkdirAll(d) => {
                r(block(tfs::create_dir_all(DIRS[d as usize])))?;
                Res::Ok
            }
            Op::Rmdir(d) => {
                r(block(tfs::remove_dir(DIRS[d as usize])))?;
                Res::Ok
            }
            Op::RmdirAll(d) => {
                r(block(tfs::remove_dir_all(DIRS[d as usize])))?;
                Res::Ok
            }
            Op::SyncAll(f, Front::Std) => {
                let h = r(block(tfs::OpenOptions::new().write(true).open(FILES[f as usize])))?;
                r(block(h.sync_all()))?;
                Res::Ok
            }
            Op::SyncAllRO(f) => {
                let h = r(block(tfs::File::open(FILES[f as usize])))?;
                r(block(h.sync_all()))?;
                Res::Ok
            }
            Op::SyncData(f) => {
                let h = r(block(tfs::OpenOptions::new().write(true).open(FILES[f as usize])))?;
                r(block(h.sync_data()))?;
                Res::Ok
            }
            Op::SyncDir(d) => {
                r(block(tfs::sync_dir(dir_name(d))))?;
                Res::Ok
            }
            _ => return Err(Res::Err("\u{0}not-a-tokio-letter".into())),
        })
    };
    match go() {
        Err(Res::Err(e)) if e == "\u{0}not-a-tokio-letter" => None,
        x => Some(x),
    }
}

/// Execute on the implementation (an `Fs` must be entered).
pub fn exec_impl(op: Op) -> Res {
    if ALL_TOKIO.with(|t| t.get()) {
        if let Some(x) = exec_tokio(op) {
            return match x {
                Ok(x) => x,
                Err(e) => e,
            };
        }
    }
    let go = || -> Result<Res, Res> {
        Ok(match op {
            Op::Create(f) => {
                r(sfs::OpenOptions::new().write(true).create(true).open(FILES[f as usize]))?;
                Res::Ok
            }
            Op::CreateNew(f) => {
                r(sfs::OpenOptions::new().write(true).create_new(true).open(FILES[f as usize]))?;
                Res::Ok
            }
            Op::OpenTrunc(f) => {
                r(sfs::OpenOptions::new().write(true).create(true).truncate(true).open(FILES[f as usize]))?;
                Res::Ok
            }
            Op::WriteAt(f, o, d, Front::Std) | Op::WriteAtSynced(f, o, d) => {
                let h = r(sfs::OpenOptions::new().write(true).open(FILES[f as usize]))?;
                Res::Count(r(h.write_at(DATA[d as usize], o as u64))?)
            }
            Op::WriteAt(f, o, d, Front::Tokio) => {
                let h = r(block(tfs::OpenOptions::new().write(true).open(FILES[f as usize])))?;
                Res::Count(r(block(h.write_at(DATA[d as usize], o as u64)))?)
            }
            Op::WriteAt(f, o, d, Front::Uring) => {
                let h = r(sfs::OpenOptions::new().write(true).open(FILES[f as usize]))?;
                let data = DATA[d as usize];
                let n = uring_one(|fd| turmoil_io_uring::opcode::Write::new(fd, data.as_ptr(), data.len() as u32).offset(o as u64).build(), &h)?;
                if n < 0 {
                    return Err(uring_errno(n));
                }
                Res::Count(n as usize)
            }
            Op::Append(f) => {
                let mut h = r(sfs::OpenOptions::new().append(true).open(FILES[f as usize]))?;
                Res::Count(r(h.write(b"q"))?)
            }
            Op::AppendRing(f) => {
                let h = r(sfs::OpenOptions::new().append(true).open(FILES[f as usize]))?;
                let end = r(h.metadata())?.len();
                let data = b"q";
                let n = uring_one(|fd| turmoil_io_uring::opcode::Write::new(fd, data.as_ptr(), 1).offset(end).build(), &h)?;
                if n < 0 {
                    return Err(uring_errno(n));
                }
                Res::Count(n as usize)
            }
            Op::SetLen(f, n) => {
                let h = r(sfs::OpenOptions::new().write(true).open(FILES[f as usize]))?;
                r(h.set_len(n as u64))?;
                Res::Ok
            }
            Op::ReadAt(f, o, l, Front::Std) => {
                let h = r(sfs::File::open(FILES[f as usize]))?;
                let mut buf = vec![0xEEu8; l as usize];
                let n = r(h.read_at(&mut buf, o as u64))?;
                Res::Bytes(buf[..n].to_vec())
            }
            Op::ReadAt(f, o, l, Front::Tokio) => {
                let h = r(block(tfs::File::open(FILES[f as usize])))?;
                let mut buf = vec![0xEEu8; l as usize];
                let n = r(block(h.read_at(&mut buf, o as u64)))?;
                Res::Bytes(buf[..n].to_vec())
            }
            Op::ReadAt(f, o, l, Front::Uring) => {
                let h = r(sfs::File::open(FILES[f as usize]))?;
                let mut buf = vec![0xEEu8; l as usize];
                let ptr = buf.as_mut_ptr();
                let n = uring_one(|fd| turmoil_io_uring::opcode::Read::new(fd, ptr, l as u32).offset(o as u64).build(), &h)?;
                if n < 0 {
                    return Err(uring_errno(n));
                }
                Res::Bytes(buf[..n as usize].to_vec())
            }
            Op::Cursor(f) => {
                let mut h = r(sfs::OpenOptions::new().read(true).write(true).create(true).open(FILES[f as usize]))?;
                let mut log = vec![];
                log.push(r(h.write(DATA[0]))? as u8);
                log.push(r(h.seek(SeekFrom::Start(1)))? as u8);
                let mut b2 = [0u8; 2];
                let n = r(h.read(&mut b2))?;
                log.push(n as u8);
                log.extend_from_slice(&b2[..n]);
                log.push(r(h.seek(SeekFrom::End(-1)))? as u8);
                log.push(r(h.write(b"Z"))? as u8);
                log.push(r(h.seek(SeekFrom::Current(-2)))? as u8);
                let mut b4 = [0u8; 4];
                let n = r(h.read(&mut b4))?;
                log.push(n as u8);
                log.extend_from_slice(&b4[..n]);
                // shrinking below the cursor does not move it: the next write leaves a hole
                r(h.set_len(1))?;
                log.push(r(h.stream_position())? as u8);
                log.push(r(h.write(b"w"))? as u8);
                log.push(r(h.stream_position())? as u8);
                Res::Bytes(log)
            }
            Op::AppendCursor(f) => {
                let mut h = r(sfs::OpenOptions::new().read(true).append(true).open(FILES[f as usize]))?;
                let mut log = vec![];
                log.push(r(h.write(b"q"))? as u8);
                log.push(r(h.stream_position())? as u8);
                let mut b2 = [0u8; 2];
                log.push(r(h.read(&mut b2))? as u8);
                log.push(r(h.seek(SeekFrom::Start(0)))? as u8);
                let mut b1 = [0u8; 1];
                let n = r(h.read(&mut b1))?;
                log.push(n as u8);
                log.extend_from_slice(&b1[..n]);
                log.push(r(h.write(b"q"))? as u8);
                log.push(r(h.stream_position())? as u8);
                Res::Bytes(log)
            }
            Op::RenameF(a, b) => {
                r(sfs::rename(FILES[a as usize], FILES[b as usize]))?;
                Res::Ok
            }
            Op::RenameD(a, b) => {
                r(sfs::rename(DIRS[a as usize], DIRS[b as usize]))?;
                Res::Ok
            }
            Op::RemoveFile(f) => {
                r(sfs::remove_file(FILES[f as usize]))?;
                Res::Ok
            }
            Op::Mkdir(d) => {
                r(sfs::create_dir(DIRS[d as usize]))?;
                Res::Ok
            }
            Op::MkdirAll(d) => {
                r(sfs::create_dir_all(DIRS[d as usize]))?;
                Res::Ok
            }
            Op::Rmdir(d) => {
                r(sfs::remove_dir(DIRS[d as usize]))?;
                Res::Ok
            }
            Op::RmdirAll(d) => {
                r(sfs::remove_dir_all(DIRS[d as usize]))?;
                Res::Ok
            }
            Op::SyncAll(f, Front::Std) => {
                let h = r(sfs::OpenOptions::new().write(true).open(FILES[f as usize]))?;
                r(h.sync_all())?;
                Res::Ok
            }
            Op::SyncAllRO(f) => {
                let h = r(sfs::File::open(FILES[f as usize]))?;
                r(h.sync_all())?;
                Res::Ok
            }
            Op::SyncAll(f, Front::Tokio) => {
                let h = r(block(tfs::OpenOptions::new().write(true).open(FILES[f as usize])))?;
                r(block(h.sync_all()))?;
                Res::Ok
            }
            Op::SyncAll(f, Front::Uring) => {
                let h = r(sfs::OpenOptions::new().write(true).open(FILES[f as usize]))?;
                let n = uring_one(|fd| turmoil_io_uring::opcode::Fsync::new(fd).build(), &h)?;
                if n < 0 {
                    return Err(uring_errno(n));
                }
                Res::Ok
            }
            Op::SyncData(f) => {
                let h = r(sfs::OpenOptions::new().write(true).open(FILES[f as usize]))?;
                r(h.sync_data())?;
                Res::Ok
            }
            Op::SyncDir(d) => {
                r(sfs::sync_dir(dir_name(d)))?;
                Res::Ok
            }
            Op::Advance | Op::Crash | Op::CrashTorn(_) => Res::Ok,
        })
    };
    match go() {
        Ok(x) => x,
        Err(e) => e,
    }
}

/// Execute on the reference model. Err(class) on failure.
pub fn exec_model(m: &mut Model, op: Op) -> Result<Res, Errc> {
    Ok(match op {
        Op::Create(f) => {
            m.open_create(FILES[f as usize], true, false, false)?;
            Res::Ok
        }
        Op::CreateNew(f) => {
            m.open_create(FILES[f as usize], false, true, false)?;
            Res::Ok
        }
        Op::OpenTrunc(f) => {
            m.open_create(FILES[f as usize], true, false, true)?;
            Res::Ok
        }
        Op::WriteAt(f, o, d, _) => Res::Count(m.write_at(FILES[f as usize], o as u64, DATA[d as usize])?),
        Op::WriteAtSynced(f, o, d) => {
            let n = m.write_at(FILES[f as usize], o as u64, DATA[d as usize])?;
            m.sync_file(FILES[f as usize])?;
            Res::Count(n)
        }
        Op::Append(f) | Op::AppendRing(f) => Res::Count(m.append(FILES[f as usize], b"q")?),
        Op::SetLen(f, n) => {
            m.set_len(FILES[f as usize], n as u64)?;
            Res::Ok
        }
        Op::ReadAt(f, o, l, _) => Res::Bytes(m.read_at(FILES[f as usize], o as u64, l as usize)?),
        Op::Cursor(f) => {
            let p = FILES[f as usize];
            m.open_create(p, true, false, false)?;
            let mut log = vec![];
            let mut cur: u64 = 0;
            log.push(m.write_at(p, cur, DATA[0])? as u8);
            cur += 2;
            cur = 1;
            log.push(cur as u8);
            let b = m.read_at(p, cur, 2)?;
            cur += b.len() as u64;
            log.push(b.len() as u8);
            log.extend_from_slice(&b);
            let len = m.content(p).unwrap().len() as u64;
            cur = len - 1;
            log.push(cur as u8);
            log.push(m.write_at(p, cur, b"Z")? as u8);
            cur += 1;
            cur -= 2;
            log.push(cur as u8);
            let b = m.read_at(p, cur, 4)?;
            cur += b.len() as u64;
            log.push(b.len() as u8);
            log.extend_from_slice(&b);
            m.set_len(p, 1)?;
            log.push(cur as u8);
            log.push(m.write_at(p, cur, b"w")? as u8);
            cur += 1;
            log.push(cur as u8);
            Res::Bytes(log)
        }
        Op::AppendCursor(f) => {
            let p = FILES[f as usize];
            let mut log = vec![];
            log.push(m.append(p, b"q")? as u8);
            let len = m.content(p).unwrap().len() as u64;
            log.push(len as u8); // O_APPEND leaves the offset at the new end of file
            log.push(0); // read at EOF
            log.push(0); // seek(Start 0)
            let b = m.read_at(p, 0, 1)?;
            log.push(b.len() as u8);
            log.extend_from_slice(&b);
            log.push(m.append(p, b"q")? as u8);
            log.push(m.content(p).unwrap().len() as u8);
            Res::Bytes(log)
        }
        Op::RenameF(a, b) => {
            m.rename(FILES[a as usize], FILES[b as usize])?;
            Res::Ok
        }
        Op::RenameD(a, b) => {
            m.rename(DIRS[a as usize], DIRS[b as usize])?;
            Res::Ok
        }
        Op::RemoveFile(f) => {
            m.remove_file(FILES[f as usize])?;
            Res::Ok
        }
        Op::Mkdir(d) => {
            m.mkdir(DIRS[d as usize])?;
            Res::Ok
        }
        Op::MkdirAll(d) => {
            m.mkdir_all(DIRS[d as usize])?;
            Res::Ok
        }
        Op::Rmdir(d) => {
            m.rmdir(DIRS[d as usize])?;
            Res::Ok
        }
        Op::RmdirAll(d) => {
            m.rmdir_all(DIRS[d as usize])?;
            Res::Ok
        }
        Op::SyncAll(f, _) | Op::SyncData(f) | Op::SyncAllRO(f) => {
            m.sync_file(FILES[f as usize])?;
            Res::Ok
        }
        Op::SyncDir(d) => {
            m.sync_dir(dir_name(d))?;
            Res::Ok
        }
        Op::Advance | Op::Crash | Op::CrashTorn(_) => Res::Ok,
    })
}

/// One line per path of the universe describing what the public API shows.
#[derive(Clone, Debug, PartialEq, Eq, Hash)]
pub struct PathObs {
    pub path: &'static str,
    pub exists: bool,
    pub kind: &'static str,
    pub len: u64,
    pub content: Vec<u8>,
    pub entries: BTreeSet<String>,
}

pub fn observe_impl(skip: &dyn Fn(&str) -> bool) -> Vec<PathObs> {
    let mut out = vec![];
    for p in FILES.iter().chain(DIRS.iter()).chain(["/"].iter()) {
        if skip(p) {
            continue;
        }
        let exists = sfs::exists(p);
        let md = sfs::metadata(p);
        let (kind, len) = match &md {
            Ok(m) if m.is_dir() => ("dir", 0),
            Ok(m) if m.is_file() => ("file", m.len()),
            Ok(_) => ("other", 0),
            Err(_) => ("none", 0),
        };
        let content = if kind == "file" { sfs::read(p).unwrap_or_else(|_| b"<read error>".to_vec()) } else { vec![] };
        let mut entries = BTreeSet::new();
        if kind == "dir" {
            match sfs::read_dir(p) {
                Ok(rd) => {
                    for e in rd {
                        match e {
                            Ok(e) => {
                                let name = e.path().to_string_lossy().to_string();
                                if !entries.insert(name.clone()) {
                                    // a listing is a set of names: a repeated name is an observable defect
                                    entries.insert(format!("<duplicate entry {name}>"));
                                }
                            }
                            Err(_) => {
                                entries.insert("<entry error>".into());
                            }
                        }
                    }
                }
                Err(_) => {
                    entries.insert("<read_dir error>".into());
                }
            }
        }
        out.push(PathObs { path: p, exists, kind, len, content, entries });
    }
    out
}

pub fn observe_model(m: &Model, skip: &dyn Fn(&str) -> bool) -> Vec<PathObs> {
    let mut out = vec![];
    for p in FILES.iter().chain(DIRS.iter()).chain(["/"].iter()) {
        if skip(p) {
            continue;
        }
        let (kind, len, content) = if m.is_dir(p) {
            ("dir", 0, vec![])
        } else if let Some(c) = m.content(p) {
            ("file", c.len() as u64, c.clone())
        } else {
            ("none", 0, vec![])
        };
        let entries = if kind == "dir" { m.children(p) } else { BTreeSet::new() };
        out.push(PathObs { path: p, exists: kind != "none", kind, len, content, entries });
    }
    out
}
