fn main() { eprintln!("not built yet"); std::process::exit(2); }
