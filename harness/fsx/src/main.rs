//! vx-fsx: engine D — turmoil-fs (std shim, tokio shim) and turmoil-io-uring entered
//! directly with harness-owned time and rng.

mod fsys;
mod model;
mod ops;
mod simlayer;
mod uringsim;
mod uring;

use std::time::Duration;

use fsys::{FsCfg, FsSys, Prop};
use ops::{Front, Op};
use serde_json::json;
use vx_core::report::{Report, Tier};
use vx_core::{explore_bfs, BfsConfig, System};

fn c10_letters(tier: Tier) -> Vec<Op> {
    use Front::*;
    let mut v = vec![
        Op::Mkdir(0),
        Op::Mkdir(1),
        Op::Rmdir(0),
        Op::RmdirAll(0),
        Op::MkdirAll(2),
        Op::Create(0),
        Op::Create(1),
        Op::CreateNew(0),
        Op::OpenTrunc(0),
        Op::WriteAt(0, 0, 0, Std),
        Op::WriteAt(0, 2, 1, Std),
        Op::WriteAt(1, 0, 0, Std),
        Op::WriteAt(0, 0, 1, Tokio),
        Op::Append(0),
        Op::AppendRing(0),
        Op::SetLen(0, 0),
        Op::SetLen(0, 1),
        Op::SetLen(0, 4),
        Op::RenameF(0, 1),
        Op::RenameF(1, 0),
        Op::RenameF(0, 3),
        Op::RemoveFile(0),
        Op::RemoveFile(1),
        Op::SyncAll(0, Std),
        Op::SyncAll(0, Tokio),
        Op::SyncAllRO(0),
        Op::SyncData(0),
        Op::SyncDir(3),
        Op::SyncDir(0),
        Op::ReadAt(0, 1, 4, Std),
        Op::ReadAt(0, 0, 1, Tokio),
        Op::Cursor(0),
        Op::AppendCursor(0),
        Op::RenameF(1, 3),
        Op::RenameF(3, 0),
        Op::RenameF(0, 0),
        Op::WriteAt(0, 1, 1, Uring),
        Op::WriteAt(0, 3, 2, Uring),
        Op::ReadAt(0, 0, 4, Uring),
        Op::Advance,
    ];
    if tier == Tier::Thorough {
        v.extend([
            Op::Create(2),
            Op::WriteAt(2, 2, 0, Std),
            Op::RenameF(1, 2),
            Op::RemoveFile(2),
            Op::Mkdir(2),
            Op::Rmdir(1),
            Op::RmdirAll(1),
            Op::SyncAll(1, Std),
            Op::SyncDir(1),
            Op::Cursor(1),
        ]);
    }
    v
}

fn c07_letters(tier: Tier) -> Vec<Op> {
    use Front::*;
    let mut v = vec![
        Op::Mkdir(0),
        Op::Create(0),
        Op::Create(1),
        Op::CreateNew(0),
        Op::OpenTrunc(0),
        Op::WriteAt(0, 0, 0, Std),
        Op::WriteAt(0, 2, 1, Std),
        Op::WriteAt(1, 0, 0, Std),
        Op::WriteAt(0, 0, 1, Tokio),
        Op::Append(0),
        Op::SetLen(0, 1),
        Op::SetLen(0, 4),
        Op::RenameF(0, 1),
        Op::RenameF(1, 0),
        Op::RemoveFile(0),
        Op::RemoveFile(1),
        Op::Rmdir(0),
        Op::SyncAll(0, Std),
        Op::SyncAll(1, Std),
        Op::SyncAll(0, Tokio),
        Op::SyncAllRO(0),
        Op::SyncData(0),
        Op::SyncDir(3),
        Op::SyncDir(0),
        Op::Crash,
    ];
    if tier == Tier::Thorough {
        v.extend([Op::Mkdir(1), Op::RenameF(0, 3), Op::SyncDir(1), Op::Create(2), Op::RenameF(1, 2), Op::SyncAll(2, Std)]);
    }
    v
}

fn run_fs(rep: &mut Report, cfgs: Vec<FsCfg>, wall: Duration, cap: usize) {
    for c in cfgs {
        let mut b = BfsConfig::new(&c.name);
        b.scenario = c.describe();
        b.bounds = c.describe();
        b.wall = wall;
        b.max_states = cap;
        b.max_depth = c.depth + 1;
        b.max_violations = 300_000;
        let st = explore_bfs::<FsSys>(&b, &c);
        for s in st.samples.iter().take(1) {
            rep.sample(json!({"config": c.name, "history": s}));
        }
        rep.violations.extend(st.violations);
        rep.add_part(st.part);
    }
}

fn configs(prop: &str, tier: Tier) -> Vec<FsCfg> {
    match prop {
        "C10" => vec![
            FsCfg {
                name: "posix-tree".into(),
                prop: Prop::C10,
                letters: c10_letters(tier),
                depth: tier.pick(5, 6),
                sync_prob: 0.0,
                block: None,
                prelude: vec![],
            },
            // the same histories with every operation that exists in the tokio shim going through
            // it (opens with their option combinations, path operations, positional I/O, syncs)
            FsCfg {
                name: "posix-tree-tokio-front".into(),
                prop: Prop::C10,
                letters: c10_letters(tier),
                depth: tier.pick(4, 5),
                sync_prob: 0.0,
                block: None,
                prelude: vec![],
            },
            // directory renames are a known finding (F-FS-3) of the path-keyed tree; they are
            // kept out of the main alphabet (every history containing one diverges) and
            // exercised here so the finding stays visible
            FsCfg {
                name: "dir-rename".into(),
                prop: Prop::C10,
                letters: vec![Op::Mkdir(0), Op::Mkdir(1), Op::Create(1), Op::RenameD(0, 1), Op::RenameD(1, 0), Op::SyncDir(3), Op::SyncDir(0)],
                depth: 3,
                sync_prob: 0.0,
                block: None,
                prelude: vec![],
            },
        ],
        "C07" => {
            let mut v = vec![
                FsCfg { name: "durable".into(), prop: Prop::C07, letters: c07_letters(tier), depth: tier.pick(6, 7), sync_prob: 0.0, block: None, prelude: vec![] },
                FsCfg {
                    name: "durable-torn-b1".into(),
                    prop: Prop::C07,
                    letters: vec![
                        Op::Create(0),
                        Op::WriteAt(0, 0, 0, Front::Std),
                        Op::WriteAt(0, 2, 1, Front::Std),
                        Op::SetLen(0, 1),
                        Op::SyncAll(0, Front::Std),
                        Op::SyncDir(3),
                        Op::RemoveFile(0),
                        Op::Crash,
                    ],
                    depth: tier.pick(7, 8),
                    sync_prob: 0.0,
                    block: Some(1),
                    prelude: vec![],
                },
                FsCfg {
                    name: "durable-bgsync".into(),
                    prop: Prop::C07,
                    letters: vec![
                        Op::Create(0),
                        Op::WriteAt(0, 0, 0, Front::Std),
                        Op::WriteAtSynced(0, 2, 1),
                        Op::WriteAtSynced(0, 0, 1),
                        Op::SetLen(0, 1),
                        Op::SyncDir(3),
                        Op::RemoveFile(0),
                        Op::Crash,
                    ],
                    depth: tier.pick(6, 7),
                    sync_prob: 0.5,
                    block: None,
                    prelude: vec![],
                },
            ];
            // rename onto a name that is already durable (the write-new / fsync / rename-over idiom)
            v.push(FsCfg {
                name: "durable-replace".into(),
                prop: Prop::C07,
                letters: vec![
                    Op::Create(0),
                    Op::WriteAt(0, 0, 0, Front::Std),
                    Op::SyncAll(0, Front::Std),
                    Op::SyncDir(3),
                    Op::RenameF(0, 4),
                    Op::SyncAll(4, Front::Std),
                    Op::Crash,
                ],
                depth: tier.pick(7, 8),
                sync_prob: 0.0,
                block: None,
                // /b exists durably with contents "Z"
                prelude: vec![Op::Create(4), Op::WriteAt(4, 0, 1, Front::Std), Op::SyncAll(4, Front::Std), Op::SyncDir(3)],
            });
            // a fully durable file is moved to another directory; only some of the two parents
            // are synced before the crash
            v.push(FsCfg {
                name: "durable-cross-directory-move".into(),
                prop: Prop::C07,
                letters: vec![Op::RenameF(1, 3), Op::SyncDir(0), Op::SyncDir(1), Op::SyncAll(3, Front::Std), Op::WriteAt(3, 0, 1, Front::Std), Op::Crash],
                depth: tier.pick(5, 6),
                sync_prob: 0.0,
                block: None,
                // /d and /e exist durably, /d/a holds "xy" with data and entry synced
                prelude: vec![
                    Op::Mkdir(0),
                    Op::Mkdir(1),
                    Op::SyncDir(3),
                    Op::Create(1),
                    Op::WriteAt(1, 0, 0, Front::Std),
                    Op::SyncAll(1, Front::Std),
                    Op::SyncDir(0),
                    Op::SyncDir(1),
                ],
            });
            // resizes in both directions around data syncs (shrink-then-grow must zero the gap)
            v.push(FsCfg {
                name: "durable-resize".into(),
                prop: Prop::C07,
                letters: vec![
                    Op::Create(0),
                    Op::WriteAt(0, 0, 0, Front::Std),
                    Op::SetLen(0, 1),
                    Op::SetLen(0, 4),
                    Op::OpenTrunc(0),
                    Op::SyncAll(0, Front::Std),
                    Op::SyncData(0),
                    Op::SyncDir(3),
                    Op::Crash,
                ],
                depth: tier.pick(8, 9),
                sync_prob: 0.0,
                block: None,
                prelude: vec![],
            });
            // the write-temp / fsync / rename / fsync-dir publish idiom in one directory
            v.push(FsCfg {
                name: "durable-publish".into(),
                prop: Prop::C07,
                letters: vec![
                    Op::Create(0),
                    Op::WriteAt(0, 0, 0, Front::Std),
                    Op::SyncAll(0, Front::Std),
                    Op::SyncDir(3),
                    Op::RenameF(0, 4),
                    Op::RemoveFile(4),
                    Op::Crash,
                ],
                depth: tier.pick(8, 9),
                sync_prob: 0.0,
                block: None,
                prelude: vec![],
            });
            if tier == Tier::Thorough {
                v.push(FsCfg {
                    name: "durable-torn-b2".into(),
                    prop: Prop::C07,
                    letters: vec![
                        Op::Create(0),
                        Op::WriteAt(0, 0, 0, Front::Std),
                        Op::WriteAt(0, 2, 0, Front::Std),
                        Op::WriteAt(0, 1, 1, Front::Std),
                        Op::SyncAll(0, Front::Std),
                        Op::SyncDir(3),
                        Op::Crash,
                    ],
                    depth: 7,
                    sync_prob: 0.0,
                    block: Some(2),
                    prelude: vec![],
                });
            }
            v
        }
        _ => vec![],
    }
}

fn c18_configs(tier: Tier) -> Vec<uring::UCfg> {
    use uring::*;
    let mut v = vec![
        UCfg {
            name: "one-ring-d2".into(),
            rings: 1,
            depth_ring: 2,
            latency_us: 1000,
            depth: tier.pick(7, 9),
            page_cache: false,
            capacity: None,
            odirect: false,
            letters: vec![
                A_READ0, A_READ2, A_WRITE0, A_WRITE3, A_FSYNC, A_CANCEL_LAST, A_CANCEL_UNKNOWN, A_BADFLAG, A_BADFLAG_ASYNC, A_READ_DUP, A_SUBMIT0,
                A_ADV_HALF, A_ADV_FULL, A_DRAIN0, A_DRAIN_ONE0, A_CLOSE, A_CRASH,
            ],
        },
        UCfg {
            name: "two-rings-crash".into(),
            rings: 2,
            depth_ring: 1,
            latency_us: 1000,
            depth: tier.pick(7, 9),
            page_cache: false,
            capacity: None,
            odirect: false,
            letters: vec![A_WRITE0, A_READ0, A_R1_WRITE1, A_R1_READ0, A_SUBMIT0, A_SUBMIT1, A_ADV_FULL, A_DRAIN0, A_DRAIN1, A_CRASH],
        },
        UCfg {
            name: "latency-with-page-cache".into(),
            rings: 1,
            depth_ring: 4,
            latency_us: 1000,
            depth: tier.pick(6, 8),
            page_cache: true,
            capacity: None,
            odirect: false,
            letters: vec![A_READ0, A_WRITE0, A_WRITE3, A_FSYNC, A_CANCEL_LAST, A_CANCEL_DONE, A_SUBMIT0, A_ADV_HALF, A_ADV_FULL, A_DRAIN0, A_DRAIN_ONE0, A_CLOSE],
        },
    ];
    // a capacity limit: writes past end-of-file are charged for the hole they leave, exactly
    // as the synchronous write_at charges them
    v.push(UCfg {
        name: "capacity-8-bytes".into(),
        rings: 1,
        depth_ring: 4,
        latency_us: 1000,
        depth: tier.pick(7, 9),
        page_cache: false,
        capacity: Some(8),
        odirect: false,
        letters: vec![A_WRITE0, A_WRITE3, A_WRITE_HOLE, A_READ0, A_FSYNC, A_SUBMIT0, A_ADV_FULL, A_DRAIN0, A_DRAIN_ONE0, A_CRASH],
    });
    // rings opened and dropped while a younger ring is in use
    v.push(UCfg {
        name: "two-rings-churn".into(),
        rings: 2,
        depth_ring: 2,
        latency_us: 1000,
        depth: tier.pick(7, 9),
        page_cache: false,
        capacity: None,
        odirect: false,
        letters: vec![A_WRITE0, A_R1_WRITE1, A_R1_READ0, A_SUBMIT0, A_SUBMIT1, A_ADV_FULL, A_DRAIN0, A_DRAIN1, A_CHURN0],
    });
    // the ring works on a handle opened without write (without read) access: what the
    // synchronous API refuses on that handle the ring must refuse as well
    for (name, letters) in [
        ("read-only-handle", vec![A_WRITE0, A_READ0, A_FSYNC, A_SUBMIT0, A_ADV_FULL, A_DRAIN0, A_DRAIN_ONE0, A_CRASH]),
        ("write-only-handle", vec![A_WRITE0, A_READ0, A_FSYNC, A_SUBMIT0, A_ADV_FULL, A_DRAIN0, A_DRAIN_ONE0, A_CRASH]),
    ] {
        v.push(UCfg { name: name.into(), rings: 1, depth_ring: 4, latency_us: 1000, depth: tier.pick(6, 7), page_cache: false, capacity: None, odirect: false, letters });
    }
    // O_DIRECT with a page cache configured: every read pays the full latency, hit or not
    v.push(UCfg {
        name: "odirect-with-page-cache".into(),
        rings: 1,
        depth_ring: 4,
        latency_us: 1000,
        depth: tier.pick(7, 8),
        page_cache: true,
        capacity: None,
        odirect: true,
        letters: vec![A_READ0, A_READ2, A_WRITE0, A_SUBMIT0, A_ADV_HALF, A_ADV_FULL, A_DRAIN0, A_DRAIN_ONE0],
    });
    if tier == Tier::Thorough {
        v.push(UCfg {
            name: "one-ring-d4".into(),
            rings: 1,
            depth_ring: 4,
            latency_us: 1000,
            depth: 8,
            page_cache: false,
            capacity: None,
            odirect: false,
            letters: vec![A_READ0, A_WRITE0, A_WRITE3, A_FSYNC, A_CANCEL_LAST, A_READ_DUP, A_SUBMIT0, A_ADV_FULL, A_DRAIN0, A_DRAIN_ONE0],
        });
    }
    v
}

fn main() {
    vx_core::install_quiet_panic_hook();
    let args: Vec<String> = std::env::args().collect();
    if args.len() < 3 {
        eprintln!("usage: vx-fsx <C07|C10|C18> <quick|thorough> | vx-fsx replay <file>");
        std::process::exit(2);
    }
    if let Err(e) = fsys::calibrate() {
        vx_core::machinery_error(&format!("rng seam calibration failed: {e}"));
    }
    if args[1] == "replay" {
        replay(&args[2]);
        return;
    }
    let tier = Tier::parse(&args[2]);
    let (wall, cap) = tier.pick((Duration::from_secs(90), 5_000_000), (Duration::from_secs(900), 60_000_000));
    match args[1].as_str() {
        "C10" => {
            let mut rep = Report::new("C10", tier, "model_checking", "fsx");
            rep.rule = "explicit-state BFS over operation histories (std shim, tokio shim) on a small path universe; after every operation the return value and a full observation sweep (exists, kind, len, contents, read_dir of every path) are compared with a reference in-memory POSIX tree; sync and time letters at every position".into();
            run_fs(&mut rep, configs("C10", tier), wall, cap);
            rep.finish();
        }
        "C07" => {
            let mut rep = Report::new("C07", tier, "fault_enumeration", "fsx");
            rep.rule = "explicit-state BFS over operation histories in which CRASH is a transition enabled in every state (so a crash follows every prefix of every history, and crash-continue-crash cycles occur); post-crash sweep compared with the reference durability image; torn-write survival vectors and background-sync coins are enumerated through the scripted Fs::rng".into();
            run_fs(&mut rep, configs("C07", tier), wall, cap);
            {
                // the same subject through Sim::crash / Sim::bounce in a running simulation
                let mut d = vx_core::DfsConfig::new("through-sim-crash-bounce", 0);
                d.wall = wall;
                let thorough = tier == Tier::Thorough;
                let st = vx_core::explore_dfs(&d, move |ch| simlayer::scenario(ch, thorough));
                rep.violations.extend(st.violations);
                rep.add_part(st.part);
            }
            rep.finish();
        }
        "C18" => {
            let mut rep = Report::new("C18", tier, "model_checking", "fsx");
            rep.rule = "explicit-state BFS over histories of push / submit / advance / drain / cancel / close / crash on one or two simulated rings and one file (Fs and IoUringHostState entered directly, harness-owned time, scripted Fs::rng for the completion shuffle); every CQE is matched against an order-agnostic reference (eligible now, result equal to the synchronous API on the reference file, buffers untouched on error), and a fair suffix checks exactly-once completion and silence after a crash; last part: stateless enumeration through a running Sim (tick x latency x queue depth x batches x drain pattern {readable loop, readable + one CQE, late drain, polling} x in-step submission offset x crash before every step x bounce delay), time measured in steps on the clock the ring uses".into();
            for c in c18_configs(tier) {
                let mut b = BfsConfig::new(&c.name);
                b.scenario = c.describe();
                b.bounds = c.describe();
                b.wall = wall;
                b.max_states = cap;
                b.max_depth = c.depth + 1;
                let st = explore_bfs::<uring::USys>(&b, &c);
                for s in st.samples.iter().take(1) {
                    rep.sample(json!({"config": c.name, "history": s}));
                }
                rep.violations.extend(st.violations);
                rep.add_part(st.part);
            }
            {
                // the same subject through a running Sim: AsyncFd::readable loops, late drains,
                // full-queue pushes, crash between submission and completion, bounce
                let mut d = vx_core::DfsConfig::new("readable-loops-and-crashes-through-sim", 0);
                d.wall = wall;
                let thorough = tier == Tier::Thorough;
                let st = vx_core::explore_dfs(&d, move |ch| uringsim::scenario(ch, thorough));
                rep.violations.extend(st.violations);
                rep.add_part(st.part);
            }
            rep.finish();
        }
        other => vx_core::machinery_error(&format!("vx-fsx does not serve {other}")),
    }
}

fn replay(path: &str) {
    let (prop, scenario, choices) = vx_core::report::load_replay(path);
    if scenario.starts_with("c18-sim") {
        println!("replaying {prop}: {scenario}");
        let mut ch = vx_core::Chooser::from_choices(&choices);
        let e = uringsim::scenario(&mut ch, scenario.contains("tier=thorough"));
        for l in ch.describe() {
            println!("  choice {l}");
        }
        match e.violation {
            Some(v) => {
                for a in &v.actions {
                    println!("  {a}");
                }
                println!("VIOLATION clause={} : {}", v.clause, v.detail);
                std::process::exit(1);
            }
            None => println!("no violation on this execution"),
        }
        return;
    }
    if scenario.starts_with("c07-sim") {
        println!("replaying {prop}: {scenario}");
        let mut ch = vx_core::Chooser::from_choices(&choices);
        let e = simlayer::scenario(&mut ch, scenario.contains("tier=thorough"));
        for l in ch.describe() {
            println!("  choice {l}");
        }
        match e.violation {
            Some(v) => {
                for a in &v.actions {
                    println!("  {a}");
                }
                println!("VIOLATION clause={} : {}", v.clause, v.detail);
                std::process::exit(1);
            }
            None => println!("no violation on this execution"),
        }
        return;
    }
    let name = scenario.split_whitespace().next().unwrap_or("").to_string();
    if prop == "C18" {
        let mut cs = c18_configs(Tier::Thorough);
        cs.extend(c18_configs(Tier::Quick));
        let depth: Option<usize> = scenario.split_whitespace().find_map(|t| t.strip_prefix("history_depth=").and_then(|x| x.parse().ok()));
        let Some(cfg) = cs.into_iter().find(|c| c.name == name && Some(c.depth) == depth) else {
            vx_core::machinery_error(&format!("replay: unknown scenario {name} for {prop}"));
        };
        println!("replaying {prop} {}", cfg.describe());
        let mut s = uring::USys::init(&cfg);
        for (i, &a) in choices.iter().enumerate() {
            println!("--- step {i}: {}", s.describe(a as u16));
            match vx_core::catch(|| s.apply(a as u16)) {
                Ok(Ok(())) => println!("{}", s.trace_state()),
                Ok(Err(v)) => {
                    println!("VIOLATION clause={} : {}", v.clause, v.detail);
                    std::process::exit(1);
                }
                Err(p) => {
                    println!("PANIC {p}");
                    std::process::exit(1);
                }
            }
        }
        println!("--- fair suffix");
        match s.finish().1 {
            Some(v) => {
                println!("VIOLATION clause={} : {}", v.clause, v.detail);
                std::process::exit(1);
            }
            None => println!("no violation on this history"),
        }
        return;
    }
    let mut cs = configs(&prop, Tier::Thorough);
    cs.extend(configs(&prop, Tier::Quick));
    // thorough and quick letter tables differ: pick by letter count recorded in the scenario
    let want_letters: Option<usize> = scenario.split_whitespace().find_map(|t| t.strip_prefix("letters=").and_then(|x| x.parse().ok()));
    let Some(cfg) = cs.into_iter().find(|c| c.name == name && Some(c.letters.len()) == want_letters) else {
        vx_core::machinery_error(&format!("replay: unknown scenario {name} for {prop}"));
    };
    println!("replaying {prop} {}", cfg.describe());
    let mut s = FsSys::init(&cfg);
    for (i, &a) in choices.iter().enumerate() {
        println!("--- step {i}: {}", s.describe(a as u16));
        match vx_core::catch(|| s.apply(a as u16)) {
            Ok(Ok(())) => {}
            Ok(Err(v)) => {
                println!("VIOLATION clause={} sig={}\n  {}", v.clause, v.sig, v.detail);
                std::process::exit(1);
            }
            Err(p) => {
                println!("PANIC {p}");
                std::process::exit(1);
            }
        }
    }
    match s.finish().1 {
        Some(v) => {
            println!("VIOLATION clause={} : {}", v.clause, v.detail);
            std::process::exit(1);
        }
        None => println!("no violation on this history"),
    }
}
