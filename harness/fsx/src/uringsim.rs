//! C18 through a running `Sim`: a host drives one ring with `AsyncFd::readable` loops,
//! one-at-a-time drains, late drains and plain polling, pushes into a full queue, and is
//! crashed at any step between submission and completion, then bounced.
//!
//! Time is measured on the clock the ring itself uses: the host's elapsed time at the start
//! of the step (io_uring deadlines are computed from it and completions mature against it),
//! i.e. in whole steps. An operation submitted in step s with latency L must not be visible
//! before step s + ceil(L / tick), and a `readable()` loop must have delivered it a few steps
//! after that at the latest. Effects happen when a completion is taken from the queue, so
//! the reference file is the recorded CQE sequence applied in order; an fsync completion
//! makes the reference contents of that moment the durable ones.

use std::cell::{Cell, RefCell};
use std::os::fd::{AsRawFd, RawFd};
use std::rc::Rc;
use std::time::Duration;

use turmoil::fs::shim::std::fs;
use turmoil::io_uring::{opcode, types, AsyncFd, IoUring};
use vx_core::dfs::Exec;
use vx_core::{Chooser, Digest, Violation};

const SENTINEL: u8 = 0xEE;
const ECANCELED: i32 = -125;

#[derive(Clone, Copy, Debug, PartialEq, Eq)]
enum Op {
    Write(u64, [u8; 2]),
    Read(u64, u32),
    Fsync,
    /// cancel the operation pushed just before this one
    CancelPrev,
    /// a read carrying IO_LINK, which the simulation rejects at once with -EINVAL
    BadFlag,
}

#[derive(Clone, Copy, Debug, PartialEq, Eq)]
enum Drain {
    /// loop { readable().await; sync; take everything }
    ReadableAll,
    /// loop { readable().await; sync; take one; drop the queue }
    ReadableOne,
    /// sleep well past the latency, then sync and take everything once
    Late,
    /// loop { sync; take everything; sleep one tick }
    Poll,
    /// a second task is parked in readable() on the idle ring before anything is pushed;
    /// it takes everything whenever it is woken
    ParkedReaper,
}

struct RingFd(RawFd);
impl AsRawFd for RingFd {
    fn as_raw_fd(&self) -> RawFd {
        self.0
    }
}

#[derive(Clone, Debug)]
struct Sub {
    ud: u64,
    op: Op,
    batch: usize,
    submit_step: usize,
    buf: usize,
    /// user_data of the operation a cancel targets
    target: Option<u64>,
}

#[derive(Default)]
struct St {
    step_now: usize,
    starts: u32,
    subs: Vec<Sub>,
    /// (user_data, result, step at which it was taken from the queue)
    cqes: Vec<(u64, i32, usize)>,
    /// buffers live here so that they outlive a crashed incarnation
    bufs: Vec<Box<[u8; 8]>>,
    /// contents of /f read through the synchronous API after batch b was drained
    snaps: Vec<(usize, Vec<u8>)>,
    /// what incarnation i found in /f when it started
    found: Vec<(u32, Option<Vec<u8>>)>,
    errors: Vec<String>,
    /// result of the probe operation of a later incarnation: (result, steps it took)
    probe: Option<(i32, usize)>,
    batches_done: usize,
    finished: bool,
}

type S = Rc<RefCell<St>>;

fn batch_menu() -> Vec<Vec<Op>> {
    vec![
        vec![Op::Write(0, *b"XY")],
        vec![Op::Write(0, *b"XY"), Op::Read(2, 2)],
        vec![Op::Write(2, *b"PQ"), Op::Fsync],
        vec![Op::Read(0, 4), Op::CancelPrev],
        vec![Op::Write(0, *b"AB"), Op::Write(2, *b"CD"), Op::Read(4, 2)],
        vec![Op::Fsync],
        vec![Op::BadFlag],
    ]
}

#[allow(clippy::too_many_arguments)]
async fn program(st: S, script: Vec<(Vec<Op>, Drain)>, depth: u32, offset: Duration, tick: Duration, lat: Duration) -> turmoil::Result {
    let inc = {
        let mut g = st.borrow_mut();
        g.starts += 1;
        g.starts
    };
    let found = fs::read("/f").ok();
    st.borrow_mut().found.push((inc, found));
    let patience = tick * 40 + lat * 4;
    if inc > 1 {
        // a later incarnation: a fresh ring must work and must not show anything old
        let file = fs::OpenOptions::new().read(true).write(true).create(true).open("/f")?;
        let mut ring = IoUring::new(2)?;
        let afd = AsyncFd::new(RingFd(ring.as_raw_fd()))?;
        {
            let mut cq = ring.completion();
            cq.sync();
            if let Some(e) = cq.next() {
                st.borrow_mut().errors.push(format!("incarnation {inc}: a new ring delivered CQE user_data={} result={} before anything was submitted", e.user_data(), e.result()));
            }
        }
        let bi = {
            let mut g = st.borrow_mut();
            g.bufs.push(Box::new([SENTINEL; 8]));
            g.bufs.len() - 1
        };
        let ptr = st.borrow_mut().bufs[bi].as_mut_ptr();
        let e = opcode::Read::new(types::Fd(file.as_raw_fd()), ptr, 2).offset(0).build().user_data(9000 + inc as u64);
        unsafe {
            let _ = ring.submission().push(&e);
        }
        let _ = ring.submit();
        let s0 = st.borrow().step_now;
        match tokio::time::timeout(patience, afd.readable()).await {
            Ok(Ok(_)) => {
                let mut cq = ring.completion();
                cq.sync();
                let mut n = 0;
                for e in &mut cq {
                    n += 1;
                    if e.user_data() != 9000 + inc as u64 {
                        st.borrow_mut().errors.push(format!("incarnation {inc}: the new ring delivered CQE user_data={} result={} that was never submitted to it", e.user_data(), e.result()));
                    } else {
                        let now = st.borrow().step_now;
                        st.borrow_mut().probe = Some((e.result(), now - s0));
                    }
                }
                if n == 0 {
                    st.borrow_mut().errors.push(format!("incarnation {inc}: readable() resolved but the queue is empty"));
                }
            }
            Ok(Err(e)) => st.borrow_mut().errors.push(format!("incarnation {inc}: readable() failed: {e}")),
            Err(_) => st.borrow_mut().errors.push(format!("incarnation {inc}: readable() did not resolve although a read is in flight")),
        }
        st.borrow_mut().finished = true;
        return std::future::pending().await;
    }
    {
        use std::os::unix::fs::FileExt;
        let f = fs::OpenOptions::new().read(true).write(true).create(true).open("/f")?;
        f.write_at(b"abcd", 0)?;
        f.sync_all()?;
        fs::sync_dir("/")?;
    }
    let file = fs::OpenOptions::new().read(true).write(true).open("/f")?;
    let fd = types::Fd(file.as_raw_fd());
    let ring = Rc::new(RefCell::new(IoUring::new(depth)?));
    let afd = Rc::new(AsyncFd::new(RingFd(ring.borrow().as_raw_fd()))?);
    let mut next_ud = 100u64;
    for (b, (ops, drain)) in script.into_iter().enumerate() {
        if !offset.is_zero() {
            tokio::time::sleep(offset).await;
        }
        let mut outstanding: Vec<u64> = vec![];
        let mut queued = 0u32;
        let mut prev_ud = None;
        // the parked reaper starts before anything is pushed
        let reaper = if drain == Drain::ParkedReaper {
            let (ring, afd, st, n) = (ring.clone(), afd.clone(), st.clone(), ops.len());
            let h = tokio::task::spawn_local(async move {
                let mut got = 0;
                while got < n {
                    match tokio::time::timeout(patience, afd.readable()).await {
                        Ok(Ok(_)) => {
                            let mut r = ring.borrow_mut();
                            let mut cq = r.completion();
                            cq.sync();
                            let mut k = 0;
                            for e in &mut cq {
                                k += 1;
                                let step = st.borrow().step_now;
                                st.borrow_mut().cqes.push((e.user_data(), e.result(), step));
                            }
                            if k == 0 {
                                st.borrow_mut().errors.push(format!("batch {b}: readable() resolved for the parked reaper but the completion queue is empty after sync"));
                                break;
                            }
                            got += k;
                        }
                        Ok(Err(e)) => {
                            st.borrow_mut().errors.push(format!("batch {b}: readable() failed for the parked reaper: {e}"));
                            break;
                        }
                        Err(_) => {
                            st.borrow_mut().errors.push(format!("batch {b}: the reaper parked in readable() was not woken within {patience:?} although {} completions are due", n - got));
                            break;
                        }
                    }
                }
            });
            // let it park
            tokio::task::yield_now().await;
            Some(h)
        } else {
            None
        };
        for op in ops {
            next_ud += 1;
            let ud = next_ud;
            let bi = {
                let mut g = st.borrow_mut();
                g.bufs.push(Box::new([SENTINEL; 8]));
                g.bufs.len() - 1
            };
            let ptr = st.borrow_mut().bufs[bi].as_mut_ptr();
            let entry = match op {
                Op::Write(off, data) => {
                    st.borrow_mut().bufs[bi][..2].copy_from_slice(&data);
                    opcode::Write::new(fd, ptr as *const u8, 2).offset(off).build()
                }
                Op::Read(off, len) => opcode::Read::new(fd, ptr, len).offset(off).build(),
                Op::Fsync => opcode::Fsync::new(fd).build(),
                Op::CancelPrev => opcode::AsyncCancel::new(prev_ud.unwrap_or(1)).build(),
                Op::BadFlag => opcode::Read::new(fd, ptr, 2).offset(0).build().flags(turmoil::io_uring::squeue::Flags::IO_LINK),
            }
            .user_data(ud);
            let mut pushed = unsafe { ring.borrow_mut().submission().push(&entry).is_ok() };
            let want = queued < depth;
            if pushed != want {
                st.borrow_mut().errors.push(format!("batch {b}: push with {queued} queued entries on a ring of depth {depth} returned ok={pushed}"));
            }
            if !pushed {
                // full queue: submit what is there, then the push must succeed
                let sub = ring.borrow().submit();
                match sub {
                    Ok(n) if n as u32 == queued => {}
                    other => st.borrow_mut().errors.push(format!("batch {b}: submit of {queued} queued entries returned {other:?}")),
                }
                queued = 0;
                pushed = unsafe { ring.borrow_mut().submission().push(&entry).is_ok() };
                if !pushed {
                    st.borrow_mut().errors.push(format!("batch {b}: push into an empty queue failed"));
                    continue;
                }
            }
            queued += 1;
            let step = st.borrow().step_now;
            st.borrow_mut().subs.push(Sub { ud, op, batch: b, submit_step: step, buf: bi, target: if op == Op::CancelPrev { prev_ud } else { None } });
            outstanding.push(ud);
            prev_ud = Some(ud);
        }
        let sub = ring.borrow().submit();
        match sub {
            Ok(n) if n as u32 == queued => {}
            other => st.borrow_mut().errors.push(format!("batch {b}: submit of {queued} queued entries returned {other:?}")),
        }
        // ---- drain
        let take = |ring: &Rc<RefCell<IoUring>>, limit: usize, st: &S, outstanding: &mut Vec<u64>| -> usize {
            let mut ring = ring.borrow_mut();
            let mut cq = ring.completion();
            cq.sync();
            let mut n = 0;
            while n < limit {
                let Some(e) = cq.next() else { break };
                n += 1;
                let step = st.borrow().step_now;
                st.borrow_mut().cqes.push((e.user_data(), e.result(), step));
                if let Some(p) = outstanding.iter().position(|u| *u == e.user_data()) {
                    outstanding.remove(p);
                }
            }
            n
        };
        match drain {
            Drain::ReadableAll | Drain::ReadableOne => {
                let limit = if drain == Drain::ReadableOne { 1 } else { usize::MAX };
                while !outstanding.is_empty() {
                    match tokio::time::timeout(patience, afd.readable()).await {
                        Ok(Ok(_)) => {
                            if take(&ring, limit, &st, &mut outstanding) == 0 {
                                st.borrow_mut().errors.push(format!("batch {b}: readable() resolved but the completion queue is empty after sync"));
                                break;
                            }
                        }
                        Ok(Err(e)) => {
                            st.borrow_mut().errors.push(format!("batch {b}: readable() failed: {e}"));
                            break;
                        }
                        Err(_) => {
                            st.borrow_mut().errors.push(format!("batch {b}: readable() did not resolve within {patience:?} although {} operations are outstanding", outstanding.len()));
                            break;
                        }
                    }
                }
            }
            Drain::Late => {
                tokio::time::sleep(lat * 3 + tick * 2).await;
                take(&ring, usize::MAX, &st, &mut outstanding);
                if !outstanding.is_empty() {
                    st.borrow_mut().errors.push(format!("batch {b}: {} operations have no completion three latencies after submission", outstanding.len()));
                }
            }
            Drain::ParkedReaper => {
                if let Some(h) = reaper {
                    let _ = h.await;
                }
            }
            Drain::Poll => {
                let mut rounds = 0;
                while !outstanding.is_empty() {
                    take(&ring, usize::MAX, &st, &mut outstanding);
                    rounds += 1;
                    if rounds > 60 {
                        st.borrow_mut().errors.push(format!("batch {b}: {} operations have no completion after 60 polls one tick apart", outstanding.len()));
                        break;
                    }
                    if !outstanding.is_empty() {
                        tokio::time::sleep(tick).await;
                    }
                }
            }
        }
        let snap = fs::read("/f").unwrap_or_default();
        let mut g = st.borrow_mut();
        g.snaps.push((b, snap));
        g.batches_done = b + 1;
    }
    // nothing further may show up
    tokio::time::sleep(lat * 2 + tick).await;
    {
        let mut ring = ring.borrow_mut();
        let mut cq = ring.completion();
        cq.sync();
        if let Some(e) = cq.next() {
            st.borrow_mut().errors.push(format!("a further CQE user_data={} result={} appeared after every submission had completed", e.user_data(), e.result()));
        }
    }
    st.borrow_mut().finished = true;
    std::future::pending().await
}

fn apply(content: &mut Vec<u8>, op: Op) {
    if let Op::Write(off, data) = op {
        let end = off as usize + 2;
        if content.len() < end {
            content.resize(end, 0);
        }
        content[off as usize..end].copy_from_slice(&data);
    }
}

pub fn scenario(ch: &mut Chooser, thorough: bool) -> Exec {
    let tick_ms = *ch.of("tick_ms", &[1u64, 2]);
    let lat_us = *ch.of("io_latency_us", if thorough { &[500u64, 1000, 2500, 4000][..] } else { &[500u64, 2500][..] });
    let depth = *ch.of("queue_depth", &[1u32, 2, 4]);
    let menu = batch_menu();
    let drains = [Drain::ReadableAll, Drain::ReadableOne, Drain::Late, Drain::Poll, Drain::ParkedReaper];
    let nb = if thorough { 3 } else { 2 };
    let script: Vec<(Vec<Op>, Drain)> = (0..nb).map(|_| (menu[ch.choose("batch", menu.len())].clone(), *ch.of("drain", &drains))).collect();
    let offset_us = if tick_ms >= 2 && ch.flag("submit_half_a_tick_into_the_step") { tick_ms * 500 } else { 0 };
    let crash_at: Option<usize> = {
        let k = ch.choose("crash_before_step(0 = never)", 14);
        if k == 0 {
            None
        } else {
            Some(k)
        }
    };
    let bounce_after = if crash_at.is_some() { ch.choose("bounce_after_steps", 2) } else { 0 };

    let tick = Duration::from_millis(tick_ms);
    let lat = Duration::from_micros(lat_us);
    let mut b = turmoil::Builder::new();
    b.tick_duration(tick).simulation_duration(Duration::from_secs(600)).rng_seed(vx_core::report::seed());
    b.fs().io_latency().min_latency(lat).max_latency(lat);
    let mut sim = b.build();
    let st: S = Rc::new(RefCell::new(St::default()));
    let (s1, sc) = (st.clone(), script.clone());
    sim.host("h", move || program(s1.clone(), sc.clone(), depth, Duration::from_micros(offset_us), tick, lat));

    let mut violation: Option<Violation> = None;
    let mut obs: Vec<String> = vec![format!(
        "tick={tick_ms}ms latency={lat_us}us depth={depth} script={script:?} offset={offset_us}us crash_before_step={crash_at:?} bounce_after={bounce_after}"
    )];
    let crashed_flag = Cell::new(false);
    let mut crash_step = None;
    let horizon = 160;
    for k in 0..horizon {
        st.borrow_mut().step_now = k;
        if Some(k) == crash_at && !st.borrow().finished {
            sim.crash("h");
            crashed_flag.set(true);
            crash_step = Some(k);
            obs.push(format!("before step {k}: crash(h)"));
        }
        if let Some(c) = crash_step {
            if k == c + bounce_after {
                sim.bounce("h");
                st.borrow_mut().finished = false;
                obs.push(format!("before step {k}: bounce(h)"));
            }
        }
        match vx_core::catch(|| sim.step()) {
            Ok(Ok(_)) => {}
            Ok(Err(e)) => {
                violation = Some(Violation::new("sim-error", e.to_string()));
                break;
            }
            Err(p) => {
                violation = Some(Violation::new("panic", p));
                break;
            }
        }
        if st.borrow().finished {
            break;
        }
    }
    let g = st.borrow();
    let crashed = crashed_flag.get();
    obs.push(format!("subs={:?}", g.subs.iter().map(|s| (s.ud, s.op, s.submit_step)).collect::<Vec<_>>()));
    obs.push(format!("cqes={:?} snaps={:?} found={:?} probe={:?} errors={:?}", g.cqes, g.snaps, g.found, g.probe, g.errors));
    let lat_steps = ((lat_us + tick_ms * 1000 - 1) / (tick_ms * 1000)) as usize;
    let mut feats: Vec<&'static str> = vec![];
    if crashed {
        feats.push("crashed");
    }
    let mut fail = |clause: &str, detail: String| {
        if violation.is_none() {
            violation = Some(Violation::new(clause, detail));
        }
    };
    if !g.finished {
        fail("hang", format!("the host program did not finish within {horizon} steps"));
    }
    if let Some(e) = g.errors.first() {
        let clause = if e.contains("push") {
            "push"
        } else if e.contains("submit") {
            "submit"
        } else if e.contains("readable") {
            "readable"
        } else if e.contains("new ring") || e.contains("further CQE") {
            "foreign-completion"
        } else {
            "missing-completion"
        };
        fail(clause, e.clone());
    }
    // ---- replay the recorded completions against the reference file
    let mut content = b"abcd".to_vec();
    let mut durable = content.clone();
    let mut seen: Vec<u64> = vec![];
    let mut snap_i = 0;
    let cancelled: Vec<u64> = g.subs.iter().filter_map(|s| s.target).collect();
    for (ud, res, step) in &g.cqes {
        let Some(s) = g.subs.iter().find(|s| s.ud == *ud) else {
            fail("unknown-cqe", format!("CQE user_data={ud} result={res} was never submitted"));
            break;
        };
        if seen.contains(ud) {
            fail("exactly-once", format!("operation user_data={ud} ({:?}) completed twice", s.op));
            break;
        }
        seen.push(*ud);
        // snapshots taken after earlier batches come first
        while snap_i < g.snaps.len() && g.snaps[snap_i].0 < s.batch {
            snap_i += 1;
        }
        let is_cancelled = cancelled.contains(ud);
        let immediate = is_cancelled || s.op == Op::CancelPrev || s.op == Op::BadFlag;
        if !immediate && *step < s.submit_step + lat_steps {
            fail(
                "too-early",
                format!(
                    "operation user_data={ud} ({:?}) was submitted in step {} and its completion was taken in step {step}; with a latency of {lat_us}us and a tick of {tick_ms}ms it must not be visible before step {}",
                    s.op,
                    s.submit_step,
                    s.submit_step + lat_steps
                ),
            );
        }
        let buf = *g.bufs[s.buf];
        let want: i32 = if is_cancelled {
            ECANCELED
        } else {
            match s.op {
                Op::Write(..) => 2,
                Op::Read(off, len) => {
                    let a = (off as usize).min(content.len());
                    let e = (a + len as usize).min(content.len());
                    (e - a) as i32
                }
                Op::Fsync | Op::CancelPrev => 0,
                Op::BadFlag => -22,
            }
        };
        if *res != want {
            fail("result", format!("operation user_data={ud} ({:?}) completed with {res}; the synchronous API gives {want} on the reference file {:?}", s.op, content));
        }
        match s.op {
            Op::Read(off, len) if !is_cancelled => {
                let a = (off as usize).min(content.len());
                let e = (a + len as usize).min(content.len());
                if buf[..e - a] != content[a..e] || buf[e - a..].iter().any(|x| *x != SENTINEL) {
                    fail("read-data", format!("read user_data={ud} off={off} len={len}: buffer {:?}, the reference file holds {:?}", buf, &content[a..e]));
                }
            }
            Op::Read(..) | Op::BadFlag => {
                if buf.iter().any(|x| *x != SENTINEL) {
                    fail("buffer-touched", format!("read user_data={ud} completed with an error but its buffer was modified: {:?}", buf));
                }
            }
            Op::Write(..) if !is_cancelled => apply(&mut content, s.op),
            Op::Fsync => durable = content.clone(),
            _ => {}
        }
    }
    // per-batch snapshots through the synchronous API
    {
        let mut c = b"abcd".to_vec();
        for (b, snap) in &g.snaps {
            for s in g.subs.iter().filter(|s| s.batch == *b) {
                if !cancelled.contains(&s.ud) {
                    apply(&mut c, s.op);
                }
            }
            if *snap != c {
                fail("file-effect", format!("after batch {b} was drained /f holds {:?} through the synchronous API, the reference holds {:?}", snap, c));
            }
        }
    }
    // exactly once: every submission of a drained batch completed; readable loops deliver in time
    for s in &g.subs {
        let n = g.cqes.iter().filter(|c| c.0 == s.ud).count();
        if s.batch < g.batches_done && n != 1 {
            fail("exactly-once", format!("operation user_data={} ({:?}) of batch {} produced {n} completions", s.ud, s.op, s.batch));
        }
        if let Some(c) = g.cqes.iter().find(|c| c.0 == s.ud) {
            let drain = script[s.batch].1;
            if matches!(drain, Drain::ReadableAll | Drain::Poll | Drain::ParkedReaper) && c.2 > s.submit_step + lat_steps + 3 {
                fail(
                    "late",
                    format!("operation user_data={} ({:?}) submitted in step {} was only delivered in step {} by a {:?} loop (latency {lat_us}us = {lat_steps} steps)", s.ud, s.op, s.submit_step, c.2, drain),
                );
            }
        }
    }
    if !crashed && g.finished {
        if g.batches_done != script.len() {
            fail("hang", format!("only {} of {} batches were completed", g.batches_done, script.len()));
        }
        feats.push("completed");
    }
    // ---- crash: nothing submitted before it completes or takes effect afterwards
    if let Some(c) = crash_step {
        if let Some((_, r, step)) = g.cqes.iter().find(|x| x.2 >= c) {
            fail("post-crash-completion", format!("a completion (result {r}) was taken in step {step}, after the crash before step {c}"));
        }
        match g.found.iter().find(|f| f.0 == 2) {
            Some((_, Some(f))) => {
                if *f != durable {
                    fail(
                        "post-crash-effect",
                        format!(
                            "after the crash before step {c} and the bounce, /f holds {:?}; the completions taken before the crash leave {:?} durable (reference contents at the last fsync completion); operations still in flight at the crash must not take effect",
                            f, durable
                        ),
                    );
                }
            }
            Some((_, None)) => fail("post-crash-effect", "after crash and bounce /f does not exist although it was created, synced and its directory synced".into()),
            None => {
                if g.finished {
                    fail("bounce", "the bounced host never started".into());
                }
            }
        }
        if let Some((res, steps)) = g.probe {
            let want = durable.len().min(2) as i32;
            if res != want {
                fail("result", format!("after the bounce a read of 2 bytes at offset 0 on a fresh ring returned {res}, the durable file holds {:?}", durable));
            }
            if steps < lat_steps {
                fail("too-early", format!("after the bounce a read completed after {steps} steps; the latency of {lat_us}us is {lat_steps} steps"));
            }
        }
    }
    drop(g);
    if let Some(v) = violation.as_mut() {
        v.sig = format!("{}|through-sim", v.clause);
        v.scenario = format!("c18-sim tier={}", if thorough { "thorough" } else { "quick" });
        v.actions = obs.clone();
    }
    Exec { outcome: Digest::of64(&obs), violation, features: feats }
}
