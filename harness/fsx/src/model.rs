//! Reference models, deliberately boring: a POSIX-like in-memory tree with inode
//! identity (so that rename/remove/re-create behave like a real file tree) and, on top
//! of it, the durability image the crate documents (entry durable by sync_dir of the
//! parent, contents durable by a data sync of the file).

use std::collections::{BTreeMap, BTreeSet};

#[derive(Clone, Copy, Debug, PartialEq, Eq, Hash)]
pub enum Errc {
    NoEnt,
    Exist,
    NotEmpty,
    /// operand of the wrong type (file where a directory is needed or vice versa):
    /// any failure is accepted
    WrongType,
    Invalid,
}

#[derive(Clone, Debug, Hash, PartialEq, Eq)]
pub struct Inode {
    pub vol: Vec<u8>,
    /// content at the last data sync (None = never data-synced: durable content empty)
    pub dur: Option<Vec<u8>>,
    /// writes since the last data sync, in order (for torn-write expectations)
    pub pending_writes: Vec<(u64, Vec<u8>)>,
}

#[derive(Clone, Debug, Hash, PartialEq, Eq)]
pub struct Model {
    pub inodes: Vec<Inode>,
    pub files: BTreeMap<String, usize>,
    pub dirs: BTreeSet<String>,
    // durable image
    pub dur_files: BTreeMap<String, usize>,
    pub dur_dirs: BTreeSet<String>,
    /// paths whose post-crash state the property leaves unspecified (dangling
    /// subtrees); cleared when the path is re-adopted from the implementation
    pub unspecified: BTreeSet<String>,
    /// names whose durable entry refers to one file while a different file that carried
    /// the same name had its data synced since: "contents at its last data sync" can be
    /// read per file or per path, so the content is not asserted after a crash
    pub ambiguous: BTreeSet<String>,
}

pub fn parent(p: &str) -> String {
    match p.rfind('/') {
        Some(0) | None => "/".to_string(),
        Some(i) => p[..i].to_string(),
    }
}

pub fn is_under(p: &str, dir: &str) -> bool {
    if dir == "/" {
        return p != "/";
    }
    p.len() > dir.len() && p.starts_with(dir) && p.as_bytes()[dir.len()] == b'/'
}

impl Default for Model {
    fn default() -> Self {
        Self::new()
    }
}

impl Model {
    pub fn new() -> Model {
        let mut dirs = BTreeSet::new();
        dirs.insert("/".to_string());
        Model {
            inodes: vec![],
            files: BTreeMap::new(),
            dirs: dirs.clone(),
            dur_files: BTreeMap::new(),
            dur_dirs: dirs,
            unspecified: BTreeSet::new(),
            ambiguous: BTreeSet::new(),
        }
    }

    pub fn is_file(&self, p: &str) -> bool {
        self.files.contains_key(p)
    }
    pub fn is_dir(&self, p: &str) -> bool {
        self.dirs.contains(p)
    }
    pub fn exists(&self, p: &str) -> bool {
        self.is_file(p) || self.is_dir(p)
    }
    pub fn content(&self, p: &str) -> Option<&Vec<u8>> {
        self.files.get(p).map(|&i| &self.inodes[i].vol)
    }
    pub fn children(&self, d: &str) -> BTreeSet<String> {
        let mut out = BTreeSet::new();
        for p in self.files.keys().chain(self.dirs.iter()) {
            if p != "/" && parent(p) == d {
                out.insert(p.clone());
            }
        }
        out
    }
    fn parent_ok(&self, p: &str) -> Result<(), Errc> {
        let par = parent(p);
        if self.is_dir(&par) {
            Ok(())
        } else if self.is_file(&par) {
            Err(Errc::WrongType)
        } else {
            Err(Errc::NoEnt)
        }
    }

    /// open(write, create[, create_new][, truncate]) then close
    pub fn open_create(&mut self, p: &str, create: bool, create_new: bool, truncate: bool) -> Result<(), Errc> {
        if self.is_dir(p) {
            return Err(if create_new { Errc::Exist } else { Errc::WrongType });
        }
        if let Some(&i) = self.files.get(p) {
            if create_new {
                return Err(Errc::Exist);
            }
            if truncate {
                self.inodes[i].vol.clear();
            }
            return Ok(());
        }
        if !(create || create_new) {
            return Err(Errc::NoEnt);
        }
        self.parent_ok(p)?;
        self.inodes.push(Inode { vol: vec![], dur: None, pending_writes: vec![] });
        self.files.insert(p.to_string(), self.inodes.len() - 1);
        Ok(())
    }

    fn file_inode(&self, p: &str) -> Result<usize, Errc> {
        if self.is_dir(p) {
            return Err(Errc::WrongType);
        }
        self.files.get(p).copied().ok_or(Errc::NoEnt)
    }

    pub fn write_at(&mut self, p: &str, off: u64, data: &[u8]) -> Result<usize, Errc> {
        let i = self.file_inode(p)?;
        let ino = &mut self.inodes[i];
        let end = off as usize + data.len();
        if !data.is_empty() {
            if ino.vol.len() < end {
                ino.vol.resize(end, 0);
            }
            ino.vol[off as usize..end].copy_from_slice(data);
            ino.pending_writes.push((off, data.to_vec()));
        }
        Ok(data.len())
    }

    pub fn append(&mut self, p: &str, data: &[u8]) -> Result<usize, Errc> {
        let i = self.file_inode(p)?;
        let off = self.inodes[i].vol.len() as u64;
        self.write_at(p, off, data)
    }

    pub fn set_len(&mut self, p: &str, n: u64) -> Result<(), Errc> {
        let i = self.file_inode(p)?;
        self.inodes[i].vol.resize(n as usize, 0);
        Ok(())
    }

    pub fn read_at(&self, p: &str, off: u64, len: usize) -> Result<Vec<u8>, Errc> {
        let i = self.file_inode(p)?;
        let v = &self.inodes[i].vol;
        let s = (off as usize).min(v.len());
        let e = (s + len).min(v.len());
        Ok(v[s..e].to_vec())
    }

    pub fn rename(&mut self, a: &str, b: &str) -> Result<(), Errc> {
        if !self.exists(a) {
            return Err(Errc::NoEnt);
        }
        self.parent_ok(b)?;
        if a == b {
            return Ok(());
        }
        if let Some(&i) = self.files.get(a) {
            if self.is_dir(b) {
                return Err(Errc::WrongType);
            }
            self.files.remove(a);
            self.files.insert(b.to_string(), i);
            return Ok(());
        }
        // a is a directory
        if self.is_file(b) {
            return Err(Errc::WrongType);
        }
        if is_under(b, a) {
            return Err(Errc::Invalid);
        }
        if self.is_dir(b) && !self.children(b).is_empty() {
            return Err(Errc::NotEmpty);
        }
        // move the subtree
        let moved_dirs: Vec<String> = self.dirs.iter().filter(|d| *d == a || is_under(d, a)).cloned().collect();
        let moved_files: Vec<(String, usize)> =
            self.files.iter().filter(|(f, _)| is_under(f, a)).map(|(f, i)| (f.clone(), *i)).collect();
        for d in &moved_dirs {
            self.dirs.remove(d);
        }
        for (f, _) in &moved_files {
            self.files.remove(f);
        }
        for d in moved_dirs {
            self.dirs.insert(format!("{}{}", b, &d[a.len()..]));
        }
        for (f, i) in moved_files {
            self.files.insert(format!("{}{}", b, &f[a.len()..]), i);
        }
        Ok(())
    }

    pub fn remove_file(&mut self, p: &str) -> Result<(), Errc> {
        if self.is_dir(p) {
            return Err(Errc::WrongType);
        }
        self.files.remove(p).map(|_| ()).ok_or(Errc::NoEnt)
    }

    pub fn mkdir(&mut self, d: &str) -> Result<(), Errc> {
        if self.exists(d) {
            return Err(Errc::Exist);
        }
        self.parent_ok(d)?;
        self.dirs.insert(d.to_string());
        Ok(())
    }

    pub fn mkdir_all(&mut self, d: &str) -> Result<(), Errc> {
        // every component must be absent or a directory
        let mut comps = vec![];
        let mut cur = d.to_string();
        while cur != "/" {
            comps.push(cur.clone());
            cur = parent(&cur);
        }
        for c in comps.iter().rev() {
            if self.is_file(c) {
                return Err(Errc::WrongType);
            }
        }
        for c in comps.iter().rev() {
            self.dirs.insert(c.clone());
        }
        Ok(())
    }

    pub fn rmdir(&mut self, d: &str) -> Result<(), Errc> {
        if self.is_file(d) {
            return Err(Errc::WrongType);
        }
        if !self.is_dir(d) {
            return Err(Errc::NoEnt);
        }
        if !self.children(d).is_empty() {
            return Err(Errc::NotEmpty);
        }
        self.dirs.remove(d);
        Ok(())
    }

    pub fn rmdir_all(&mut self, d: &str) -> Result<(), Errc> {
        if self.is_file(d) {
            return Err(Errc::WrongType);
        }
        if !self.is_dir(d) {
            return Err(Errc::NoEnt);
        }
        let dd = d.to_string();
        self.dirs.retain(|x| !(x == &dd || is_under(x, &dd)));
        self.files.retain(|x, _| !is_under(x, &dd));
        Ok(())
    }

    // ---------------- durability ----------------

    /// sync_all / sync_data / fsync of the file at `p`
    pub fn sync_file(&mut self, p: &str) -> Result<(), Errc> {
        let i = self.file_inode(p)?;
        if let Some(&j) = self.dur_files.get(p) {
            if j != i {
                self.ambiguous.insert(p.to_string());
            }
        }
        let ino = &mut self.inodes[i];
        ino.dur = Some(ino.vol.clone());
        ino.pending_writes.clear();
        Ok(())
    }

    /// sync_dir(d): d's current entry set and d's own creation become durable
    pub fn sync_dir(&mut self, d: &str) -> Result<(), Errc> {
        if self.is_file(d) {
            return Err(Errc::WrongType);
        }
        if !self.is_dir(d) {
            return Err(Errc::NoEnt);
        }
        self.dur_dirs.insert(d.to_string());
        // drop durable entries of d that no longer exist / point elsewhere
        let ds = d.to_string();
        let gone_files: Vec<String> = self
            .dur_files
            .keys()
            .filter(|f| parent(f) == ds && !self.files.contains_key(*f))
            .cloned()
            .collect();
        for f in gone_files {
            self.dur_files.remove(&f);
        }
        let gone_dirs: Vec<String> =
            self.dur_dirs.iter().filter(|x| *x != "/" && parent(x) == ds && !self.dirs.contains(*x)).cloned().collect();
        for x in gone_dirs {
            // only the entry in `d` goes; durable entries *inside* the removed directory
            // (whose own removal was never synced through that directory) are left
            // dangling, which the property declares unspecified
            self.dur_dirs.remove(&x);
        }
        for (f, i) in self.files.clone() {
            if parent(&f) == ds {
                self.ambiguous.remove(&f);
                self.dur_files.insert(f, i);
            }
        }
        let amb: Vec<String> = self.ambiguous.iter().filter(|f| parent(f) == ds && !self.dur_files.contains_key(*f)).cloned().collect();
        for f in amb {
            self.ambiguous.remove(&f);
        }
        for x in self.dirs.clone() {
            if x != "/" && parent(&x) == ds {
                self.dur_dirs.insert(x);
            }
        }
        Ok(())
    }

    /// Is every ancestor directory of `p` durable (reachable from the root through
    /// durable entries)?
    pub fn ancestors_durable(&self, p: &str) -> bool {
        let mut cur = parent(p);
        loop {
            if !self.dur_dirs.contains(&cur) {
                return false;
            }
            if cur == "/" {
                return true;
            }
            cur = parent(&cur);
        }
    }

    /// Crash: volatile := durable. `keep[j]` = number of surviving blocks of the j-th
    /// pending write (in global order) when torn writes are enabled; `order` lists
    /// (inode, index in that inode's pending list) in global submission order.
    pub fn crash(&mut self, torn: &[(usize, usize, u64)], block: u64) {
        // torn writes first: block-aligned prefixes of pending writes land on the durable copy
        for &(ino, idx, keep) in torn {
            let (off, data) = self.inodes[ino].pending_writes[idx].clone();
            let bytes = ((keep * block) as usize).min(data.len());
            if bytes == 0 {
                continue;
            }
            let d = self.inodes[ino].dur.get_or_insert_with(Vec::new);
            let end = off as usize + bytes;
            if d.len() < end {
                d.resize(end, 0);
            }
            d[off as usize..end].copy_from_slice(&data[..bytes]);
        }
        // paths whose fate is unspecified: durable entries under a non-durable ancestor
        self.unspecified.clear();
        // ... and paths whose durable entry refers to an older file while a *different*
        // file created later under the same name has had its data synced: "the contents
        // at its last data sync" can be read per file or per path, so neither is demanded
        for p in &self.ambiguous {
            if self.dur_files.contains_key(p) {
                self.unspecified.insert(p.clone());
            }
        }
        self.ambiguous.clear();
        for p in self.dur_files.keys().chain(self.dur_dirs.iter()) {
            if p != "/" && !self.ancestors_durable(p) {
                self.unspecified.insert(p.clone());
            }
        }
        self.files = self.dur_files.iter().filter(|(p, _)| self.ancestors_durable(p)).map(|(p, i)| (p.clone(), *i)).collect();
        self.dirs = self.dur_dirs.iter().filter(|p| *p == "/" || self.ancestors_durable(p)).cloned().collect();
        self.dur_files = self.files.clone();
        self.dur_dirs = self.dirs.clone();
        for ino in &mut self.inodes {
            ino.vol = ino.dur.clone().unwrap_or_default();
            ino.dur = Some(ino.vol.clone());
            ino.pending_writes.clear();
        }
    }
}
