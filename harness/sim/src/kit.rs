//! Small helpers shared by the Sim-level scenarios: link inspection / manual delivery,
//! error-kind strings, builders.

use std::cell::RefCell;
use std::net::IpAddr;
use std::rc::Rc;
use std::time::Duration;

use turmoil::{Builder, Sim};

pub type Shared<T> = Rc<RefCell<T>>;
pub fn shared<T>(t: T) -> Shared<T> {
    Rc::new(RefCell::new(t))
}

pub fn errk(e: &std::io::Error) -> String {
    format!("{:?}", e.kind())
}

/// descriptions ("src->dst proto") of the messages in flight on the link a<->b, in queue order
pub fn link_msgs(sim: &Sim, a: IpAddr, b: IpAddr) -> Vec<String> {
    let mut out = vec![];
    sim.links(|links| {
        for link in links {
            let (x, y) = link.pair();
            if (x == a && y == b) || (x == b && y == a) {
                for sent in link {
                    let (s, d) = sent.pair();
                    out.push(format!("{}->{} {}", s, d, sent.protocol()));
                }
            }
        }
    });
    out
}

/// all in-flight messages on every link: (pair, description)
pub fn all_link_msgs(sim: &Sim) -> Vec<((IpAddr, IpAddr), String)> {
    let mut out = vec![];
    sim.links(|links| {
        for link in links {
            let p = link.pair();
            for sent in link {
                let (s, d) = sent.pair();
                out.push((p, format!("{}->{} {}", s, d, sent.protocol())));
            }
        }
    });
    out
}

/// schedule the n-th in-flight message of link a<->b for delivery at the next step
pub fn deliver_nth(sim: &Sim, a: IpAddr, b: IpAddr, n: usize) -> bool {
    let mut done = false;
    sim.links(|links| {
        for link in links {
            let (x, y) = link.pair();
            if (x == a && y == b) || (x == b && y == a) {
                for (i, sent) in link.enumerate() {
                    if i == n {
                        sent.deliver();
                        done = true;
                    }
                }
            }
        }
    });
    done
}

pub fn builder(tick_ms: u64) -> Builder {
    let mut b = Builder::new();
    b.tick_duration(Duration::from_millis(tick_ms))
        .simulation_duration(Duration::from_secs(3600))
        .rng_seed(vx_core::report::seed().wrapping_add(1));
    b
}
