//! C20 — barriers observe every matching trigger once and suspend only when asked.
//!
//! No runtime: source tasks and one test task run on the mini executor, and *every
//! interleaving* at await granularity is enumerated (which runnable task is polled next
//! is the choice). The reference is a sequential registry replayed over the event log.

use std::cell::RefCell;
use crate::kit::builder;
use std::collections::VecDeque;
use std::rc::Rc;

use turmoil::barriers::{trigger, trigger_noop, Barrier, Reaction, Triggered};
use vx_core::dfs::Exec;
use vx_core::exec::{yield_now, Executor};
use vx_core::{Chooser, Digest, Violation};

#[derive(Clone, Copy, Debug, PartialEq, Eq, Hash)]
enum Cond {
    Eq1,
    Eq2,
    Any,
}
impl Cond {
    fn holds(self, v: u8) -> bool {
        match self {
            Cond::Eq1 => v == 1,
            Cond::Eq2 => v == 2,
            Cond::Any => true,
        }
    }
}

#[derive(Clone, Copy, Debug, PartialEq, Eq, Hash)]
enum R {
    Noop,
    Suspend,
    Panic,
}

#[derive(Clone, Copy, Debug, PartialEq, Eq, Hash)]
enum TOp {
    Build(R, Cond),
    Wait(usize),
    DropHandle,
    DropBarrier(usize),
    /// the harness aborts source task 0 (its future is dropped wherever it is parked)
    AbortSource0,
}

#[derive(Clone, Debug, PartialEq, Eq, Hash)]
enum Ev {
    Build(usize, R, Cond),
    DropBarrier(usize),
    WaitStart(usize),
    WaitRet(usize, u8),
    WaitNone(usize),
    HandleDrop,
    Pre(usize, usize, u8, bool), // source, index, value, sync (trigger_noop)
    Post(usize, usize),
    Panicked(usize),
    Aborted(usize),
}

type Log = Rc<RefCell<Vec<Ev>>>;

async fn test_task(pre: Vec<(R, Cond)>, script: Vec<TOp>, log: Log, abort: Rc<std::cell::Cell<bool>>, panic_at_end: bool) {
    let mut barriers: Vec<Option<Barrier<u8>>> = vec![];
    let mut handles: VecDeque<Triggered<u8>> = VecDeque::new();
    // barriers that exist before anything else runs
    for (r, c) in pre {
        let reaction = match r {
            R::Noop => Reaction::Noop,
            R::Suspend => Reaction::Suspend,
            R::Panic => Reaction::Panic,
        };
        let idx = barriers.len();
        log.borrow_mut().push(Ev::Build(idx, r, c));
        barriers.push(Some(Barrier::build(reaction, move |v: &u8| c.holds(*v))));
    }
    for op in script {
        yield_now().await;
        let live: Vec<usize> = (0..barriers.len()).filter(|&i| barriers[i].is_some()).collect();
        match op {
            TOp::Build(r, c) => {
                if live.len() < 3 {
                    let reaction = match r {
                        R::Noop => Reaction::Noop,
                        R::Suspend => Reaction::Suspend,
                        R::Panic => Reaction::Panic,
                    };
                    let idx = barriers.len();
                    log.borrow_mut().push(Ev::Build(idx, r, c));
                    barriers.push(Some(Barrier::build(reaction, move |v: &u8| c.holds(*v))));
                }
            }
            TOp::Wait(k) => {
                if let Some(&idx) = live.get(k) {
                    log.borrow_mut().push(Ev::WaitStart(idx));
                    let t = barriers[idx].as_mut().unwrap().wait().await;
                    match t {
                        Some(t) => {
                            log.borrow_mut().push(Ev::WaitRet(idx, *t));
                            handles.push_back(t);
                        }
                        None => log.borrow_mut().push(Ev::WaitNone(idx)),
                    }
                }
            }
            TOp::DropHandle => {
                if let Some(h) = handles.pop_front() {
                    log.borrow_mut().push(Ev::HandleDrop);
                    drop(h);
                }
            }
            TOp::DropBarrier(k) => {
                if let Some(&idx) = live.get(k) {
                    log.borrow_mut().push(Ev::DropBarrier(idx));
                    barriers[idx] = None;
                }
            }
            TOp::AbortSource0 => abort.set(true),
        }
    }
    if panic_at_end {
        // the test gives up with a panic: every barrier and handle it holds is dropped by
        // the unwinding (the thread survives, the harness catches the panic)
        yield_now().await;
        log.borrow_mut().push(Ev::DropBarrier(usize::MAX));
        panic!("the test task gives up");
    }
    // keep everything it still holds until the harness lets go of this task
    std::future::pending::<()>().await;
}

async fn source(s: usize, vals: Vec<(u8, bool)>, log: Log) {
    for (i, (v, sync)) in vals.into_iter().enumerate() {
        // the trigger future is built before the scheduling point and first polled after
        // it: a trigger takes place when it runs, not when its future value is made
        let fut = if sync { None } else { Some(trigger(v)) };
        yield_now().await;
        log.borrow_mut().push(Ev::Pre(s, i, v, sync));
        match fut {
            None => trigger_noop(v),
            Some(f) => f.await,
        }
        log.borrow_mut().push(Ev::Post(s, i));
    }
}

/// `part` 0: small programs, every interleaving. `part` 1: registry-heavy programs (2-3
/// barriers up front, longer scripts), schedules within a preemption (deviation) bound.
pub fn scenario(ch: &mut Chooser, thorough: bool, part: u8) -> Exec {
    // a test task that ends by panicking drops its barriers during unwinding (the harness
    // catches the panic, the thread lives on). The registry is a thread-local: should such a
    // barrier stay registered, it would also disturb later executions on this worker thread,
    // which is why the identical-verdict re-execution is switched off for this part.
    let panic_at_end = part == 1 && ch.dev_flag("test_task_panics_at_the_end_of_its_script");
    scenario_on_this_thread(ch, thorough, part, panic_at_end)
}

fn scenario_on_this_thread(ch: &mut Chooser, thorough: bool, part: u8, panic_at_end: bool) -> Exec {
    // ---- programs
    let tmenu: Vec<TOp> = vec![
        TOp::Build(R::Noop, Cond::Eq1),
        TOp::Build(R::Suspend, Cond::Any),
        TOp::Build(R::Suspend, Cond::Eq1),
        TOp::Build(R::Panic, Cond::Eq2),
        TOp::Wait(0),
        TOp::Wait(1),
        TOp::DropHandle,
        TOp::DropBarrier(0),
        TOp::DropBarrier(1),
        TOp::AbortSource0,
    ];
    let kinds = [(R::Noop, Cond::Eq1), (R::Suspend, Cond::Any), (R::Suspend, Cond::Eq1), (R::Panic, Cond::Eq2)];
    let n_pre = if part == 0 { ch.choose("barriers_built_up_front", 2) } else { 2 + ch.choose("barriers_built_up_front", 2) };
    let pre: Vec<(R, Cond)> = (0..n_pre).map(|_| *ch.of("prebuilt_barrier", &kinds)).collect();
    let tlen = if thorough { [4, 3, 3, 2][n_pre] } else { [3, 2, 3, 1][n_pre] };
    let script: Vec<TOp> = (0..tlen).map(|_| *ch.of("test_op", &tmenu)).collect();
    let nsrc = 2;
    let mut progs: Vec<Vec<(u8, bool)>> = vec![];
    for s in 0..nsrc {
        let n = if s == 0 { 2 } else { 1 };
        let mut p = vec![];
        for _ in 0..n {
            let v = *ch.of("trigger_value", &[1u8, 2]);
            let sync = s == 1 && (thorough || n_pre <= 1) && ch.flag("synchronous_trigger_noop");
            p.push((v, sync));
        }
        progs.push(p);
    }
    let log: Log = Rc::new(RefCell::new(vec![]));
    let mut ex = Executor::new();
    let abort = Rc::new(std::cell::Cell::new(false));
    let mut aborted0 = false;
    let t_id = ex.spawn(99, test_task(pre.clone(), script.clone(), log.clone(), abort.clone(), panic_at_end));
    let mut src_ids = vec![];
    for (s, p) in progs.iter().enumerate() {
        src_ids.push(ex.spawn(s as u32, source(s, p.clone(), log.clone())));
    }
    let mut violation: Option<Violation> = None;
    let mut feats: Vec<&'static str> = vec![];
    let mut polls = 0;
    // ---- every interleaving: which runnable task is polled next
    loop {
        let run = ex.runnable();
        if run.is_empty() || polls > 200 {
            break;
        }
        // default: the lowest-numbered runnable task (the test task first); picking another
        // one is a preemption and costs a deviation in part 1
        let k = if part == 0 { ch.choose("next_task", run.len()) } else { ch.deviate("next_task", run.len()) };
        let id = run[k];
        polls += 1;
        let before = log.borrow().len();
        let r = vx_core::catch(|| ex.poll(id));
        if r.is_err() {
            ex.cancel(id);
            if let Some(s) = src_ids.iter().position(|&x| x == id) {
                log.borrow_mut().push(Ev::Panicked(s));
                feats.push("panic-reaction");
            } else if panic_at_end && matches!(log.borrow().last(), Some(Ev::DropBarrier(usize::MAX))) {
                // scripted: the unwinding has dropped everything the test held
                feats.push("test-task-unwound");
            } else {
                violation = Some(Violation::new("test-task-panic", "the test task itself panicked".into()));
                break;
            }
        }
        if abort.get() && !aborted0 {
            aborted0 = true;
            if !ex.is_done(src_ids[0]) {
                ex.cancel(src_ids[0]);
                log.borrow_mut().push(Ev::Aborted(0));
                feats.push("source-aborted");
            }
        }
        // "lets it proceed right after": a source released by this poll must be runnable now
        if id == t_id {
            let new: Vec<Ev> = log.borrow()[before..].to_vec();
            if new.iter().any(|e| matches!(e, Ev::HandleDrop | Ev::DropBarrier(_))) {
                if let Some(v) = check_released_runnable(&log.borrow(), &ex, &src_ids) {
                    violation = Some(v);
                    break;
                }
            }
        }
    }
    // ---- fair suffix: the test lets go of everything it holds; sources run to completion
    if violation.is_none() {
        ex.cancel(t_id);
        log.borrow_mut().push(Ev::DropBarrier(usize::MAX)); // marker: everything released
        let mut guard = 0;
        loop {
            let run = ex.runnable();
            if run.is_empty() || guard > 100 {
                break;
            }
            guard += 1;
            let id = run[0];
            let r = vx_core::catch(|| ex.poll(id));
            if r.is_err() {
                ex.cancel(id);
                if let Some(s) = src_ids.iter().position(|&x| x == id) {
                    log.borrow_mut().push(Ev::Panicked(s));
                }
            }
        }
    }
    let events = log.borrow().clone();
    if violation.is_none() {
        violation = replay(&events, &progs, &mut feats);
    }
    drop(ex);
    let obs: Vec<String> = events.iter().map(|e| format!("{e:?}")).collect();
    if let Some(v) = violation.as_mut() {
        v.sig = v.clause.to_string();
        v.scenario = format!("c20 part={part} tier={} prebuilt={pre:?} script={script:?} sources={progs:?}", if thorough { "thorough" } else { "quick" });
        v.actions = obs.clone();
    }
    Exec { outcome: Digest::of64(&obs), violation, features: feats }
}

#[derive(Clone, Debug)]
struct MBar {
    idx: usize,
    r: R,
    c: Cond,
    queue: VecDeque<(usize, usize, u8)>,
}

fn check_released_runnable(events: &[Ev], ex: &Executor, src_ids: &[usize]) -> Option<Violation> {
    // sources that are suspended according to the reference but whose release has happened
    let mut live: Vec<MBar> = vec![];
    let mut handles: VecDeque<(R, usize, usize)> = VecDeque::new();
    let mut suspended: Vec<(usize, usize)> = vec![];
    let mut released: Vec<(usize, usize)> = vec![];
    for e in events {
        match e {
            Ev::Build(i, r, c) => live.push(MBar { idx: *i, r: *r, c: *c, queue: VecDeque::new() }),
            Ev::DropBarrier(i) => {
                if let Some(p) = live.iter().position(|b| b.idx == *i) {
                    let b = live.remove(p);
                    if b.r == R::Suspend {
                        for (s, k, _) in b.queue {
                            released.push((s, k));
                        }
                    }
                }
            }
            Ev::Pre(s, k, v, sync) => {
                if let Some(b) = live.iter_mut().find(|b| b.c.holds(*v)) {
                    if b.r != R::Panic && !(*sync && b.r == R::Suspend) {
                        b.queue.push_back((*s, *k, *v));
                        if b.r == R::Suspend {
                            suspended.push((*s, *k));
                        }
                    }
                }
            }
            Ev::WaitRet(i, _) => {
                if let Some(b) = live.iter_mut().find(|b| b.idx == *i) {
                    if let Some((s, k, _)) = b.queue.pop_front() {
                        handles.push_back((b.r, s, k));
                    }
                }
            }
            Ev::HandleDrop => {
                if let Some((r, s, k)) = handles.pop_front() {
                    if r == R::Suspend {
                        released.push((s, k));
                    }
                }
            }
            Ev::Post(s, k) => {
                suspended.retain(|x| x != &(*s, *k));
                released.retain(|x| x != &(*s, *k));
            }
            Ev::Aborted(s) => {
                suspended.retain(|x| x.0 != *s);
                released.retain(|x| x.0 != *s);
            }
            _ => {}
        }
    }
    for (s, k) in released {
        if suspended.contains(&(s, k)) && !ex.is_runnable(src_ids[s]) {
            return Some(Violation::new(
                "not-released",
                format!("source {s} (trigger #{k}) was suspended by a Suspend barrier; its handle (or the barrier) has just been dropped but the source was not woken"),
            ));
        }
    }
    None
}

fn replay(events: &[Ev], progs: &[Vec<(u8, bool)>], feats: &mut Vec<&'static str>) -> Option<Violation> {
    let mut live: Vec<MBar> = vec![];
    let mut handles: VecDeque<(R, usize, usize)> = VecDeque::new();
    let mut blocked: Vec<(usize, usize)> = vec![]; // suspended and not yet released
    let mut all_released = false;
    let mut expect_adjacent: Option<Ev> = None;
    let mut posts: Vec<(usize, usize)> = vec![];
    let mut panicked: Vec<usize> = vec![];
    let mut waiting: Option<usize> = None;
    for (n, e) in events.iter().enumerate() {
        if let Some(want) = expect_adjacent.take() {
            if *e != want {
                return Some(Violation::new(
                    "blocked-or-misreported",
                    format!("event #{n}: expected {:?} right after {:?} (a trigger that matches no live barrier, or a Noop barrier, must return immediately; a Panic barrier must panic the caller), observed {:?}", want, events[n - 1], e),
                ));
            }
        }
        match e {
            Ev::Build(i, r, c) => live.push(MBar { idx: *i, r: *r, c: *c, queue: VecDeque::new() }),
            Ev::DropBarrier(i) if *i == usize::MAX => {
                // the test task is gone: every barrier and handle it held has been dropped.
                // If it was still parked in wait() on a barrier whose queue (in trigger order)
                // is not empty, a report went missing
                if let Some(w) = waiting {
                    if let Some(b) = live.iter().find(|b| b.idx == w) {
                        if let Some(front) = b.queue.front() {
                            return Some(Violation::new(
                                "report",
                                format!("Barrier::wait on barrier {w} never returned although trigger {:?} matched it and is still unreported (every matching trigger is reported exactly once, also when its source has gone away since)", front),
                            ));
                        }
                    }
                }
                all_released = true;
                blocked.clear();
                live.clear();
                handles.clear();
            }
            Ev::DropBarrier(i) => {
                if let Some(p) = live.iter().position(|b| b.idx == *i) {
                    let b = live.remove(p);
                    for (s, k, _) in b.queue {
                        blocked.retain(|x| x != &(s, k));
                    }
                    feats.push("barrier-dropped");
                }
            }
            Ev::Pre(s, k, v, sync) => {
                // the earliest-created live barrier whose condition matches gets it, and only that one
                match live.iter_mut().find(|b| b.c.holds(*v)) {
                    None => expect_adjacent = Some(Ev::Post(*s, *k)),
                    Some(b) => match (b.r, *sync) {
                        (R::Panic, _) | (R::Suspend, true) => expect_adjacent = Some(Ev::Panicked(*s)),
                        (R::Noop, _) => {
                            b.queue.push_back((*s, *k, *v));
                            expect_adjacent = Some(Ev::Post(*s, *k));
                        }
                        (R::Suspend, false) => {
                            b.queue.push_back((*s, *k, *v));
                            blocked.push((*s, *k));
                            feats.push("suspended");
                        }
                    },
                }
            }
            Ev::WaitRet(i, v) => {
                let Some(b) = live.iter_mut().find(|b| b.idx == *i) else {
                    return Some(Violation::new("report", format!("event #{n}: wait on barrier {i} returned {v} but the barrier is not live in the reference")));
                };
                match b.queue.pop_front() {
                    Some((s, k, want)) if want == *v => handles.push_back((b.r, s, k)),
                    other => {
                        return Some(Violation::new(
                            "report",
                            format!("event #{n}: Barrier::wait on barrier {i} returned value {v}; in trigger order the reference expects {:?}", other),
                        ));
                    }
                }
            }
            Ev::WaitNone(i) => {
                return Some(Violation::new("report", format!("event #{n}: Barrier::wait on live barrier {i} returned None")));
            }
            Ev::HandleDrop => {
                if let Some((r, s, k)) = handles.pop_front() {
                    if r == R::Suspend {
                        blocked.retain(|x| x != &(s, k));
                        feats.push("released-by-handle-drop");
                    }
                }
            }
            Ev::Post(s, k) => {
                if blocked.contains(&(*s, *k)) {
                    return Some(Violation::new(
                        "proceeded-while-suspended",
                        format!("event #{n}: source {s} continued past trigger #{k} although a Suspend barrier received it and neither its handle nor the barrier has been dropped"),
                    ));
                }
                posts.push((*s, *k));
            }
            Ev::Panicked(s) => panicked.push(*s),
            Ev::Aborted(s) => {
                // the source's future is gone: it will never get past its trigger, and what it
                // had triggered stays reported / reportable
                blocked.retain(|x| x.0 != *s);
                panicked.push(*s);
                if expect_adjacent.as_ref().map(|w| matches!(w, Ev::Post(x, _) | Ev::Panicked(x) if x == s)).unwrap_or(false) {
                    expect_adjacent = None;
                }
            }
            Ev::WaitStart(i) => waiting = Some(*i),
        }
        if matches!(e, Ev::WaitRet(..) | Ev::WaitNone(_)) {
            waiting = None;
        }
    }
    if let Some(want) = expect_adjacent {
        return Some(Violation::new("blocked-or-misreported", format!("expected {:?} as the last event", want)));
    }
    // undelivered reports: every report still queued at a live barrier is fine (test never
    // waited); but no source may be left behind after everything was released
    if all_released {
        for (s, p) in progs.iter().enumerate() {
            if panicked.contains(&s) {
                continue;
            }
            for k in 0..p.len() {
                if !posts.contains(&(s, k)) {
                    return Some(Violation::new(
                        "never-released",
                        format!("source {s} never got past trigger #{k} although every handle and barrier was dropped"),
                    ));
                }
            }
        }
    }
    None
}

// ---------------------------------------------------------------------------------------
// Part 2: synchronous triggers from the filesystem corruption hook, through a real Sim.
// A host reads files with corruption_probability 1 (every non-empty read is corrupted and
// fires one FsCorruption trigger) or 0; barriers on FsCorruption with overlapping
// conditions are created / dropped at chosen steps; every corrupted read (recognised by
// comparing the returned bytes with what was written) must be reported exactly once, in
// order, to the earliest-created live matching barrier, with the right path and offset.

fn poll_barrier(b: &mut Barrier<turmoil::fs::FsCorruption>) -> Vec<(String, u64, usize)> {
    use std::future::Future;
    let mut out = vec![];
    loop {
        let w = std::task::Waker::noop();
        let mut cx = std::task::Context::from_waker(&w);
        let mut fut = Box::pin(b.wait());
        match fut.as_mut().poll(&mut cx) {
            std::task::Poll::Ready(Some(t)) => out.push((t.path.display().to_string(), t.offset, t.len)),
            _ => break,
        }
    }
    out
}

pub fn fs_hook_scenario(ch: &mut Chooser, thorough: bool) -> Exec {
    use turmoil::fs::shim::std::fs;
    use turmoil::fs::FsCorruption;
    let prob_one = !ch.flag("corruption_probability_zero");
    // barrier set-up: which barriers exist (created in this order) and when they are dropped
    // kinds: 0 = matches every FsCorruption, 1 = only path /a, 2 = only path /b
    let setups: &[&[u8]] = &[&[], &[0], &[1], &[1, 0], &[0, 1], &[2, 1], &[1, 1]];
    let setup: Vec<u8> = ch.of("barriers(created in this order; 0=any 1=/a 2=/b)", setups).to_vec();
    let drop_first_before = if setup.is_empty() { 9 } else { *ch.of("first_barrier_dropped_before_read", &[9usize, 0, 1, 2, 3]) };
    let late_barrier_before = *ch.of("extra_any_barrier_created_before_read", &[9usize, 1, 2]);
    let nreads = if thorough { 4 } else { 3 };
    // two reads issued by the host within one step (several hook firings in one tick)
    let pairs = ch.flag("two_reads_in_one_step");
    // the host itself builds a match-all barrier right after one of its reads, within the same
    // step: that read happened before the barrier existed
    let host_builds_after = *ch.of("host_builds_a_barrier_right_after_its_read", &[9usize, 0, 1]);
    // reads: (file, offset, len)
    let mut reads: Vec<(usize, u64, usize)> = vec![];
    for _ in 0..nreads {
        let f = ch.choose("read_file(/a|/b)", 2);
        let (off, len) = *ch.of("read_range", &[(0u64, 4usize), (2, 3), (5, 1)]);
        reads.push((f, off, len));
    }
    let content = |f: usize| -> Vec<u8> { (0..8u8).map(|i| i * 3 + 1 + f as u8 * 100).collect() };

    let mut b = builder(1);
    b.fs().corruption_probability(if prob_one { 1.0 } else { 0.0 });
    let mut sim = b.build();
    // shared script state: which read to perform in this step, and the result
    let cur: Rc<RefCell<Vec<(usize, u64, usize)>>> = Rc::new(RefCell::new(vec![]));
    let res: Rc<RefCell<Vec<(usize, u64, Vec<u8>)>>> = Rc::new(RefCell::new(vec![]));
    let host_bar: Rc<RefCell<Option<Barrier<FsCorruption>>>> = Rc::new(RefCell::new(None));
    let (cur2, res2, hb2) = (cur.clone(), res.clone(), host_bar.clone());
    sim.host("h", move || {
        let (cur2, res2, hb2) = (cur2.clone(), res2.clone(), hb2.clone());
        async move {
            use std::os::unix::fs::FileExt;
            fs::write("/a", (0..8u8).map(|i| i * 3 + 1).collect::<Vec<u8>>())?;
            fs::write("/b", (0..8u8).map(|i| i * 3 + 101).collect::<Vec<u8>>())?;
            loop {
                let todo: Vec<(usize, u64, usize)> = cur2.borrow_mut().drain(..).collect();
                for (f, off, len) in todo {
                    let file = fs::File::open(if f == 0 { "/a" } else { "/b" })?;
                    let mut buf = vec![0u8; len];
                    let n = file.read_at(&mut buf, off)?;
                    buf.truncate(n);
                    res2.borrow_mut().push((f, off, buf));
                    if res2.borrow().len() == host_builds_after + 1 {
                        *hb2.borrow_mut() = Some(Barrier::build(Reaction::Noop, |_e: &FsCorruption| true));
                    }
                }
                tokio::time::sleep(std::time::Duration::from_millis(1)).await;
            }
        }
    });
    let mk = |kind: u8| -> Barrier<FsCorruption> {
        match kind {
            0 => Barrier::build(Reaction::Noop, |_e: &FsCorruption| true),
            1 => Barrier::build(Reaction::Noop, |e: &FsCorruption| e.path == std::path::Path::new("/a")),
            _ => Barrier::build(Reaction::Noop, |e: &FsCorruption| e.path == std::path::Path::new("/b")),
        }
    };
    // live barriers in creation order: (kind, barrier, log)
    let mut live: Vec<(u8, Barrier<FsCorruption>, Vec<(String, u64, usize)>)> = setup.iter().map(|k| (*k, mk(*k), vec![])).collect();
    let mut expected: Vec<Vec<(String, u64, usize)>> = vec![vec![]; live.len()];
    let mut ids: Vec<usize> = (0..live.len()).collect(); // index into expected per live barrier
    let mut finished: Vec<(usize, Vec<(String, u64, usize)>)> = vec![];
    let mut violation: Option<Violation> = None;
    let mut obs: Vec<String> = vec![];
    let _ = sim.step(); // files are written
    let mut i = 0usize;
    while i < reads.len() {
        let group: Vec<(usize, u64, usize)> = if pairs && i + 1 < reads.len() { vec![reads[i], reads[i + 1]] } else { vec![reads[i]] };
        if (i == drop_first_before || (group.len() == 2 && i + 1 == drop_first_before)) && !live.is_empty() {
            let (_, mut bar, mut logv) = live.remove(0);
            logv.extend(poll_barrier(&mut bar));
            finished.push((ids.remove(0), logv));
            drop(bar);
            obs.push(format!("before read {i}: first barrier dropped"));
        }
        if i == late_barrier_before || (group.len() == 2 && i + 1 == late_barrier_before) {
            live.push((0, mk(0), vec![]));
            expected.push(vec![]);
            ids.push(expected.len() - 1);
            obs.push(format!("before read {i}: extra match-all barrier created"));
        }
        let before = res.borrow().len();
        *cur.borrow_mut() = group.clone();
        if let Err(e) = vx_core::catch(|| sim.step()).unwrap_or_else(|p| Err(p.into())) {
            violation = Some(Violation::new("sim-error", e.to_string()));
            break;
        }
        if res.borrow().len() != before + group.len() {
            violation = Some(Violation::new("harness", "read did not happen".into()));
            break;
        }
        for (gi, &(f, off, len)) in group.iter().enumerate() {
        // a barrier the host built right after its previous read is live from here on
        if before + gi == host_builds_after + 1 {
            if let Some(bar) = host_bar.borrow_mut().take() {
                live.push((0, bar, vec![]));
                expected.push(vec![]);
                ids.push(expected.len() - 1);
                obs.push(format!("after read {}: the host built a match-all barrier", host_builds_after));
            }
        }
        let data = res.borrow()[before + gi].2.clone();
        let i = i + gi;
        let want: Vec<u8> = content(f)[off as usize..(off as usize + len).min(8)].to_vec();
        obs.push(format!("read {i}: file {} off {off} len {len} -> {data:?} (written {want:?})", if f == 0 { "/a" } else { "/b" }));
        let diffs: Vec<usize> = (0..data.len().min(want.len())).filter(|&k| data[k] != want[k]).collect();
        if prob_one && (diffs.len() != 1 || data.len() != want.len()) {
            violation = Some(Violation::new("corruption-shape", format!("corruption_probability 1: read returned {data:?} for written {want:?} (expected exactly one altered byte)")));
            break;
        }
        if !prob_one && data != want {
            violation = Some(Violation::new("corruption-shape", format!("corruption_probability 0 but read returned {data:?} for written {want:?}")));
            break;
        }
        if let Some(&k) = diffs.first() {
            // the earliest-created live barrier whose condition matches receives it
            let path = if f == 0 { "/a" } else { "/b" };
            let target = live.iter().position(|(kind, _, _)| *kind == 0 || (*kind == 1 && f == 0) || (*kind == 2 && f == 1));
            if let Some(t) = target {
                expected[ids[t]].push((path.to_string(), off + k as u64, 1));
            }
        }
        }
        if violation.is_some() {
            break;
        }
        // (built after the last read of the step)
        if before + group.len() == host_builds_after + 1 {
            if let Some(bar) = host_bar.borrow_mut().take() {
                live.push((0, bar, vec![]));
                expected.push(vec![]);
                ids.push(expected.len() - 1);
                obs.push(format!("after read {}: the host built a match-all barrier", host_builds_after));
            }
        }
        for (_, bar, logv) in live.iter_mut() {
            logv.extend(poll_barrier(bar));
        }
        i += group.len();
    }
    if violation.is_none() {
        for (j, (_, _, logv)) in live.iter().enumerate() {
            finished.push((ids[j], logv.clone()));
        }
        for (id, logv) in &finished {
            if *logv != expected[*id] {
                violation = Some(Violation::new(
                    "fs-hook-reports",
                    format!("barrier #{id} (creation order) was reported {:?}, expected {:?}: every corrupted read goes exactly once, in order, to the earliest-created live matching barrier", logv, expected[*id]),
                ));
                break;
            }
        }
    }
    if let Some(v) = violation.as_mut() {
        v.sig = format!("fs-hook|{}", v.clause);
        v.scenario = format!("c20 part=2 tier={} prob_one={prob_one} setup={setup:?} drop_first_before={drop_first_before} late={late_barrier_before} host_builds_after={host_builds_after} reads={reads:?}", if thorough { "thorough" } else { "quick" });
        v.actions = obs.clone();
    }
    let mut feats = vec![];
    if expected.iter().any(|e| !e.is_empty()) {
        feats.push("hook-reported");
    }
    Exec { outcome: Digest::of64(&obs), violation, features: feats }
}
