//! Engine B: virtual time (C05) and run/step results (C11) — complete parameter grids
//! crossed with crash / bounce points, enumerated by the stateless explorer.

use std::cell::RefCell;
use std::rc::Rc;
use std::time::{Duration, SystemTime, UNIX_EPOCH};

use vx_core::dfs::Exec;
use vx_core::{Chooser, Digest, Violation};

use crate::kit::*;

#[derive(Clone, Debug)]
struct Sample {
    host: &'static str,
    step: usize,
    elapsed: Duration,
    sim_elapsed: Duration,
    since_epoch: Duration,
    what: &'static str,
}

#[derive(Default)]
struct ClockSt {
    step: usize,
    samples: Vec<Sample>,
    errors: Vec<String>,
    starts: Vec<(&'static str, usize)>,
}

fn sample(st: &Rc<RefCell<ClockSt>>, host: &'static str, what: &'static str) -> Duration {
    let e = turmoil::elapsed();
    let mut g = st.borrow_mut();
    let step = g.step;
    g.samples.push(Sample {
        host,
        step,
        elapsed: e,
        sim_elapsed: turmoil::sim_elapsed().unwrap_or_default(),
        since_epoch: turmoil::since_epoch().unwrap_or_default(),
        what,
    });
    e
}

thread_local! {
    /// in one corner of the grid tearing a host's software down takes real time (a destructor
    /// that sleeps on the wall clock): whatever runs between the creation of the new runtime and
    /// the restart of the software then sees real time ahead of virtual time
    static SLOW_TEARDOWN: std::cell::Cell<bool> = const { std::cell::Cell::new(false) };
}

struct SlowDrop;
impl Drop for SlowDrop {
    fn drop(&mut self) {
        if SLOW_TEARDOWN.with(|s| s.get()) {
            std::thread::sleep(Duration::from_millis(2));
        }
    }
}

/// the program every host runs: three tasks with different timer shapes
async fn clock_program(st: Rc<RefCell<ClockSt>>, host: &'static str, d_ms: u64, finish_after_ms: Option<u64>) -> turmoil::Result {
    {
        let mut g = st.borrow_mut();
        let step = g.step;
        g.starts.push((host, step));
    }
    let d = Duration::from_millis(d_ms);
    let _slow = SlowDrop;
    let st1 = st.clone();
    tokio::task::spawn_local(async move {
        loop {
            let t0 = sample(&st1, host, "before-sleep");
            tokio::time::sleep(d).await;
            let t1 = sample(&st1, host, "after-sleep");
            if t1 - t0 != d {
                st1.borrow_mut().errors.push(format!("{host}: sleep({d:?}) started at host time {t0:?} completed at {t1:?} (expected exactly {:?})", t0 + d));
            }
        }
    });
    let st2 = st.clone();
    tokio::task::spawn_local(async move {
        let d2 = Duration::from_millis(d_ms + 1);
        loop {
            let t0 = sample(&st2, host, "before-timeout");
            let _ = tokio::time::timeout(d2, std::future::pending::<()>()).await;
            let t1 = sample(&st2, host, "after-timeout");
            if t1 - t0 != d2 {
                st2.borrow_mut().errors.push(format!("{host}: timeout({d2:?}) armed at {t0:?} fired at {t1:?}"));
            }
        }
    });
    let st3 = st.clone();
    tokio::task::spawn_local(async move {
        let mut iv = tokio::time::interval(Duration::from_millis(2));
        let mut last: Option<Duration> = None;
        let mut li: Option<tokio::time::Instant> = None;
        loop {
            iv.tick().await;
            let now = sample(&st3, host, "interval");
            let ni = tokio::time::Instant::now();
            if let (Some(l), Some(lii)) = (last, li) {
                // host clock and tokio Instant advance together
                if now - l != ni - lii {
                    st3.borrow_mut().errors.push(format!("{host}: turmoil::elapsed advanced {:?} while tokio::time::Instant advanced {:?}", now - l, ni - lii));
                }
            }
            last = Some(now);
            li = Some(ni);
        }
    });
    match finish_after_ms {
        Some(f) => {
            tokio::time::sleep(Duration::from_millis(f)).await;
            sample(&st, host, "finishing");
            Ok(())
        }
        None => std::future::pending().await,
    }
}

pub fn c05_scenario(ch: &mut Chooser, thorough: bool) -> Exec {
    let ticks: &[u64] = &[1, 2, 3, 5, 7, 10];
    let tick = *ch.of("tick_ms", ticks);
    let epochs = [UNIX_EPOCH + Duration::from_secs(1), UNIX_EPOCH + Duration::from_secs(1_704_067_200), UNIX_EPOCH + Duration::new(1_700_000_000, 123_456_789)];
    let epoch: SystemTime = *ch.of("epoch", &epochs);
    let random_order = ch.flag("random_host_order");
    let ds: &[u64] = &[1, 2, 3, 5, 10];
    let d1 = *ch.of("h1_sleep_ms", ds);
    let d2 = *ch.of("late_host_sleep_ms", &[2u64, 5]);
    // steps taken while nothing is registered yet: the simulation clock advances all the same
    let base = *ch.of("steps_before_anything_is_registered", &[0usize, 2]);
    let late_at = base + *ch.of("late_host_registered_after_steps", &[1usize, 4]);
    // fault script for h1 (or for the late-registered h2): crash at step c, bounce k steps
    // later; or h1 finishes by itself and is bounced
    let victim: &'static str = *ch.of("fault_target", &["h1", "h2"]);
    let shift = if victim == "h2" { late_at + 1 } else { base };
    let h1_finishes = victim == "h1" && ch.flag("h1_software_returns_by_itself");
    let crash_points: Vec<Option<usize>> = if thorough {
        std::iter::once(None).chain((0..11).map(Some)).collect()
    } else {
        vec![None, Some(0), Some(2), Some(5)]
    };
    let crash_at: Option<usize> = *ch.of("crash_h1_before_step", &crash_points);
    let down: usize = if crash_at.is_some() || h1_finishes { *ch.of("bounce_after_steps", &[0usize, 1, 2, 5]) } else { 0 };
    let bounce_without_crash = crash_at.is_none() && !h1_finishes && ch.flag("bounce_h1_without_crash_at_step_3");
    // the first client finishes by itself early on (the second one is only registered later, so
    // for a while every client of the simulation has completed): the hosts keep their clocks
    let c1_finishes = crash_at.is_none() && ch.flag("first_client_finishes_early");
    let steps = if thorough { 20 } else { 12 };
    // with a short simulation duration every later step reports "ran for duration"; the
    // clocks keep advancing all the same when the caller steps on
    let limited = ch.flag("simulation_duration_of_4_and_a_half_ticks_and_keep_stepping");

    let mut b = builder(tick);
    b.epoch(epoch);
    if limited {
        // four and a half ticks: the duration boundary falls inside a step, which is a full
        // tick long like every other
        b.simulation_duration(Duration::from_micros(4 * tick * 1000 + tick * 500));
    }
    if random_order {
        b.enable_random_order();
    }
    let mut sim = b.build();
    let st = Rc::new(RefCell::new(ClockSt::default()));
    let epoch_dur = epoch.duration_since(UNIX_EPOCH).unwrap();
    let tickd = Duration::from_millis(tick);

    for k in 0..base {
        if let Err(e) = sim.step() {
            return Exec { outcome: 0, violation: Some(Violation::new("sim-error", e.to_string())), features: vec![] };
        }
        let want = Duration::from_millis(tick) * (k as u32 + 1);
        if sim.elapsed() != want {
            let mut v = Violation::new("sim-clock", format!("after {} steps of {tick}ms with nothing registered: Sim::elapsed = {:?} (want {:?})", k + 1, sim.elapsed(), want));
            v.sig = "sim-clock".into();
            v.scenario = format!("c05 tier={} empty-simulation steps", if thorough { "thorough" } else { "quick" });
            return Exec { outcome: 0, violation: Some(v), features: vec![] };
        }
    }
    let real_pause = tick == 1 && d1 == 1 && d2 == 2 && !random_order && epoch == epochs[0];
    SLOW_TEARDOWN.with(|s| s.set(real_pause));
    let st_h1 = st.clone();
    let fin = if h1_finishes { Some(2 * tick + 1) } else { None };
    // the synchronous part of the software factory runs inside `Sim::bounce`; what it reads from
    // the clocks there is judged like any other sample (at registration no host is current yet)
    let inc_h1 = Rc::new(std::cell::Cell::new(0u32));
    sim.host("h1", move || {
        if inc_h1.replace(inc_h1.get() + 1) > 0 {
            sample(&st_h1, "h1", "software factory called by bounce");
        }
        clock_program(st_h1.clone(), "h1", d1, fin)
    });
    sim.client("c1", clock_program(st.clone(), "c1", 2, if c1_finishes { Some(2 * tick + 1) } else { None }));
    // registration step of every host (steps completed at registration)
    let mut reg: Vec<(&'static str, usize)> = vec![("h1", base), ("c1", base)];
    let mut obs: Vec<String> = vec![];
    let mut violation: Option<Violation> = None;
    let mut feats: Vec<&'static str> = vec![];
    let mut crashed_at_step: Option<usize> = None;
    let finish_step = if h1_finishes { Some(base + ((2 * tick + 1) as usize).div_ceil(tick as usize)) } else { None };

    for k in base..steps + base {
        if k == late_at {
            let st_h2 = st.clone();
            let inc_h2 = Rc::new(std::cell::Cell::new(0u32));
            sim.host("h2", move || {
                if inc_h2.replace(inc_h2.get() + 1) > 0 {
                    sample(&st_h2, "h2", "software factory called by bounce");
                }
                clock_program(st_h2.clone(), "h2", d2, None)
            });
            reg.push(("h2", k));
            feats.push("late-host");
        }
        if k == 6 + base {
            sim.client("c2", clock_program(st.clone(), "c2", 3, None));
            reg.push(("c2", k));
        }
        if crash_at.map(|c| c + shift) == Some(k) {
            sim.crash(victim);
            crashed_at_step = Some(k);
            obs.push(format!("crash {victim} before step {k}"));
            feats.push("crash");
        }
        if let Some(c) = crashed_at_step {
            if k == c + down {
                // in one corner of the grid real time is pushed beyond the virtual time the host
                // has consumed before it is bounced: a wall-clock reading in the factory shows
                if real_pause {
                    std::thread::sleep(Duration::from_millis(tick * (k as u64 + 1) + 2));
                }
                // the factory runs between step k-1 and step k
                st.borrow_mut().step = k;
                sim.bounce(victim);
                obs.push(format!("bounce {victim} before step {k}"));
                crashed_at_step = None;
                feats.push("bounce");
            }
        }
        if let Some(f) = finish_step {
            if k == f + 1 + down {
                st.borrow_mut().step = k;
                sim.bounce("h1");
                obs.push(format!("bounce h1 (software had returned) before step {k}"));
                feats.push("bounce-after-finish");
            }
        }
        if bounce_without_crash && k == 3 + shift {
            st.borrow_mut().step = k;
            sim.bounce(victim);
            obs.push(format!("bounce {victim} without crash before step {k}"));
            feats.push("bounce-without-crash");
        }
        st.borrow_mut().step = k;
        if let Err(e) = sim.step() {
            if !(limited && is_timeout_err(&e.to_string())) {
                violation = Some(Violation::new("sim-error", e.to_string()));
                break;
            }
        }
        // the simulation clock itself
        let want = tickd * (k as u32 + 1);
        if sim.elapsed() != want || sim.since_epoch() != epoch_dur + want {
            violation = Some(Violation::new(
                "sim-clock",
                format!("after {} steps of {tick}ms: Sim::elapsed = {:?} (want {:?}), Sim::since_epoch = {:?} (want {:?})", k + 1, sim.elapsed(), want, sim.since_epoch(), epoch_dur + want),
            ));
            break;
        }
    }
    let g = st.borrow();
    if violation.is_none() {
        if let Some(e) = g.errors.first() {
            violation = Some(Violation::new("timer-instant", e.clone()));
        }
    }
    if violation.is_none() {
        let mut last: std::collections::BTreeMap<&str, Duration> = Default::default();
        for s in &g.samples {
            let r = reg.iter().find(|x| x.0 == s.host).map(|x| x.1).unwrap_or(0);
            let lo = tickd * s.step as u32;
            let hi = tickd * (s.step as u32 + 1);
            let offset = tickd * r as u32;
            let mut why = None;
            if s.what.starts_with("software factory") && s.sim_elapsed != lo {
                // (the value read is not printed: when it is wrong here it typically contains
                // wall-clock time and differs from run to run)
                why = Some(format!(
                    "sim_elapsed read by the software factory inside Sim::bounce, called when Sim::elapsed is {:?} (before step {}), is {} that",
                    lo,
                    s.step,
                    if s.sim_elapsed < lo { "earlier than" } else { "later than" },
                ));
            } else if s.sim_elapsed < lo || s.sim_elapsed > hi {
                why = Some(format!("sim_elapsed {:?} is outside the window [{:?}, {:?}] of step {}", s.sim_elapsed, lo, hi, s.step));
            } else if s.elapsed + offset != s.sim_elapsed {
                why = Some(format!("elapsed {:?} + simulation time at registration {:?} != sim_elapsed {:?}", s.elapsed, offset, s.sim_elapsed));
            } else if s.since_epoch != epoch_dur + s.sim_elapsed {
                why = Some(format!("since_epoch {:?} != configured epoch {:?} + sim_elapsed {:?}", s.since_epoch, epoch_dur, s.sim_elapsed));
            } else if let Some(l) = last.get(s.host) {
                if s.sim_elapsed < *l {
                    why = Some(format!("sim_elapsed went backwards: {:?} after {:?}", s.sim_elapsed, l));
                }
            }
            if let Some(w) = why {
                violation = Some(Violation::new("host-clock", format!("host {} ({}, registered after {} steps) in step {}: {}", s.host, s.what, r, s.step, w)));
                break;
            }
            last.insert(s.host, s.sim_elapsed);
        }
    }
    obs.push(format!("tick={tick} d1={d1} late_at={late_at} samples={} starts={:?}", g.samples.len(), g.starts));
    drop(g);
    if let Some(v) = violation.as_mut() {
        v.sig = v.clause.to_string();
        v.scenario = format!(
            "c05 tier={} tick={tick} random={random_order} d1={d1} d2={d2} late_at={late_at} finishes={h1_finishes} c1_finishes={c1_finishes} crash_at={crash_at:?} down={down} bounce_only={bounce_without_crash} limited={limited} victim={victim} epoch={epoch_dur:?}",
            if thorough { "thorough" } else { "quick" }
        );
        v.actions = obs.clone();
    }
    Exec { outcome: Digest::of64(&obs), violation, features: feats }
}

// ------------------------------------------------------------------------------------
// C11

#[derive(Clone, Copy, Debug, PartialEq, Eq, Hash)]
enum Out {
    Absent,
    Never,
    Ok(u64),
    Err(u64),
    PanicMain(u64),
    /// panic inside a spawned task that the main future awaits
    PanicSpawnedAwaited(u64),
    /// panic inside a detached spawned task; the main future never finishes
    PanicDetached(u64),
    /// panic inside a detached task spawned on the runtime (tokio::spawn) rather than on the
    /// LocalSet; the main future never finishes
    PanicDetachedRuntime(u64),
    /// Err produced by a spawned task and propagated by the main future
    ErrSpawnedAwaited(u64),
    /// Err inside a detached task (dropped silently); main future returns Ok at the same time
    ErrDetachedThenOk(u64),
    /// main future returns Ok while tasks it spawned (one on the LocalSet, one on the
    /// runtime) keep ticking
    OkLeavingTasks(u64),
}

thread_local! {
    /// (incarnations started, ticks of leftover tasks per incarnation)
    static LEFTOVER: RefCell<(usize, Vec<u64>)> = const { RefCell::new((0, Vec::new())) };
}

impl Out {
    /// (finish time ms, kind) of the software's *main future*; None = never finishes
    fn finish(self) -> Option<(u64, char)> {
        match self {
            Out::Absent | Out::Never | Out::PanicDetached(_) | Out::PanicDetachedRuntime(_) => None,
            Out::Ok(t) | Out::ErrDetachedThenOk(t) | Out::OkLeavingTasks(t) => Some((t, 'o')),
            Out::Err(t) | Out::ErrSpawnedAwaited(t) => Some((t, 'e')),
            Out::PanicMain(t) | Out::PanicSpawnedAwaited(t) => Some((t, 'p')),
        }
    }
    fn panic_time(self) -> Option<u64> {
        match self {
            Out::PanicMain(t) | Out::PanicSpawnedAwaited(t) | Out::PanicDetached(t) | Out::PanicDetachedRuntime(t) => Some(t),
            _ => None,
        }
    }
}

/// counts ticks of left-behind tasks in the high half of a participant's poll counter
/// (everything runs on one thread)
struct SendCounter(usize);
unsafe impl Send for SendCounter {}
impl SendCounter {
    fn bump(&self) {
        let rc: Rc<RefCell<u64>> = unsafe { Rc::from_raw(self.0 as *const RefCell<u64>) };
        *rc.borrow_mut() += 1 << 32;
        std::mem::forget(rc);
    }
}

async fn outcome_program(o: Out, polls: Rc<RefCell<u64>>) -> turmoil::Result {
    let polls2 = polls.clone();
    struct CountPolls<F>(F, Rc<RefCell<u64>>);
    impl<F: std::future::Future + Unpin> std::future::Future for CountPolls<F> {
        type Output = F::Output;
        fn poll(mut self: std::pin::Pin<&mut Self>, cx: &mut std::task::Context<'_>) -> std::task::Poll<F::Output> {
            *self.1.borrow_mut() += 1;
            std::pin::Pin::new(&mut self.0).poll(cx)
        }
    }
    let body = async move {
        let ms = |t: u64| Duration::from_millis(t);
        match o {
            Out::Absent | Out::Never => std::future::pending::<turmoil::Result>().await,
            Out::Ok(t) => {
                tokio::time::sleep(ms(t)).await;
                Ok(())
            }
            Out::Err(t) => {
                tokio::time::sleep(ms(t)).await;
                Err("software failed".into())
            }
            Out::PanicMain(t) => {
                tokio::time::sleep(ms(t)).await;
                panic!("injected panic in main future");
            }
            Out::PanicSpawnedAwaited(t) => {
                let h = tokio::task::spawn_local(async move {
                    tokio::time::sleep(ms(t)).await;
                    panic!("injected panic in awaited task");
                });
                let _ = h.await;
                Ok(())
            }
            Out::PanicDetached(t) => {
                tokio::task::spawn_local(async move {
                    tokio::time::sleep(ms(t)).await;
                    panic!("injected panic in detached task");
                });
                std::future::pending::<turmoil::Result>().await
            }
            Out::PanicDetachedRuntime(t) => {
                tokio::spawn(async move {
                    tokio::time::sleep(ms(t)).await;
                    panic!("injected panic in detached runtime task");
                });
                std::future::pending::<turmoil::Result>().await
            }
            Out::ErrSpawnedAwaited(t) => {
                let h = tokio::task::spawn_local(async move {
                    tokio::time::sleep(ms(t)).await;
                    Err::<(), String>("task failed".into())
                });
                match h.await {
                    Ok(Ok(())) => Ok(()),
                    Ok(Err(e)) => Err(e.into()),
                    Err(e) => Err(e.to_string().into()),
                }
            }
            Out::OkLeavingTasks(t) => {
                let inc = LEFTOVER.with(|l| {
                    let mut l = l.borrow_mut();
                    l.0 += 1;
                    l.1.push(0);
                    l.0 - 1
                });
                let hi = SendCounter(Rc::into_raw(polls2.clone()) as usize);
                tokio::task::spawn_local(async move {
                    loop {
                        tokio::time::sleep(ms(1)).await;
                        LEFTOVER.with(|l| l.borrow_mut().1[inc] += 1);
                        hi.bump();
                    }
                });
                let hi2 = SendCounter(Rc::into_raw(polls2.clone()) as usize);
                tokio::spawn(async move {
                    loop {
                        tokio::time::sleep(ms(1)).await;
                        LEFTOVER.with(|l| l.borrow_mut().1[inc] += 1);
                        hi2.bump();
                    }
                });
                tokio::time::sleep(ms(t)).await;
                Ok(())
            }
            Out::ErrDetachedThenOk(t) => {
                tokio::task::spawn_local(async move {
                    let r: Result<(), String> = Err("ignored".into());
                    let _ = r;
                });
                tokio::time::sleep(ms(t)).await;
                Ok(())
            }
        }
    };
    CountPolls(Box::pin(body), polls).await
}

#[derive(Clone, Debug, PartialEq, Eq, Hash)]
enum RunRes {
    Ok(u64), // elapsed ms at return
    Err,     // software error
    Timeout(u64),
    Panic,
}

/// reference: outcome table -> set of acceptable results (boundary coincidences may be
/// attributed to either adjacent step)
fn reference(parts: &[(Out, bool)], order: &[usize], tick: u64, dur: u64, random_order: bool) -> Vec<RunRes> {
    // parts: (outcome, is_client), in registration order. crashed hosts are Absent.
    let clients: Vec<Out> = parts.iter().filter(|p| p.1 && p.0 != Out::Absent).map(|p| p.0).collect();
    if clients.is_empty() {
        return vec![RunRes::Ok(0)];
    }
    // event times that sit on a step boundary are ambiguous: enumerate both attributions
    let mut evs: Vec<(usize, u64)> = parts
        .iter()
        .enumerate()
        .flat_map(|(i, p)| {
            let mut v = vec![];
            if let Some((t, _)) = p.0.finish() {
                v.push((i, t));
            }
            if let Some(t) = p.0.panic_time() {
                if p.0.finish().is_none() {
                    v.push((i, t));
                }
            }
            v
        })
        .collect();
    // a step visits the software in registration order
    evs.sort_by_key(|e| order.iter().position(|&o| o == e.0).unwrap_or(usize::MAX));
    let amb: Vec<usize> = evs.iter().enumerate().filter(|(_, e)| e.1 > 0 && e.1 % tick == 0).map(|(k, _)| k).collect();
    let mut out = vec![];
    for mask in 0..(1u32 << amb.len()) {
        // step index of each event
        let step_of = |k: usize| -> u64 {
            let t = evs[k].1;
            if t == 0 {
                0
            } else if t % tick == 0 {
                let pos = amb.iter().position(|&a| a == k).unwrap();
                if mask & (1 << pos) != 0 {
                    t / tick
                } else {
                    t / tick - 1
                }
            } else {
                t / tick
            }
        };
        let mut s = 0u64;
        let res = loop {
            // events of step s in registration order
            let mut hit = None;
            for (k, (i, _)) in evs.iter().enumerate() {
                if step_of(k) == s {
                    let o = parts[*i].0;
                    let kind = if o.panic_time().is_some() { 'p' } else { o.finish().unwrap().1 };
                    let r = match kind {
                        'p' => Some(RunRes::Panic),
                        'e' => Some(RunRes::Err),
                        _ => None,
                    };
                    if let Some(r) = r {
                        if hit.is_none() {
                            hit = Some(r.clone());
                        }
                        // with random host order any of the step's terminating events may be
                        // the one the step reaches first
                        if random_order && !out.contains(&r) {
                            out.push(r);
                        } else if !random_order {
                            break;
                        }
                    }
                }
            }
            if let Some(h) = hit {
                break h;
            }
            let all_done = parts.iter().enumerate().filter(|(_, p)| p.1 && p.0 != Out::Absent).all(|(i, p)| match p.0.finish() {
                Some((_, 'o')) => evs.iter().enumerate().any(|(k, e)| e.0 == i && step_of(k) <= s),
                _ => false,
            });
            let elapsed = (s + 1) * tick;
            if all_done {
                break RunRes::Ok(elapsed);
            }
            if elapsed > dur {
                break RunRes::Timeout(elapsed);
            }
            s += 1;
        };
        if !out.contains(&res) {
            out.push(res);
        }
    }
    out
}

pub fn c11_scenario(ch: &mut Chooser, thorough: bool) -> Exec {
    let tick = *ch.of("tick_ms", if thorough { &[1u64, 2, 3, 4][..] } else { &[2u64, 3][..] });
    let dur = *ch.of("duration_ms", if thorough { &[3u64, 4, 5, 6][..] } else { &[4u64, 5][..] });
    let random_order = thorough && ch.flag("random_host_order");
    let times: &[u64] = if thorough { &[0, 1, 2, 3, 4, 5, 6, 7, 9] } else { &[0, 1, 3, 4, 5, 7] };
    let mut menu_a: Vec<Out> = vec![Out::Never];
    for &t in times {
        menu_a.push(Out::Ok(t));
        menu_a.push(Out::Err(t));
    }
    menu_a.extend([Out::PanicMain(0), Out::PanicMain(3), Out::PanicSpawnedAwaited(1), Out::PanicDetached(3), Out::PanicDetachedRuntime(3), Out::ErrSpawnedAwaited(3), Out::ErrDetachedThenOk(1), Out::OkLeavingTasks(1)]);
    let a = *ch.of("client_a", &menu_a);
    let b_quick = [Out::Absent, Out::Ok(0), Out::Ok(5), Out::Never, Out::Ok(7), Out::Err(1), Out::Err(5)];
    let b_thorough = [Out::Absent, Out::Ok(0), Out::Ok(5), Out::Never, Out::Ok(7), Out::Err(1), Out::Err(5), Out::Ok(2), Out::Ok(4), Out::Err(4), Out::PanicMain(2), Out::PanicDetachedRuntime(5)];
    let b = *ch.of("client_b", if thorough { &b_thorough[..] } else { &b_quick[..] });
    let h = *ch.of("host", &[Out::Absent, Out::Never, Out::Err(1), Out::Err(7), Out::Ok(1), Out::PanicMain(3), Out::PanicDetached(1), Out::PanicDetachedRuntime(1), Out::OkLeavingTasks(1)]);
    LEFTOVER.with(|l| *l.borrow_mut() = (0, vec![]));
    let no_clients = a == Out::Never && b == Out::Absent && ch.flag("zero_clients_instead");
    let host_fault = if h != Out::Absent { *ch.of("host_fault", &["none", "crash-before-run", "bounce-before-run"]) } else { "none" };
    let by_step = ch.flag("drive_with_step_instead_of_run");
    // registration order decides the order in which a step visits the software
    let host_pos: usize = if h != Out::Absent && !no_clients { *ch.of("host_registered", &[0usize, 1, 2]) } else { 0 };
    let host_pos = if b == Out::Absent { host_pos.min(1) } else { host_pos };

    let mut bld = builder(tick);
    bld.simulation_duration(Duration::from_millis(dur));
    if random_order {
        bld.enable_random_order();
    }
    let mut sim = bld.build();
    let polls: Vec<Rc<RefCell<u64>>> = (0..3).map(|_| Rc::new(RefCell::new(0))).collect();
    // registration order: the host before, between or after the clients a, b
    let mut reg_host = |sim: &mut turmoil::Sim<'_>| {
        if h != Out::Absent {
            let p = polls[0].clone();
            sim.host("h", move || outcome_program(h, p.clone()));
        }
    };
    if host_pos == 0 {
        reg_host(&mut sim);
    }
    if !no_clients {
        sim.client("a", outcome_program(a, polls[1].clone()));
        if host_pos == 1 {
            reg_host(&mut sim);
        }
        if b != Out::Absent {
            sim.client("b", outcome_program(b, polls[2].clone()));
        }
        if host_pos == 2 {
            reg_host(&mut sim);
        }
    }
    let mut h_eff = h;
    match host_fault {
        "crash-before-run" => {
            sim.crash("h");
            h_eff = Out::Absent;
        }
        "bounce-before-run" => sim.bounce("h"),
        _ => {}
    }
    let polls_h_at_crash = *polls[0].borrow();
    let parts: Vec<(Out, bool)> = vec![(h_eff, false), (if no_clients { Out::Absent } else { a }, true), (if no_clients { Out::Absent } else { b }, true)];
    let order: Vec<usize> = match host_pos {
        0 => vec![0, 1, 2],
        1 => vec![1, 0, 2],
        _ => vec![1, 2, 0],
    };
    let want = reference(&parts, &order, tick, dur, random_order);

    let got: RunRes = {
        let r = vx_core::catch(|| {
            if by_step {
                let mut n = 0;
                loop {
                    match sim.step() {
                        Ok(true) => break Ok(()),
                        Ok(false) => {}
                        Err(e) => break Err(e),
                    }
                    n += 1;
                    if n > 50 {
                        break Err("step never reported completion".into());
                    }
                }
            } else {
                sim.run()
            }
        });
        match r {
            Err(_) => RunRes::Panic,
            Ok(Ok(())) => RunRes::Ok(sim.elapsed().as_millis() as u64),
            Ok(Err(e)) => {
                let m = e.to_string();
                if is_timeout_err(&m) {
                    RunRes::Timeout(sim.elapsed().as_millis() as u64)
                } else if m.contains("step never") {
                    RunRes::Timeout(u64::MAX)
                } else {
                    RunRes::Err
                }
            }
        }
    };
    // zero clients: run returns immediately; step-by-step reports completion after one step
    let want_adj: Vec<RunRes> = if no_clients || (a == Out::Absent) {
        if by_step {
            // step() with no clients: completion is reported by the first step (unless software fails in it)
            let mut w = reference(&[(h_eff, false), (Out::Ok(0), true)], &[0, 1], tick, dur, random_order);
            w.push(RunRes::Ok(tick));
            w
        } else {
            vec![RunRes::Ok(0)]
        }
    } else {
        want.clone()
    };
    let mut violation = None;
    let obs = format!("tick={tick} dur={dur} a={a:?} b={b:?} h={h:?} host_registered={host_pos} fault={host_fault} zero_clients={no_clients} by_step={by_step} random={random_order} -> {got:?} (reference {want_adj:?})");
    if !want_adj.contains(&got) {
        let clause = match (&got, want_adj.first()) {
            (RunRes::Ok(_), Some(RunRes::Ok(_))) => "elapsed-at-return",
            (RunRes::Ok(_), _) => "spurious-ok",
            (RunRes::Panic, _) => "unexpected-panic",
            (_, Some(RunRes::Panic)) => "panic-swallowed",
            (_, Some(RunRes::Ok(_))) => "spurious-error",
            _ => "wrong-error",
        };
        violation = Some(Violation::new(clause, obs.clone()));
    }
    if violation.is_none() && host_fault == "crash-before-run" && *polls[0].borrow() != polls_h_at_crash {
        violation = Some(Violation::new("polled-after-crash", format!("the crashed host's software was polled {} more times after Sim::crash", *polls[0].borrow() - polls_h_at_crash)));
    }
    // after a software error the same Sim may be driven further: software that has finished
    // (with Ok or Err) is never polled again, is not reported as running, and stepping on
    // does not panic (unless some software is scripted to panic)
    if violation.is_none() && got == RunRes::Err {
        let at = sim.elapsed().as_millis() as u64;
        let definitely_finished = |o: Out| o.finish().map(|(t, _)| t + tick <= at).unwrap_or(false);
        let someone_panics = parts.iter().any(|(o, _)| o.panic_time().is_some());
        let before: Vec<u64> = polls.iter().map(|p| *p.borrow()).collect();
        let mut panicked = false;
        for _ in 0..3 {
            if vx_core::catch(|| sim.step()).is_err() {
                panicked = true;
                break;
            }
        }
        if panicked && !someone_panics {
            violation = Some(Violation::new("unexpected-panic", format!("{obs}; stepping on after the error was returned panicked: {}", vx_core::take_last_panic().unwrap_or_default())));
        } else if !panicked {
            for (i, (o, _)) in parts.iter().enumerate() {
                if *o != Out::Absent && definitely_finished(*o) && (*polls[i].borrow() & 0xffff_ffff) != (before[i] & 0xffff_ffff) {
                    violation = Some(Violation::new(
                        "polled-after-finish",
                        format!("{obs}; software #{i} ({o:?}) had finished before the error was returned at {at}ms but was polled {} more times by later steps", *polls[i].borrow() - before[i]),
                    ));
                }
            }
            if violation.is_none() && h_eff != Out::Absent && definitely_finished(h_eff) && vx_core::catch(|| sim.is_host_running("h")).unwrap_or(true) {
                violation = Some(Violation::new("still-running", format!("{obs}; host h finished at {:?} but is_host_running is still true at {at}ms", h_eff.finish())));
            }
        }
    }
    // a host whose main future returned while its tasks were still alive: those tasks are
    // not polled again, neither while the host is merely finished nor after a bounce
    if violation.is_none() && matches!(h_eff, Out::OkLeavingTasks(_)) && !matches!(got, RunRes::Panic) {
        let at = sim.elapsed().as_millis() as u64;
        if h_eff.finish().map(|(t, _)| t + tick <= at).unwrap_or(false) {
            let first = LEFTOVER.with(|l| l.borrow().1.clone());
            let inc0 = first.len().saturating_sub(1);
            let bounce = ch.flag("bounce_the_finished_host");
            if bounce {
                let _ = vx_core::catch(|| sim.bounce("h"));
            }
            for _ in 0..3 {
                let _ = vx_core::catch(|| sim.step());
            }
            let later = LEFTOVER.with(|l| l.borrow().1.clone());
            if later.get(inc0) != first.get(inc0) {
                violation = Some(Violation::new(
                    "polled-after-finish",
                    format!(
                        "{obs}; the tasks left behind by host h's finished incarnation ticked {} more times during 3 further steps{}",
                        later[inc0] - first[inc0],
                        if bounce { " after Sim::bounce (the old incarnation shares a runtime with the new one)" } else { "" }
                    ),
                ));
            }
        }
    }
    // a second run without any new client: every client has finished, so it performs exactly
    // one more step — in which still-running host software may fail
    if violation.is_none() && matches!(got, RunRes::Ok(_)) && !no_clients && !by_step && !matches!(h_eff, Out::OkLeavingTasks(_)) && ch.flag("second_run_without_a_new_client") {
        let before = sim.elapsed().as_millis() as u64;
        let r = vx_core::catch(|| sim.run());
        let after = sim.elapsed().as_millis() as u64;
        // the host's terminating event, if it is still to come
        let ev: Option<(u64, char)> = match h_eff {
            Out::Absent | Out::Never => None,
            o => o.panic_time().map(|t| (t, 'p')).or_else(|| o.finish().filter(|f| f.1 == 'e')).filter(|(t, _)| *t >= before),
        };
        let inside = ev.map(|(t, _)| t > before && t < before + tick).unwrap_or(false);
        let boundary = ev.map(|(t, _)| t == before || t == before + tick).unwrap_or(false);
        let ok = match &r {
            Ok(Ok(())) => !inside && after == before + tick,
            Ok(Err(_)) => (inside || boundary) && ev.map(|e| e.1 == 'e').unwrap_or(false),
            Err(_) => (inside || boundary) && ev.map(|e| e.1 == 'p').unwrap_or(false),
        };
        if !ok {
            violation = Some(Violation::new(
                "second-run",
                format!(
                    "{obs}; a second run() without new clients returned {:?} with elapsed {after}ms (was {before}ms): it must perform exactly one step of {tick}ms, in which host {h_eff:?} {}",
                    match &r {
                        Ok(Ok(())) => "Ok".to_string(),
                        Ok(Err(e)) => format!("Err({})", if e.to_string().contains("panicked") { "a task panicked" } else { "software error" }),
                        Err(_) => "a panic".to_string(),
                    },
                    if inside { "fails" } else if boundary { "may fail (boundary)" } else { "does not fail" }
                ),
            ));
        }
    }
    // a second run after registering another client continues from where the first stopped
    else if violation.is_none() && matches!(got, RunRes::Ok(_)) && !no_clients && !by_step {
        let before = sim.elapsed();
        let p = Rc::new(RefCell::new(0));
        sim.client("late", outcome_program(Out::Ok(1), p));
        let r = vx_core::catch(|| sim.run());
        // the late client finishes 1ms into the second run, i.e. in step f (0-based) of that
        // run, where a finish on a step boundary may be attributed to either side; the run
        // times out when the duration is exceeded at the end of an earlier step
        let before_ms = before.as_millis() as u64;
        let fs: Vec<u64> = if 1 % tick == 0 { vec![1 / tick - 1, 1 / tick] } else { vec![1 / tick] };
        let may_finish = fs.iter().any(|f| *f == 0 || before_ms + f * tick <= dur);
        let may_time_out = fs.iter().any(|f| *f > 0 && before_ms + f * tick > dur);
        let timed_out = matches!(&r, Ok(Err(e)) if is_timeout_err(&e.to_string()));
        let ok = (matches!(r, Ok(Ok(()))) && may_finish)
            || (timed_out && may_time_out)
            || (!timed_out && matches!(r, Ok(Err(_)) | Err(_)) && h_eff != Out::Absent && h_eff != Out::Never && h_eff.finish().map(|f| f.1 != 'o').unwrap_or(true));
        if !ok || (matches!(r, Ok(Ok(()))) && sim.elapsed() <= before && before < Duration::from_millis(dur)) {
            violation = Some(Violation::new("second-run", format!("{obs}; second run after registering a client that finishes after 1ms returned {:?} with elapsed {:?} (was {:?})", r.map(|x| x.map_err(|e| e.to_string())), sim.elapsed(), before)));
        }
    }
    // tasks left behind by a client whose main future has returned are not polled by later
    // steps (of this run or of the next): they tick at most until the end of the step in
    // which the client finished
    if violation.is_none() && !matches!(got, RunRes::Panic) && !no_clients {
        if let Out::OkLeavingTasks(t) = a {
            let bound = 2 * tick * (t / tick + 1);
            let _ = vx_core::catch(|| sim.step());
            let ticks = *polls[1].borrow() >> 32;
            if ticks > bound {
                violation = Some(Violation::new(
                    "polled-after-finish",
                    format!("{obs}; the two tasks left behind by client a (finished at {t}ms) ticked {ticks} times in total; after its step they must not be polled again (at most {bound})"),
                ));
            }
        }
    }
    let feats = match got {
        RunRes::Ok(_) => vec!["ok"],
        RunRes::Err => vec!["err"],
        RunRes::Timeout(_) => vec!["timeout"],
        RunRes::Panic => vec!["panic"],
    };
    if let Some(v) = violation.as_mut() {
        v.sig = v.clause.to_string();
        v.scenario = format!("c11 tier={}", if thorough { "thorough" } else { "quick" });
        v.actions = vec![obs.clone()];
    }
    Exec { outcome: Digest::of64(&obs), violation, features: feats }
}

/// The error `Sim::run` / `Sim::step` report when the duration is exceeded is told apart from a
/// software error by exclusion: every error a program of this harness produces carries one of the
/// harness's own texts (or tokio's JoinError text), so the wording of turmoil's message is not
/// relied upon.
fn is_timeout_err(m: &str) -> bool {
    !(m.contains("software failed") || m.contains("task failed") || m.contains("panicked") || m.contains("cancelled") || m.contains("step never"))
}
