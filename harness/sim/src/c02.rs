//! C02 — turmoil::net TCP delivers an intact, ordered byte stream and then EOF.
//!
//! The link between writer and reader is held for the whole run; nothing moves unless
//! the driver delivers it, so every delivery order of the in-flight segments (SYN, data,
//! FIN) is reachable. Writer behaviour is a policy grid, reader timing and delivery are
//! the (deviation-bounded) choices.

use std::cell::RefCell;
use std::net::{IpAddr, SocketAddr};
use std::rc::Rc;

use tokio::io::{AsyncReadExt, AsyncWriteExt};
use tokio::sync::Notify;
use turmoil::net::{TcpListener, TcpStream};
use vx_core::dfs::Exec;
use vx_core::{Chooser, Digest, Violation};

use crate::kit::*;

#[derive(Clone, Copy, Debug, PartialEq, Eq)]
enum Close {
    Shutdown,
    Drop,
    Keep,
}
#[derive(Clone, Copy, Debug, PartialEq, Eq)]
enum Topo {
    RemoteV4,
    RemoteV6,
    OwnAddr,
    Localhost,
}
#[derive(Clone, Copy, Debug, PartialEq, Eq)]
enum Rd {
    Read(usize),
    Peek(usize),
}

#[derive(Default)]
struct St {
    accepted: Vec<u8>,
    would_block: u32,
    w_connected: Option<Result<(), String>>,
    w_closed: bool,
    w_err: Option<String>,
    // reader
    cmd: Option<Rd>,
    busy: bool,
    consumed: Vec<u8>,
    eof: bool,
    /// end-of-file was first reported by a peek / has been reported by a read
    eof_via_peek: bool,
    eof_confirmed: bool,
    r_err: Option<String>,
    r_accepted: bool,
    log: Vec<String>,
    viol: Option<(String, String)>,
}

fn pat(i: usize) -> u8 {
    (i as u8).wrapping_mul(7).wrapping_add(3)
}

pub fn scenario(ch: &mut Chooser, thorough: bool) -> Exec {
    let caps: &[usize] = if thorough { &[1, 2, 3] } else { &[1, 2] };
    let cap = *ch.of("tcp_capacity", caps);
    let chunkings: &[&[usize]] = if thorough { &[&[2, 2], &[1, 2, 1], &[1, 1, 1, 1], &[2, 1, 2, 1], &[1, 0, 2, 1], &[0, 2, 2, 0]] } else { &[&[2, 2], &[1, 0, 2, 1]] };
    let chunks: Vec<usize> = ch.of("chunking", chunkings).to_vec();
    let try_write = ch.flag("writer_uses_try_write");
    let close = *ch.of("close", &[Close::Shutdown, Close::Drop, Close::Keep]);
    let rpats: &[&[Rd]] = &[&[Rd::Read(8)], &[Rd::Read(1)], &[Rd::Peek(2), Rd::Read(1)], &[Rd::Read(0), Rd::Read(2)], &[Rd::Read(1), Rd::Read(0)]];
    let rpat: Vec<Rd> = ch.of("reader_buffers", rpats).to_vec();
    let topos: &[Topo] = if thorough { &[Topo::RemoteV4, Topo::RemoteV6, Topo::OwnAddr, Topo::Localhost] } else { &[Topo::RemoteV4, Topo::Localhost, Topo::RemoteV6] };
    let topo = *ch.of("topology", topos);
    let split = ch.flag("owned_split_halves");
    let delay = *ch.of("reader_start_round", &[0usize, 3, 6]);
    // half close in the other direction first: the reading side shuts down its own write
    // half right after accept (its FIN sits unread at the writer)
    let reader_half_closes = ch.flag("reader_shuts_down_its_write_side_first");
    // the reading side sends one byte that the writer never reads: a later drop of the
    // writer's stream is then abortive (RST), which may end the stream early but must not
    // hand the reader anything that is not a prefix
    let reader_sends_byte = ch.flag("reader_sends_one_unread_byte_first");
    // the writer splits its stream and drops the read half at once (nothing unread), then
    // writes through the owned write half: a FIN from the other side must not reset anything
    let writer_drops_read_half = !try_write && !reader_sends_byte && ch.flag("writer_drops_its_read_half_first");
    // the writer splits its stream into owned halves and puts them back together with
    // `reunite` before writing: the reunited stream must behave like the original (bytes,
    // half close, drop)
    let writer_reunites = !writer_drops_read_half && !try_write && !reader_sends_byte && delay == 0 && !reader_half_closes && ch.flag("writer_splits_and_reunites_first");
    let abortive_possible = reader_sends_byte && close == Close::Drop;

    let mut b = builder(1);
    b.tcp_capacity(cap);
    if topo == Topo::RemoteV6 {
        b.ip_version(turmoil::IpVersion::V6);
    }
    let mut sim = b.build();
    let st = Rc::new(RefCell::new(St::default()));
    let notify = Rc::new(Notify::new());
    let same_host = matches!(topo, Topo::OwnAddr | Topo::Localhost);
    let v6 = topo == Topo::RemoteV6;

    // reader
    let (st_r, n_r) = (st.clone(), notify.clone());
    let reader = async move {
        let l = if v6 { TcpListener::bind(("::", 80)).await? } else { TcpListener::bind(("0.0.0.0", 80)).await? };
        let (s, _peer) = l.accept().await?;
        let mut s = s;
        if reader_sends_byte {
            let _ = s.write_all(&[0x55]).await;
        }
        // with owned halves the half close goes through the write half, which is then dropped
        // while the read half keeps reading
        if reader_half_closes && !split {
            let _ = s.shutdown().await;
        }
        st_r.borrow_mut().r_accepted = true;
        let (mut rd, _wr_keep): (Box<dyn tokio::io::AsyncRead + Unpin>, Option<turmoil::net::tcp::OwnedWriteHalf>);
        let mut peekable: Option<TcpStream> = None;
        if split {
            let (r, mut w) = s.into_split();
            rd = Box::new(r);
            if reader_half_closes {
                let _ = w.shutdown().await;
                drop(w);
                _wr_keep = None;
            } else {
                _wr_keep = Some(w);
            }
        } else {
            peekable = Some(s);
            rd = Box::new(tokio::io::empty());
            _wr_keep = None;
        }
        loop {
            let cmd = loop {
                let c = st_r.borrow_mut().cmd.take();
                match c {
                    Some(c) => break c,
                    None => n_r.notified().await,
                }
            };
            st_r.borrow_mut().busy = true;
            let mut buf = [0u8; 16];
            let res: std::io::Result<(usize, bool)> = match (cmd, peekable.as_mut()) {
                (Rd::Read(n), Some(s)) => s.read(&mut buf[..n]).await.map(|k| (k, false)),
                (Rd::Peek(n), Some(s)) => s.peek(&mut buf[..n]).await.map(|k| (k, true)),
                (Rd::Read(n), None) | (Rd::Peek(n), None) => rd.read(&mut buf[..n]).await.map(|k| (k, false)),
            };
            let mut g = st_r.borrow_mut();
            g.busy = false;
            match res {
                Ok((k, is_peek)) => {
                    let want_n = match cmd {
                        Rd::Read(n) | Rd::Peek(n) => n,
                    };
                    g.log.push(format!("{:?} -> {:?}", cmd, &buf[..k]));
                    // oracle (on the spot, against the bytes accepted so far)
                    let pos = g.consumed.len();
                    let ok_prefix = g.accepted.len() >= pos + k && g.accepted[pos..pos + k] == buf[..k];
                    if !ok_prefix && g.viol.is_none() {
                        g.viol = Some((
                            "prefix".into(),
                            format!(
                                "{:?} returned {:?} at stream offset {}, but the writer's accepted bytes there are {:?} (accepted so far {:?})",
                                cmd,
                                &buf[..k],
                                pos,
                                &g.accepted[pos.min(g.accepted.len())..(pos + k).min(g.accepted.len())],
                                g.accepted
                            ),
                        ));
                    }
                    if k == 0 && want_n > 0 {
                        // EOF
                        if (g.consumed.len() != g.accepted.len() || !g.w_closed) && g.viol.is_none() {
                            g.viol = Some((
                                "early-eof".into(),
                                format!(
                                    "{:?} returned 0 (EOF) after {} bytes although {} bytes were accepted (writer closed: {})",
                                    cmd,
                                    g.consumed.len(),
                                    g.accepted.len(),
                                    g.w_closed
                                ),
                            ));
                        }
                        g.eof = true;
                        if is_peek {
                            g.eof_via_peek = true;
                        } else {
                            g.eof_confirmed = true;
                        }
                    }
                    if !is_peek {
                        g.consumed.extend_from_slice(&buf[..k]);
                    }
                }
                Err(e) => {
                    g.log.push(format!("{:?} -> Err({})", cmd, errk(&e)));
                    g.r_err = Some(errk(&e));
                }
            }
        }
        #[allow(unreachable_code)]
        Ok(())
    };

    // writer
    let st_w = st.clone();
    let chunks_w = chunks.clone();
    let writer = move |dst: SocketAddr| async move {
        let s = TcpStream::connect(dst).await;
        let s = match s {
            Ok(s) => {
                st_w.borrow_mut().w_connected = Some(Ok(()));
                s
            }
            Err(e) => {
                st_w.borrow_mut().w_connected = Some(Err(errk(&e)));
                return Ok(());
            }
        };
        if writer_drops_read_half {
            let (r, mut w) = s.into_split();
            drop(r);
            let mut off = 0;
            for c in chunks_w {
                let data: Vec<u8> = (off..off + c).map(pat).collect();
                match w.write_all(&data).await {
                    Ok(()) => st_w.borrow_mut().accepted.extend_from_slice(&data),
                    Err(e) => {
                        st_w.borrow_mut().w_err = Some(errk(&e));
                        return Ok(());
                    }
                }
                off += c;
            }
            match close {
                Close::Shutdown => {
                    let r = w.shutdown().await;
                    let mut g = st_w.borrow_mut();
                    if let Err(e) = r {
                        g.w_err = Some(errk(&e));
                    }
                    g.w_closed = true;
                    drop(g);
                    std::future::pending::<()>().await;
                }
                Close::Drop => {
                    st_w.borrow_mut().w_closed = true;
                    drop(w);
                    std::future::pending::<()>().await;
                }
                Close::Keep => std::future::pending::<()>().await,
            }
            return Ok(());
        }
        let mut s = if writer_reunites {
            let (r, w) = s.into_split();
            match r.reunite(w) {
                Ok(s) => s,
                Err(_) => {
                    st_w.borrow_mut().w_err = Some("reunite of two halves of one stream failed".into());
                    return Ok(());
                }
            }
        } else {
            s
        };
        let mut off = 0;
        for c in chunks_w {
            let data: Vec<u8> = (off..off + c).map(pat).collect();
            if try_write {
                loop {
                    match s.try_write(&data) {
                        Ok(n) => {
                            st_w.borrow_mut().accepted.extend_from_slice(&data[..n]);
                            if n != data.len() {
                                st_w.borrow_mut().w_err = Some(format!("short try_write {n}"));
                            }
                            break;
                        }
                        Err(e) if e.kind() == std::io::ErrorKind::WouldBlock => {
                            st_w.borrow_mut().would_block += 1;
                            if let Err(e) = s.writable().await {
                                st_w.borrow_mut().w_err = Some(errk(&e));
                                return Ok(());
                            }
                        }
                        Err(e) => {
                            st_w.borrow_mut().w_err = Some(errk(&e));
                            return Ok(());
                        }
                    }
                }
            } else if data.is_empty() {
                // an empty write is accepted as such and puts nothing into the stream
                match s.write(&data).await {
                    Ok(0) => {}
                    Ok(n) => st_w.borrow_mut().w_err = Some(format!("empty write returned {n}")),
                    Err(e) => {
                        st_w.borrow_mut().w_err = Some(errk(&e));
                        return Ok(());
                    }
                }
            } else {
                match s.write_all(&data).await {
                    Ok(()) => st_w.borrow_mut().accepted.extend_from_slice(&data),
                    Err(e) => {
                        st_w.borrow_mut().w_err = Some(errk(&e));
                        return Ok(());
                    }
                }
            }
            off += c;
        }
        match close {
            Close::Shutdown => {
                let r = s.shutdown().await;
                let mut g = st_w.borrow_mut();
                if let Err(e) = r {
                    g.w_err = Some(errk(&e));
                }
                g.w_closed = true;
                drop(g);
                std::future::pending::<()>().await;
            }
            Close::Drop => {
                st_w.borrow_mut().w_closed = true;
                drop(s);
                std::future::pending::<()>().await;
            }
            Close::Keep => {
                std::future::pending::<()>().await;
            }
        }
        Ok::<(), Box<dyn std::error::Error>>(())
    };

    let (wip, rip): (IpAddr, IpAddr);
    if same_host {
        // one host runs both programs
        let w = writer;
        let topo2 = topo;
        sim.client("r", async move {
            let me = turmoil::lookup("r");
            let dst = match topo2 {
                Topo::OwnAddr => SocketAddr::new(me, 80),
                _ => "127.0.0.1:80".parse().unwrap(),
            };
            tokio::task::spawn_local(async move {
                let _ = w(dst).await;
            });
            reader.await
        });
        rip = sim.lookup("r");
        wip = rip;
    } else {
        sim.client("r", reader);
        rip = sim.lookup("r");
        sim.client("w", async move { writer(SocketAddr::new(rip, 80)).await });
        wip = sim.lookup("w");
        sim.hold("w", "r");
    }

    let mut obs: Vec<String> = vec![];
    let mut violation: Option<Violation> = None;
    let mut rp = 0usize;
    let max_rounds = 14 + chunks.len() * 2 + delay;
    let mut feats: Vec<&'static str> = vec![];
    let mut suffix = false;
    let mut round = 0;
    let total_rounds = max_rounds + 30;
    while round < total_rounds {
        if round == max_rounds {
            suffix = true;
        }
        // --- environment: which in-flight message is delivered this round
        if !same_host {
            let msgs = link_msgs(&sim, wip, rip);
            if !msgs.is_empty() {
                let k = if suffix { 0 } else { ch.deviate("deliver", msgs.len() + 1) };
                if k < msgs.len() {
                    if k > 0 {
                        feats.push("reordered");
                    }
                    obs.push(format!("deliver {}", msgs[k]));
                    deliver_nth(&sim, wip, rip, k);
                } else {
                    obs.push("deliver nothing".into());
                }
            }
        }
        // --- reader: issue the next read unless it is still waiting for one
        let (busy, accepted_conn) = {
            let g = st.borrow();
            (g.busy || g.cmd.is_some(), g.r_accepted)
        };
        if !busy && accepted_conn && round >= delay {
            let skip = if suffix { false } else { ch.dev_flag("reader_skips_round") };
            if !skip {
                let mut cmd = rpat[rp % rpat.len()];
                if suffix {
                    // keep reading with a buffer that can make progress
                    cmd = match cmd {
                        Rd::Read(0) | Rd::Peek(_) => Rd::Read(2),
                        c => c,
                    };
                }
                rp += 1;
                st.borrow_mut().cmd = Some(cmd);
                notify.notify_one();
            } else {
                feats.push("slow-reader");
            }
        }
        if let Err(e) = sim.step() {
            violation = Some(Violation::new("sim-error", format!("Sim::step failed: {e}")));
            break;
        }
        round += 1;
        let g = st.borrow();
        if let Some((c, d)) = &g.viol {
            violation = Some(Violation::new(c, d.clone()));
            break;
        }
        // done?
        let all_read = g.consumed.len() == g.accepted.len();
        let writer_done = g.w_closed || g.w_err.is_some() || (close == Close::Keep && g.accepted.len() == chunks.iter().sum::<usize>());
        let eof_done = g.eof && (g.eof_confirmed || !g.eof_via_peek);
        if writer_done && all_read && (eof_done || close == Close::Keep || g.r_err.is_some()) && suffix {
            break;
        }
        if g.r_err.is_some() && suffix {
            break;
        }
    }
    let g = st.borrow();
    obs.push(format!(
        "accepted={:?} consumed={:?} eof={} r_err={:?} w_err={:?} wouldblock={} reads={:?}",
        g.accepted, g.consumed, g.eof, g.r_err, g.w_err, g.would_block, g.log
    ));
    if g.would_block > 0 {
        feats.push("would-block");
    }
    let reset_after_abortive_drop = abortive_possible && g.r_err.as_deref() == Some("ConnectionReset");
    if violation.is_none() && !reset_after_abortive_drop {
        // liveness after the fair suffix (link healthy = every held message delivered FIFO)
        let total: usize = chunks.iter().sum();
        let mut why = vec![];
        if g.w_connected != Some(Ok(())) {
            why.push(format!("connect {:?}", g.w_connected));
        }
        if g.accepted.len() != total {
            why.push(format!("writer got only {} of {} bytes accepted (error {:?})", g.accepted.len(), total, g.w_err));
        }
        // graceful close: shutdown, or drop (the writer never has unread inbound data here)
        if let Some(e) = &g.r_err {
            why.push(format!("reader failed with {e}"));
        }
        if g.consumed != g.accepted {
            why.push(format!("reader consumed {} of {} accepted bytes", g.consumed.len(), g.accepted.len()));
        }
        if close != Close::Keep && !g.eof {
            why.push("reader never saw EOF although the writer closed its write side".into());
        }
        if g.eof && g.eof_via_peek && !g.eof_confirmed {
            why.push("a peek reported end-of-file, but the read issued after it never completed (end-of-file must be sticky)".into());
        }
        if !why.is_empty() {
            violation = Some(Violation::new(
                "stall",
                format!("after the fair suffix (every held message delivered FIFO, reader keeps reading): {}", why.join("; ")),
            ));
        }
    }
    drop(g);
    if let Some(v) = violation.as_mut() {
        v.sig = format!("{}|close={:?}|cap={}|late={}", v.clause, close, cap, delay > 0);
        v.scenario = format!(
            "tier={} cap={cap} chunks={chunks:?} try_write={try_write} close={close:?} reader={rpat:?} topo={topo:?} split={split} reader_start={delay} reader_half_closes={reader_half_closes} reader_sends_byte={reader_sends_byte} writer_drops_read_half={writer_drops_read_half} writer_reunites={writer_reunites}",
            if thorough { "thorough" } else { "quick" }
        );
        v.actions = obs.clone();
    }
    Exec { outcome: Digest::of64(&obs), violation, features: feats }
}

// ---------------------------------------------------------------------------------------
// Part 2: timed latencies. The link is not held: every message (SYN, data, FIN) gets its
// latency from the explorer through the latency-variate hook (range 1..9 ms at a 1 ms
// tick, so segments overtake each other), both directions carry data at once, and a
// hold/release or a partition (+ repair) may be imposed mid-stream.

#[derive(Default)]
struct Side {
    accepted: Vec<u8>,
    consumed: Vec<u8>,
    eof: bool,
    rerr: Option<String>,
    werr: Option<String>,
    connected: bool,
}

async fn pump(s: TcpStream, me: Rc<RefCell<Side>>, chunks: Vec<usize>, base: u8, burst: bool, rbuf: usize, split: bool, rdelay: u64) {
    let (mut rd, mut wr): (Box<dyn tokio::io::AsyncRead + Unpin>, Box<dyn tokio::io::AsyncWrite + Unpin>) = if split {
        let (r, w) = s.into_split();
        (Box::new(r), Box::new(w))
    } else {
        let (r, w) = tokio::io::split(s);
        (Box::new(r), Box::new(w))
    };
    let mw = me.clone();
    let writer = async move {
        let mut i = 0usize;
        for c in chunks {
            let data: Vec<u8> = (0..c).map(|k| base.wrapping_add(((i + k) as u8).wrapping_mul(5))).collect();
            match wr.write_all(&data).await {
                Ok(()) => mw.borrow_mut().accepted.extend_from_slice(&data),
                Err(e) => {
                    mw.borrow_mut().werr = Some(errk(&e));
                    return;
                }
            }
            i += c;
            if !burst {
                tokio::time::sleep(std::time::Duration::from_millis(1)).await;
            }
        }
        if let Err(e) = wr.shutdown().await {
            mw.borrow_mut().werr = Some(format!("shutdown {}", errk(&e)));
        }
        // keep the write half alive: dropping it is a separate (C04) subject
        std::future::pending::<()>().await;
    };
    let mr = me.clone();
    let reader = async move {
        let mut buf = vec![0u8; rbuf];
        if rdelay > 0 {
            tokio::time::sleep(std::time::Duration::from_millis(rdelay)).await;
        }
        loop {
            match rd.read(&mut buf).await {
                Ok(0) => {
                    mr.borrow_mut().eof = true;
                    break;
                }
                Ok(n) => mr.borrow_mut().consumed.extend_from_slice(&buf[..n]),
                Err(e) => {
                    mr.borrow_mut().rerr = Some(errk(&e));
                    break;
                }
            }
        }
        std::future::pending::<()>().await;
    };
    tokio::join!(writer, reader);
}

struct HookGuard;
impl Drop for HookGuard {
    fn drop(&mut self) {
        turmoil::verif::set_chooser(None);
    }
}

pub fn timed_scenario(ch: &mut Chooser, thorough: bool) -> Exec {
    let caps: &[usize] = if thorough { &[1, 2, 8] } else { &[1, 8] };
    let cap = *ch.of("tcp_capacity", caps);
    let chunkings: &[&[usize]] = if thorough { &[&[1, 1, 1], &[2, 1, 2], &[1, 1, 1, 1, 1]] } else { &[&[1, 1, 1], &[2, 1, 2]] };
    let c_chunks: Vec<usize> = ch.of("client_chunking", chunkings).to_vec();
    let s_opts: &[&[usize]] = if thorough { &[&[], &[1, 2], &[1, 1, 1]] } else { &[&[], &[1, 2]] };
    let s_chunks: Vec<usize> = ch.of("server_chunking", s_opts).to_vec();
    let burst = ch.flag("writes_back_to_back");
    let rbufs: &[usize] = if thorough { &[1, 3, 16] } else { &[1, 16] };
    let rbuf = *ch.of("read_buffer", rbufs);
    let split = ch.flag("owned_split_halves");
    let rdelay = *ch.of("readers_start_after_ms", &[0u64, 25]);
    // 0 none, 1 hold..release, 2 partition (never repaired), 3 partition..repair,
    // 4 hold, repair one step later (which leaves the held messages parked), release
    let fault = ch.choose("mid_stream_fault(none|hold-release|partition|partition-repair|hold-repair-release)", 5);
    let fault_at = if fault == 0 { 0 } else { *ch.of("fault_before_step", if thorough { &[1usize, 2, 3, 5][..] } else { &[1usize, 3][..] }) };
    let fault_len = if fault == 1 || fault == 3 || fault == 4 { *ch.of("fault_lasts_steps", &[1usize, 4]) } else { 0 };

    let mut b = builder(1);
    b.tcp_capacity(cap).min_message_latency(std::time::Duration::from_millis(1)).max_message_latency(std::time::Duration::from_millis(9));
    let mut sim = b.build();
    let cs: Rc<RefCell<Side>> = Rc::new(RefCell::new(Side::default()));
    let ss: Rc<RefCell<Side>> = Rc::new(RefCell::new(Side::default()));
    let (ss2, sc) = (ss.clone(), s_chunks.clone());
    sim.host("srv", move || {
        let (ss2, sc) = (ss2.clone(), sc.clone());
        async move {
            let l = TcpListener::bind(("0.0.0.0", 80)).await?;
            let (s, _) = l.accept().await?;
            ss2.borrow_mut().connected = true;
            pump(s, ss2, sc, 0x80, burst, rbuf, split, rdelay).await;
            Ok(())
        }
    });
    let (cs2, cc) = (cs.clone(), c_chunks.clone());
    sim.host("cli", move || {
        let (cs2, cc) = (cs2.clone(), cc.clone());
        async move {
            match TcpStream::connect(("srv", 80)).await {
                Ok(s) => {
                    cs2.borrow_mut().connected = true;
                    pump(s, cs2, cc, 0x10, burst, rbuf, split, rdelay).await;
                }
                Err(e) => cs2.borrow_mut().werr = Some(format!("connect {}", errk(&e))),
            }
            std::future::pending::<()>().await;
            Ok(())
        }
    });

    // latency of every message chosen by the explorer (deviation = not the minimum)
    let chp: *mut Chooser = ch;
    let _guard = HookGuard;
    turmoil::verif::set_chooser(Some(Box::new(move |site, n| {
        if site != "latency-variate" {
            return 0;
        }
        let c = unsafe { &mut *chp };
        c.deviate("latency-variate", n)
    })));

    let mut violation: Option<Violation> = None;
    let mut obs: Vec<String> = vec![];
    let total = if thorough { 110usize } else { 90 };
    let check_prefix = |cs: &Side, ss: &Side| -> Option<Violation> {
        if !ss.accepted.starts_with(&cs.consumed) {
            return Some(Violation::new("prefix", format!("client read {:?}, which is not a prefix of what the server's writes accepted {:?}", cs.consumed, ss.accepted)));
        }
        if !cs.accepted.starts_with(&ss.consumed) {
            return Some(Violation::new("prefix", format!("server read {:?}, which is not a prefix of what the client's writes accepted {:?}", ss.consumed, cs.accepted)));
        }
        None
    };
    for k in 0..total {
        if fault != 0 && k == fault_at {
            match fault {
                1 | 4 => sim.hold("cli", "srv"),
                _ => sim.partition("cli", "srv"),
            }
            obs.push(format!("step {k}: {}", if fault == 1 || fault == 4 { "hold" } else { "partition" }));
        }
        if fault == 4 && k == fault_at + 1 {
            sim.repair("cli", "srv");
            obs.push(format!("step {k}: repair (the link is held, not partitioned)"));
        }
        if (fault == 1 || fault == 3) && k == fault_at + fault_len || fault == 4 && k == fault_at + fault_len + 1 {
            if fault == 1 || fault == 4 {
                sim.release("cli", "srv")
            } else {
                sim.repair("cli", "srv")
            }
            obs.push(format!("step {k}: {}", if fault == 1 || fault == 4 { "release" } else { "repair" }));
        }
        if let Err(e) = vx_core::catch(|| sim.step()).unwrap_or_else(|p| Err(p.into())) {
            violation = Some(Violation::new("sim-error", e.to_string()));
            break;
        }
        if let Some(v) = check_prefix(&cs.borrow(), &ss.borrow()) {
            violation = Some(v);
            break;
        }
    }
    turmoil::verif::set_chooser(None);
    let (c, s) = (cs.borrow(), ss.borrow());
    obs.push(format!("client: accepted {:?} consumed {:?} eof {} rerr {:?} werr {:?}", c.accepted, c.consumed, c.eof, c.rerr, c.werr));
    obs.push(format!("server: accepted {:?} consumed {:?} eof {} rerr {:?} werr {:?}", s.accepted, s.consumed, s.eof, s.rerr, s.werr));
    if violation.is_none() && (fault < 2 || fault == 4) {
        // healthy link (a hold only delays): everything accepted is read, then EOF, no errors
        let want_c: usize = c_chunks.iter().sum();
        let want_s: usize = s_chunks.iter().sum();
        let problems: Vec<String> = [
            (!c.connected || !s.connected).then(|| "connection was not established".to_string()),
            (c.accepted.len() != want_c).then(|| format!("client's writes accepted only {} of {want_c} bytes ({:?})", c.accepted.len(), c.werr)),
            (s.accepted.len() != want_s).then(|| format!("server's writes accepted only {} of {want_s} bytes ({:?})", s.accepted.len(), s.werr)),
            (s.consumed != c.accepted).then(|| format!("server read {:?} of {:?}", s.consumed, c.accepted)),
            (c.consumed != s.accepted).then(|| format!("client read {:?} of {:?}", c.consumed, s.accepted)),
            (!c.eof).then(|| format!("client never saw end-of-file (read error {:?})", c.rerr)),
            (!s.eof).then(|| format!("server never saw end-of-file (read error {:?})", s.rerr)),
        ]
        .into_iter()
        .flatten()
        .collect();
        if !problems.is_empty() {
            violation = Some(Violation::new("delivery", format!("healthy link, both sides keep reading, {} steps after the last write: {}", total, problems.join("; "))));
        }
    }
    let mut feats = vec![];
    if ch.deviations() > 0 {
        feats.push("reordered-latency");
    }
    if let Some(v) = violation.as_mut() {
        v.sig = format!("timed|{}", v.clause);
        v.scenario = format!("c02-timed tier={} cap={cap} c={c_chunks:?} s={s_chunks:?} burst={burst} rdelay={rdelay} rbuf={rbuf} split={split} fault={fault}@{fault_at}+{fault_len}", if thorough { "thorough" } else { "quick" });
        v.actions = obs.clone();
    }
    Exec { outcome: Digest::of64(&obs), violation, features: feats }
}
