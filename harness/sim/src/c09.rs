//! C09 — turmoil::net UDP delivers datagrams whole, to the right sockets, at most once.
//!
//! Socket presets on three hosts x a short sequence of dynamic operations (leave, drop,
//! join, enable broadcast, re-bind) x a probe sweep (unicast, own address, 127.0.0.1,
//! broadcast, multicast), each probe followed by draining every socket. The reference is
//! a routing function over the model's socket table written from the property text.

use std::cell::RefCell;
use std::collections::VecDeque;
use std::net::{IpAddr, Ipv4Addr, Ipv6Addr, SocketAddr};
use std::rc::Rc;

use tokio::sync::Notify;
use turmoil::net::UdpSocket;
use vx_core::dfs::Exec;
use vx_core::{Chooser, Digest, Violation};

use crate::kit::*;

const NAMES: [&str; 3] = ["ua", "ub", "uc"];
const P: u16 = 9;
const Q: u16 = 10;

#[derive(Clone, Copy, Debug, PartialEq, Eq)]
enum Preset {
    None,
    WildP,
    LoP,
    WildPJoined,
    WildPConnectedToA,
    WildQ,
}
const PRESETS: [Preset; 6] = [Preset::None, Preset::WildP, Preset::LoP, Preset::WildPJoined, Preset::WildPConnectedToA, Preset::WildQ];

#[derive(Clone, Debug)]
enum Cmd {
    Bind { slot: usize, lo: bool, port: u16 },
    Connect { slot: usize, peer: SocketAddr },
    Broadcast { slot: usize },
    Join { slot: usize },
    Leave { slot: usize },
    LoopOff { slot: usize },
    /// join the group through an interface address the host does not have: must fail and must
    /// not make the socket a member
    BadJoin { slot: usize },
    Drop { slot: usize },
    Send { slot: usize, dst: SocketAddr, payload: Vec<u8> },
    /// drain every socket of this host with a buffer of `buflen` (try_recv_from), or through
    /// readable()+try_recv when `via_readable`
    Drain { buflen: usize, via_readable: bool },
}

#[derive(Default)]
struct St {
    cmds: [VecDeque<Cmd>; 3],
    /// results of bind etc.: (host, text)
    results: Vec<(usize, String)>,
    /// drained datagrams: (host, slot, payload, origin)
    drained: Vec<(usize, usize, Vec<u8>, SocketAddr)>,
}

#[derive(Clone, Debug)]
struct MSock {
    host: usize,
    slot: usize,
    lo: bool,
    port: u16,
    peer: Option<SocketAddr>,
    broadcast: bool,
    joined: bool,
    alive: bool,
    /// IP_MULTICAST_LOOP switched off on this socket
    loop_off: bool,
}

fn group(v6: bool) -> IpAddr {
    if v6 {
        IpAddr::V6("ff08::1".parse::<Ipv6Addr>().unwrap())
    } else {
        IpAddr::V4(Ipv4Addr::new(239, 1, 1, 1))
    }
}

pub fn scenario(ch: &mut Chooser, thorough: bool) -> Exec {
    let v6 = ch.flag("ipv6");
    let mut b = builder(1);
    b.min_message_latency(std::time::Duration::from_millis(1)).max_message_latency(std::time::Duration::from_millis(1));
    if v6 {
        b.ip_version(turmoil::IpVersion::V6);
    }
    let mut sim = b.build();
    let st = Rc::new(RefCell::new(St::default()));
    let notify: [Rc<Notify>; 3] = [Rc::new(Notify::new()), Rc::new(Notify::new()), Rc::new(Notify::new())];
    for h in 0..3 {
        let st2 = st.clone();
        let n2 = notify[h].clone();
        sim.client(NAMES[h], async move {
            let mut socks: Vec<Option<UdpSocket>> = vec![None, None];
            loop {
                n2.notified().await;
                loop {
                    let c = st2.borrow_mut().cmds[h].pop_front();
                    let Some(c) = c else { break };
                    match c {
                        Cmd::Bind { slot, lo, port } => {
                            let ip: IpAddr = match (lo, v6) {
                                (true, false) => "127.0.0.1".parse().unwrap(),
                                (true, true) => "::1".parse().unwrap(),
                                (false, false) => "0.0.0.0".parse().unwrap(),
                                (false, true) => "::".parse().unwrap(),
                            };
                            match UdpSocket::bind((ip, port)).await {
                                Ok(s) => {
                                    let la = s.local_addr().unwrap();
                                    socks[slot] = Some(s);
                                    st2.borrow_mut().results.push((h, format!("bind{slot} ok {la}")));
                                }
                                Err(e) => st2.borrow_mut().results.push((h, format!("bind{slot} err {}", errk(&e)))),
                            }
                        }
                        Cmd::Connect { slot, peer } => {
                            if let Some(s) = &socks[slot] {
                                let r = s.connect(peer).await;
                                st2.borrow_mut().results.push((h, format!("connect{slot} {:?}", r.map_err(|e| errk(&e)))));
                            }
                        }
                        Cmd::Broadcast { slot } => {
                            if let Some(s) = &socks[slot] {
                                let _ = s.set_broadcast(true);
                            }
                        }
                        Cmd::Join { slot } => {
                            if let Some(s) = &socks[slot] {
                                let r = match group(v6) {
                                    IpAddr::V4(g) => s.join_multicast_v4(g, Ipv4Addr::UNSPECIFIED),
                                    IpAddr::V6(g) => s.join_multicast_v6(&g, 0),
                                };
                                st2.borrow_mut().results.push((h, format!("join{slot} {:?}", r.map_err(|e| errk(&e)))));
                            }
                        }
                        Cmd::BadJoin { slot } => {
                            if let (Some(s), IpAddr::V4(g)) = (&socks[slot], group(v6)) {
                                let r = s.join_multicast_v4(g, Ipv4Addr::new(10, 9, 9, 9));
                                st2.borrow_mut().results.push((h, format!("badjoin{slot} {:?}", r.map_err(|e| errk(&e)))));
                            }
                        }
                        Cmd::Leave { slot } => {
                            if let Some(s) = &socks[slot] {
                                let r = match group(v6) {
                                    IpAddr::V4(g) => s.leave_multicast_v4(g, Ipv4Addr::UNSPECIFIED),
                                    IpAddr::V6(g) => s.leave_multicast_v6(&g, 0),
                                };
                                st2.borrow_mut().results.push((h, format!("leave{slot} {:?}", r.map_err(|e| errk(&e)))));
                            }
                        }
                        Cmd::LoopOff { slot } => {
                            if let Some(s) = &socks[slot] {
                                let _ = if v6 { s.set_multicast_loop_v6(false).map_err(|e| e.to_string()) } else { s.set_multicast_loop_v4(false).map_err(|e| e.to_string()) };
                            }
                        }
                        Cmd::Drop { slot } => {
                            socks[slot] = None;
                        }
                        Cmd::Send { slot, dst, payload } => {
                            if let Some(s) = &socks[slot] {
                                let r = s.try_send_to(&payload, dst);
                                st2.borrow_mut().results.push((h, format!("send{slot}->{dst} {:?}", r.map_err(|e| errk(&e)))));
                            }
                        }
                        Cmd::Drain { buflen, via_readable } => {
                            for (slot, s) in socks.iter().enumerate() {
                                if let Some(s) = s {
                                    let mut buf = vec![0u8; buflen];
                                    if !via_readable {
                                        while let Ok((n, from)) = s.try_recv_from(&mut buf) {
                                            st2.borrow_mut().drained.push((h, slot, buf[..n].to_vec(), from));
                                        }
                                        continue;
                                    }
                                    // readable().await, then the asynchronous recv_from: what was
                                    // announced must be handed over at once
                                    loop {
                                        let ready = tokio::select! {
                                            biased;
                                            r = s.readable() => r.is_ok(),
                                            _ = std::future::ready(()) => false,
                                        };
                                        if !ready {
                                            break;
                                        }
                                        let got = tokio::select! {
                                            biased;
                                            r = s.recv_from(&mut buf) => Some(r),
                                            _ = std::future::ready(()) => None,
                                        };
                                        match got {
                                            Some(Ok((n, from))) => st2.borrow_mut().drained.push((h, slot, buf[..n].to_vec(), from)),
                                            Some(Err(_)) => break,
                                            None => {
                                                // announced by readable() but recv_from does not return it
                                                st2.borrow_mut().results.push((h, format!("LOST-AFTER-READABLE slot{slot}")));
                                                break;
                                            }
                                        }
                                    }
                                }
                            }
                        }
                    }
                }
            }
            #[allow(unreachable_code)]
            Ok(())
        });
    }
    let ips: Vec<IpAddr> = NAMES.iter().map(|n| sim.lookup(*n)).collect();
    let lo: IpAddr = if v6 { "::1".parse().unwrap() } else { "127.0.0.1".parse().unwrap() };

    let mut model: Vec<MSock> = vec![];
    let mut obs: Vec<String> = vec![];
    let mut feats: Vec<&'static str> = vec![];
    let mut violation: Option<Violation> = None;

    // ---- setup: one preset per (host, slot) for A0, B0, B1, C0
    let slots = [(0usize, 0usize), (1, 0), (1, 1), (2, 0)];
    let presets: &[Preset] = if thorough { &PRESETS } else { &PRESETS[..5] };
    let mut pending: Vec<(usize, Cmd)> = vec![];
    for &(h, slot) in &slots {
        let p = if (h, slot) == (0, 0) { *ch.of("preset_a0", &[Preset::WildP, Preset::LoP, Preset::WildPJoined]) } else { *ch.of("preset", presets) };
        let (bind, port, lob) = match p {
            Preset::None => (false, 0, false),
            Preset::WildP | Preset::WildPJoined | Preset::WildPConnectedToA => (true, P, false),
            Preset::LoP => (true, P, true),
            Preset::WildQ => (true, Q, false),
        };
        if !bind {
            continue;
        }
        pending.push((h, Cmd::Bind { slot, lo: lob, port }));
        // reference: one port space per host
        let conflict = model.iter().any(|m| m.alive && m.host == h && m.port == port);
        obs.push(format!("host{h} slot{slot} preset {p:?}{}", if conflict { " (AddrInUse expected)" } else { "" }));
        if conflict {
            continue;
        }
        let mut ms = MSock { host: h, slot, lo: lob, port, peer: None, broadcast: false, joined: false, alive: true, loop_off: false };
        if p == Preset::WildPJoined {
            pending.push((h, Cmd::Join { slot }));
            ms.joined = true;
        }
        if p == Preset::WildPConnectedToA {
            let peer = SocketAddr::new(ips[0], P);
            pending.push((h, Cmd::Connect { slot, peer }));
            ms.peer = Some(peer);
        }
        model.push(ms);
    }
    // every IPv4 socket first tries to join through an interface address its host does not
    // have: the call fails and the socket is no member (the reference is left as it is)
    if !v6 {
        for m in model.iter().filter(|m| !m.joined) {
            pending.push((m.host, Cmd::BadJoin { slot: m.slot }));
        }
    }
    // ---- dynamic operations
    let nops = ch.choose("dynamic_ops", if thorough { 4 } else { 3 });
    for _ in 0..nops {
        let op = ch.choose("op", 7);
        let alive_slots: Vec<usize> = (0..model.len()).filter(|&i| model[i].alive).collect();
        if alive_slots.is_empty() {
            break;
        }
        let t = alive_slots[ch.choose("op_target", alive_slots.len())];
        let (h, slot) = (model[t].host, model[t].slot);
        match op {
            0 => {
                pending.push((h, Cmd::Leave { slot }));
                model[t].joined = false;
                obs.push(format!("host{h} slot{slot} leave"));
            }
            1 => {
                pending.push((h, Cmd::Drop { slot }));
                model[t].alive = false;
                model[t].joined = false;
                obs.push(format!("host{h} slot{slot} drop"));
                feats.push("dropped-socket");
            }
            2 => {
                // a socket bound to the loopback address may join too: whether it then sees
                // group traffic itself is not asserted, but it must not disturb the others
                pending.push((h, Cmd::Join { slot }));
                model[t].joined = true;
                obs.push(format!("host{h} slot{slot} join{}", if model[t].lo { " (loopback-bound socket)" } else { "" }));
            }
            3 => {
                pending.push((h, Cmd::Broadcast { slot }));
                model[t].broadcast = true;
                obs.push(format!("host{h} slot{slot} set_broadcast"));
            }
            6 => {
                pending.push((h, Cmd::LoopOff { slot }));
                model[t].loop_off = true;
                obs.push(format!("host{h} slot{slot} set_multicast_loop(false)"));
                feats.push("loop-off");
            }
            4 => {
                // bind port P again on the other slot of the host whose socket was dropped
                let dead = model.iter().find(|m| !m.alive && m.port == P).map(|m| (m.host, m.slot));
                let (h, slot) = dead.unwrap_or((h, slot));
                if !model.iter().any(|m| m.alive && m.host == h && m.port == P) {
                    let ns = 1 - slot.min(1);
                    if !model.iter().any(|m| m.alive && m.host == h && m.slot == ns) {
                        pending.push((h, Cmd::Bind { slot: ns, lo: false, port: P }));
                        model.push(MSock { host: h, slot: ns, lo: false, port: P, peer: None, broadcast: false, joined: false, alive: true, loop_off: false });
                        obs.push(format!("host{h} slot{ns} bind wildcard:{P} again"));
                        feats.push("rebound-port");
                    }
                }
            }
            _ => {
                let peer = SocketAddr::new(ips[(h + 1) % 3], P);
                pending.push((h, Cmd::Connect { slot, peer }));
                model[t].peer = Some(peer);
                obs.push(format!("host{h} slot{slot} connect {peer}"));
            }
        }
    }
    // issue everything, one command per step so that host order does not matter
    for (h, c) in pending {
        st.borrow_mut().cmds[h].push_back(c);
        notify[h].notify_one();
        if sim.step().is_err() {
            break;
        }
    }
    if let Some(r) = st.borrow().results.iter().find(|r| r.1.starts_with("badjoin") && r.1.contains("Ok")) {
        violation = Some(Violation::new("join", format!("host{} {}: joining a group through an interface address the host does not have succeeded", r.0, r.1)));
    }
    // ---- probe sweep from every live sender socket
    let buflen = *ch.of("recv_buffer_len", &[16usize, 3]);
    let via_readable = ch.flag("receive_through_readable_then_recv_from");
    let mut tag: u8 = 0;
    let senders: Vec<usize> = (0..model.len()).filter(|&i| model[i].alive && (model[i].host == 0 || model[i].host == 1) && model[i].slot == 0).collect();
    'probes: for &si in senders.iter().filter(|_| violation.is_none()) {
        let s = model[si].clone();
        let mut dests: Vec<(String, SocketAddr)> = vec![];
        if s.lo {
            // a socket bound to the loopback address cannot reach anything else: whatever its
            // sends to other destinations return, nobody receives them, and nothing else is
            // disturbed (the routable sender's probes that follow find every member in place)
            dests.push(("multicast-from-loopback-bind".into(), SocketAddr::new(group(v6), P)));
            dests.push(("unicast-from-loopback-bind".into(), SocketAddr::new(ips[(s.host + 1) % 3], P)));
            dests.push(("loopback".into(), SocketAddr::new(lo, P)));
        } else {
            dests.push(("unicast".into(), SocketAddr::new(ips[(s.host + 1) % 3], P)));
            dests.push(("own-address".into(), SocketAddr::new(ips[s.host], P)));
            dests.push(("loopback".into(), SocketAddr::new(lo, P)));
            dests.push(("unicast-q".into(), SocketAddr::new(ips[1], Q)));
            if !v6 {
                dests.push(("broadcast".into(), SocketAddr::new(IpAddr::V4(Ipv4Addr::BROADCAST), P)));
            }
            dests.push(("multicast".into(), SocketAddr::new(group(v6), P)));
        }
        for (kind, dst) in dests {
            tag += 1;
            // every fourth probe is an empty datagram (it must arrive like any other)
            let paylen = if tag % 4 == 3 { 0 } else { 5 };
            let payload: Vec<u8> = vec![tag, s.host as u8, 0xA1, 0xA2, 0xA3][..paylen].to_vec();
            st.borrow_mut().results.clear();
            st.borrow_mut().drained.clear();
            st.borrow_mut().cmds[s.host].push_back(Cmd::Send { slot: s.slot, dst, payload: payload.clone() });
            notify[s.host].notify_one();
            for _ in 0..4 {
                if let Err(e) = sim.step() {
                    violation = Some(Violation::new("sim-error", e.to_string()));
                    break 'probes;
                }
            }
            for h in 0..3 {
                st.borrow_mut().cmds[h].push_back(Cmd::Drain { buflen, via_readable });
                notify[h].notify_one();
            }
            if let Err(e) = sim.step() {
                violation = Some(Violation::new("sim-error", e.to_string()));
                break 'probes;
            }
            // ---- reference routing
            let src_ip = if dst.ip().is_loopback() { dst.ip() } else { ips[s.host] };
            let src = SocketAddr::new(src_ip, s.port);
            let is_bcast = matches!(dst.ip(), IpAddr::V4(a) if a.is_broadcast());
            let unroutable = s.lo && !dst.ip().is_loopback();
            let send_ok_expected = !(is_bcast && !s.broadcast);
            let mut want: Vec<(usize, usize)> = vec![]; // (host, slot)
            if send_ok_expected && !unroutable {
                // destination (host, addr as seen by the receiver) pairs
                let mut targets: Vec<(usize, SocketAddr)> = vec![];
                if is_bcast {
                    for h in 0..3 {
                        if model.iter().any(|m| m.alive && m.host == h && m.port == dst.port()) {
                            targets.push((h, SocketAddr::new(ips[h], dst.port())));
                        }
                    }
                } else if dst.ip().is_multicast() {
                    for m in model.iter().filter(|m| m.alive && m.joined && m.port == dst.port()) {
                        targets.push((m.host, SocketAddr::new(ips[m.host], dst.port())));
                    }
                } else if dst.ip().is_loopback() {
                    targets.push((s.host, dst));
                } else if let Some(h) = ips.iter().position(|ip| *ip == dst.ip()) {
                    targets.push((h, dst));
                }
                for (h, daddr) in targets {
                    if let Some(m) = model.iter().find(|m| m.alive && m.host == h && m.port == daddr.port()) {
                        let bind_ok = if m.lo { daddr.ip().is_loopback() } else { true };
                        let peer_ok = m.peer.map(|p| p == src).unwrap_or(true);
                        if bind_ok && peer_ok {
                            want.push((h, m.slot));
                        }
                    }
                }
            }
            // with IP_MULTICAST_LOOP off (on the sending socket or on the local member) whether a
            // member on the sender's own host sees the datagram is not asserted
            let dontcare: Vec<(usize, usize)> = if dst.ip().is_multicast() {
                model
                    .iter()
                    .filter(|m| m.alive && ((m.host == s.host && (m.loop_off || s.loop_off)) || (m.lo && m.joined)))
                    .map(|m| (m.host, m.slot))
                    .collect()
            } else {
                vec![]
            };
            want.retain(|x| !dontcare.contains(x));
            want.sort();
            want.dedup();
            let g = st.borrow();
            if let Some(l) = g.results.iter().find(|r| r.1.starts_with("LOST-AFTER-READABLE")) {
                violation = Some(Violation::new(
                    "not-delivered",
                    format!("{kind} probe {tag}: host{} {}: readable() announced a datagram but the recv_from() that followed did not return it", l.0, l.1),
                ));
                break 'probes;
            }
            let send_res = g.results.iter().find(|r| r.0 == s.host && r.1.starts_with("send")).map(|r| r.1.clone()).unwrap_or_default();
            let sent_ok = send_res.contains("Ok");
            obs.push(format!("probe {tag} {kind} host{} -> {dst}: {send_res}; drained {:?}", s.host, g.drained));
            if sent_ok != send_ok_expected && !unroutable {
                violation = Some(Violation::new(
                    "send-result",
                    format!("{kind} send from host{} slot{} (broadcast flag {}) to {dst} returned `{send_res}`, expected {}", s.host, s.slot, s.broadcast, if send_ok_expected { "Ok" } else { "PermissionDenied" }),
                ));
                break 'probes;
            }
            let mut got: Vec<(usize, usize)> = vec![];
            for (h, slot, data, from) in g.drained.iter() {
                let exp_len = payload.len().min(buflen);
                if data[..] != payload[..exp_len] || *from != src {
                    violation = Some(Violation::new(
                        "payload-or-origin",
                        format!("{kind} probe {tag}: host{h} slot{slot} received {:?} from {from}; the datagram sent was {:?} from {src} (receive buffer {buflen})", data, payload),
                    ));
                    break 'probes;
                }
                got.push((*h, *slot));
            }
            let mut gs = got.clone();
            gs.retain(|x| !dontcare.contains(x));
            gs.sort();
            if gs != want {
                let clause = if gs.len() > want.len() || gs.iter().any(|x| !want.contains(x)) { "misrouted" } else { "not-delivered" };
                violation = Some(Violation::new(
                    clause,
                    format!(
                        "{kind} probe {tag} from host{} ({src}) to {dst}: received by (host, slot) {:?}; the reference socket table {:?} routes it to {:?}",
                        s.host,
                        gs,
                        model.iter().filter(|m| m.alive).map(|m| format!("h{}s{} {}:{} peer={:?} joined={} bc={}", m.host, m.slot, if m.lo { "lo" } else { "*" }, m.port, m.peer, m.joined, m.broadcast)).collect::<Vec<_>>(),
                        want
                    ),
                ));
                break 'probes;
            }
            if is_bcast && sent_ok {
                feats.push("broadcast");
            }
            if dst.ip().is_multicast() && !want.is_empty() {
                feats.push("multicast-delivered");
            }
        }
    }
    if let Some(v) = violation.as_mut() {
        v.sig = format!("{}|v6={}", v.clause, v6);
        v.scenario = format!("c09 tier={} v6={v6}", if thorough { "thorough" } else { "quick" });
        v.actions = obs.clone();
    }
    Exec { outcome: Digest::of64(&obs), violation, features: feats }
}

/// Capacity: `udp_capacity` datagrams queue, the rest is dropped without disturbing the
/// others; survivors arrive once, in order.
pub fn capacity_scenario(ch: &mut Chooser) -> Exec {
    let cap = *ch.of("udp_capacity", &[1usize, 2, 3]);
    let n = 1 + ch.choose("datagrams", 5);
    let via_readable = ch.flag("receiver_calls_readable_first");
    let mut b = builder(1);
    b.udp_capacity(cap)
        .min_message_latency(std::time::Duration::from_millis(1))
        .max_message_latency(std::time::Duration::from_millis(1));
    let mut sim = b.build();
    let got: Rc<RefCell<Vec<u8>>> = Rc::new(RefCell::new(vec![]));
    let go = Rc::new(Notify::new());
    let (g2, go2) = (got.clone(), go.clone());
    sim.client("rx", async move {
        let s = UdpSocket::bind(("0.0.0.0", P)).await?;
        if via_readable {
            // pulls the first datagram into the look-ahead slot as soon as it arrives
            s.readable().await?;
        }
        go2.notified().await;
        let mut buf = [0u8; 4];
        while let Ok((k, _)) = s.try_recv_from(&mut buf) {
            if k > 0 {
                g2.borrow_mut().push(buf[0]);
            }
        }
        std::future::pending::<()>().await;
        Ok(())
    });
    let sent = Rc::new(RefCell::new(0usize));
    let s2 = sent.clone();
    sim.client("tx", async move {
        let s = UdpSocket::bind(("0.0.0.0", P)).await?;
        tokio::time::sleep(std::time::Duration::from_millis(2)).await;
        for i in 0..n {
            s.try_send_to(&[i as u8 + 1], ("rx", P))?;
            *s2.borrow_mut() += 1;
            tokio::time::sleep(std::time::Duration::from_millis(1)).await;
        }
        std::future::pending::<()>().await;
        Ok(())
    });
    for _ in 0..(n + 8) {
        let _ = sim.step();
    }
    go.notify_one();
    for _ in 0..3 {
        let _ = sim.step();
    }
    let g = got.borrow().clone();
    let obs = format!("cap={cap} n={n} readable={via_readable} got={g:?}");
    // tolerance stated in DESIGN: the channel holds `cap`, readable() may have pulled one
    // more into the look-ahead slot
    let max_keep = cap + if via_readable { 1 } else { 0 };
    let want_min = n.min(cap);
    let mut violation = None;
    let in_order = g.windows(2).all(|w| w[0] < w[1]);
    let prefix_ok = g.iter().enumerate().all(|(i, &v)| v as usize == i + 1);
    if g.len() < want_min || g.len() > n.min(max_keep) || !in_order || !prefix_ok {
        violation = Some(
            Violation::new(
                "capacity",
                format!("udp_capacity {cap}, {n} datagrams sent to a receiver that reads late (readable first: {via_readable}): received {g:?}; expected the first {want_min}..={} datagrams, once each, in order", n.min(max_keep)),
            )
            .with_sig("capacity".into()),
        );
    }
    Exec { outcome: Digest::of64(&obs), violation, features: vec!["capacity"] }
}
