//! C15 — ports and simulated addresses are never handed out twice while in use.
//!
//! (a) histories of bind / listen / connect / drop / crash+bounce on a host whose
//!     ephemeral range has four ports, against a set-of-ports reference;
//! (b) DNS: every order of registering and looking up a handful of names (by name, by
//!     literal address, by regex) plus a 600-name run, IPv4 and IPv6.

use std::cell::RefCell;
use std::collections::{BTreeMap, BTreeSet, VecDeque};
use std::net::IpAddr;
use std::rc::Rc;

use tokio::sync::Notify;
use turmoil::net::{TcpListener, TcpStream, UdpSocket};
use vx_core::dfs::Exec;
use vx_core::{Chooser, Digest, Violation};

use crate::kit::*;

const LO: u16 = 49152;
const HI_FULL: u16 = 49155;

#[derive(Clone, Copy, Debug, PartialEq, Eq)]
enum Cmd {
    UdpBind(u16),
    /// bind 127.0.0.1:<port> (a fixed port inside the ephemeral range)
    UdpBindLo(u16),
    TcpListenLo(u16),
    TcpListen(u16),
    TcpConnect,
    /// connect to the peer and open with "RX": the peer reads one byte and drops the connection
    /// with the other one unread, which resets it; the stream object is kept
    ConnectReset,
    /// connect to the peer and open with "W": the peer writes one byte back; the stream is split,
    /// the read half is dropped with that byte unread (which resets the connection) and the
    /// write half is kept
    ConnectHalfReset,
    /// write one byte through the k-th live object if it is a kept write half of a reset
    /// connection: must fail, and must not reach whatever connection now uses that port
    WriteStale(usize),
    Drop(usize),
    /// split the k-th live object (a stream), shut its write half down, drop the write
    /// half and keep the read half: the stream stays live
    HalfClose(usize),
    /// connect to the k-th live object (a listener of this host) through 127.0.0.1 (`false`)
    /// or the host's own address (`true`), accept, let the accepted side write one byte, then
    /// drop both ends while that byte is unread
    SelfConn(usize, bool),
}

enum Obj {
    Udp(UdpSocket),
    Listener(TcpListener),
    Stream(TcpStream),
    ReadHalf(turmoil::net::tcp::OwnedReadHalf),
    WriteHalf(turmoil::net::tcp::OwnedWriteHalf),
}

#[derive(Default)]
struct St {
    cmds: VecDeque<Cmd>,
    results: Vec<String>,
    incarnation: u32,
    /// bytes the peer received on connections that never send any (beyond the opening letters)
    peer_stray: Vec<u8>,
}

#[derive(Clone, Debug, PartialEq, Eq)]
enum MKind {
    Udp,
    Listener,
    Stream,
    HalfClosedStream,
    /// a stream object whose connection the peer has reset: not live, holds no port
    ResetStream,
    /// the write half that was kept when the read half of a stream was dropped with unread data
    /// (which resets the connection): not live, holds no port
    ResetWriteHalf,
}

pub fn ports_scenario(ch: &mut Chooser, thorough: bool, reset_mode: bool) -> Exec {
    // `reset_mode`: a two-port range and a short menu around streams that the peer has reset
    // while the application still holds them (their port is free again; dropping the stale
    // handle later must not disturb a newer stream on the same port and 4-tuple)
    let depth = if thorough { 7 } else { 6 };
    let hi: u16 = if reset_mode { LO + 1 } else { HI_FULL };
    let mut b = builder(1);
    b.ephemeral_ports(LO..=hi)
        .min_message_latency(std::time::Duration::from_millis(1))
        .max_message_latency(std::time::Duration::from_millis(1))
        .tcp_capacity(16);
    let mut sim = b.build();
    let st = Rc::new(RefCell::new(St::default()));
    let wake = Rc::new(Notify::new());
    // peer: accepts everything and holds each stream until it sees EOF
    let st_peer = st.clone();
    sim.host("peer", move || {
        let st_peer = st_peer.clone();
        async move {
        let l = TcpListener::bind(("0.0.0.0", 80)).await?;
        loop {
            let (mut s, _) = l.accept().await?;
            let st_p = st_peer.clone();
            // hold the connection until the other side closes it, then let it go (so a
            // later connection may reuse the 4-tuple)
            tokio::task::spawn_local(async move {
                // a connection that opens with the bytes "RX" is dropped after its first byte
                // has been read: the second one is unread, so the drop resets the connection
                let mut first = [0u8; 1];
                match tokio::io::AsyncReadExt::read(&mut s, &mut first).await {
                    Ok(1) if first[0] == b'R' => return,
                    Ok(1) if first[0] == b'W' => {
                        let _ = tokio::io::AsyncWriteExt::write_all(&mut s, b"w").await;
                    }
                    Ok(0) | Err(_) => return,
                    Ok(_) => st_p.borrow_mut().peer_stray.push(first[0]),
                }
                let mut b = [0u8; 8];
                while let Ok(n) = tokio::io::AsyncReadExt::read(&mut s, &mut b).await {
                    if n == 0 {
                        break;
                    }
                    st_p.borrow_mut().peer_stray.extend_from_slice(&b[..n]);
                }
            });
        }
        #[allow(unreachable_code)]
        Ok(())
        }
    });
    let (st_h, wk) = (st.clone(), wake.clone());
    sim.host("h", move || {
        let st_h = st_h.clone();
        let wk = wk.clone();
        async move {
            st_h.borrow_mut().incarnation += 1;
            let mut objs: Vec<Option<Obj>> = vec![];
            loop {
                loop {
                    let c = st_h.borrow_mut().cmds.pop_front();
                    let Some(c) = c else { break };
                    let res = match c {
                        Cmd::UdpBind(p) => match UdpSocket::bind(("0.0.0.0", p)).await {
                            Ok(s) => {
                                let port = s.local_addr().unwrap().port();
                                objs.push(Some(Obj::Udp(s)));
                                format!("ok {port}")
                            }
                            Err(e) => format!("err {}", errk(&e)),
                        },
                        Cmd::UdpBindLo(p) => match UdpSocket::bind(("127.0.0.1", p)).await {
                            Ok(s) => {
                                let port = s.local_addr().unwrap().port();
                                objs.push(Some(Obj::Udp(s)));
                                format!("ok {port}")
                            }
                            Err(e) => format!("err {}", errk(&e)),
                        },
                        Cmd::TcpListenLo(p) => match TcpListener::bind(("127.0.0.1", p)).await {
                            Ok(s) => {
                                let port = s.local_addr().unwrap().port();
                                objs.push(Some(Obj::Listener(s)));
                                format!("ok {port}")
                            }
                            Err(e) => format!("err {}", errk(&e)),
                        },
                        Cmd::TcpListen(p) => match TcpListener::bind(("0.0.0.0", p)).await {
                            Ok(s) => {
                                let port = s.local_addr().unwrap().port();
                                objs.push(Some(Obj::Listener(s)));
                                format!("ok {port}")
                            }
                            Err(e) => format!("err {}", errk(&e)),
                        },
                        Cmd::TcpConnect => match TcpStream::connect(("peer", 80)).await {
                            Ok(s) => {
                                let port = s.local_addr().unwrap().port();
                                objs.push(Some(Obj::Stream(s)));
                                format!("ok {port}")
                            }
                            Err(e) => format!("err {}", errk(&e)),
                        },
                        Cmd::ConnectReset => match TcpStream::connect(("peer", 80)).await {
                            Ok(mut s) => {
                                let port = s.local_addr().unwrap().port();
                                let w = tokio::io::AsyncWriteExt::write_all(&mut s, b"RX").await;
                                // there and back again: the reset has arrived after this
                                tokio::time::sleep(std::time::Duration::from_millis(4)).await;
                                objs.push(Some(Obj::Stream(s)));
                                format!("ok {port} write {}", if w.is_ok() { "ok" } else { "err" })
                            }
                            Err(e) => format!("err {}", errk(&e)),
                        },
                        Cmd::ConnectHalfReset => match TcpStream::connect(("peer", 80)).await {
                            Ok(mut s) => {
                                let port = s.local_addr().unwrap().port();
                                let w = tokio::io::AsyncWriteExt::write_all(&mut s, b"W").await;
                                // there and back again: the peer's byte has arrived (and stays unread)
                                tokio::time::sleep(std::time::Duration::from_millis(4)).await;
                                let (r, wr) = s.into_split();
                                drop(r);
                                objs.push(Some(Obj::WriteHalf(wr)));
                                format!("ok {port} write {}", if w.is_ok() { "ok" } else { "err" })
                            }
                            Err(e) => format!("err {}", errk(&e)),
                        },
                        Cmd::WriteStale(k) => {
                            let live: Vec<usize> = (0..objs.len()).filter(|&i| objs[i].is_some()).collect();
                            match live.get(k).and_then(|&i| objs[i].as_mut()) {
                                Some(Obj::WriteHalf(w)) => match tokio::io::AsyncWriteExt::write_all(w, b"Z").await {
                                    Ok(()) => "stale write ok".into(),
                                    Err(e) => format!("stale write err {}", errk(&e)),
                                },
                                _ => "not a kept write half".into(),
                            }
                        }
                        Cmd::Drop(k) => {
                            let live: Vec<usize> = (0..objs.len()).filter(|&i| objs[i].is_some()).collect();
                            if let Some(&i) = live.get(k) {
                                objs[i] = None;
                            }
                            "dropped".into()
                        }
                        Cmd::SelfConn(k, own) => {
                            let live: Vec<usize> = (0..objs.len()).filter(|&i| objs[i].is_some()).collect();
                            match live.get(k).map(|&i| &objs[i]) {
                                Some(Some(Obj::Listener(l))) => {
                                    let port = l.local_addr().unwrap().port();
                                    let ip: std::net::IpAddr = if own { turmoil::lookup("h") } else { "127.0.0.1".parse().unwrap() };
                                    // a refused connect leaves the accept pending: stop waiting for it then
                                    let (c, a) = {
                                        let con = TcpStream::connect((ip, port));
                                        let acc = l.accept();
                                        tokio::pin!(con);
                                        tokio::pin!(acc);
                                        let (mut c_res, mut a_res) = (None, None);
                                        loop {
                                            tokio::select! {
                                                r = &mut con, if c_res.is_none() => c_res = Some(r),
                                                r = &mut acc, if a_res.is_none() => a_res = Some(r),
                                            }
                                            if matches!(c_res, Some(Err(_))) || (c_res.is_some() && a_res.is_some()) {
                                                break;
                                            }
                                        }
                                        (c_res.unwrap(), a_res.unwrap_or_else(|| Err(std::io::Error::new(std::io::ErrorKind::WouldBlock, "accept abandoned"))))
                                    };
                                    match (c, a) {
                                        (Ok(c), Ok((mut a, _))) => {
                                            let lp = c.local_addr().unwrap().port();
                                            let w = tokio::io::AsyncWriteExt::write_all(&mut a, b"x").await;
                                            tokio::time::sleep(std::time::Duration::from_millis(2)).await;
                                            drop(c);
                                            drop(a);
                                            tokio::time::sleep(std::time::Duration::from_millis(1)).await;
                                            format!("self-connected from port {lp}, write {}, both ends dropped", if w.is_ok() { "ok" } else { "err" })
                                        }
                                        (c, a) => format!("err connect={:?} accept={:?}", c.map(|_| ()).map_err(|e| errk(&e)), a.map(|_| ()).map_err(|e| errk(&e))),
                                    }
                                }
                                _ => "not a listener".into(),
                            }
                        }
                        Cmd::HalfClose(k) => {
                            let live: Vec<usize> = (0..objs.len()).filter(|&i| objs[i].is_some()).collect();
                            match live.get(k).map(|&i| (i, objs[i].take())) {
                                Some((i, Some(Obj::Stream(s)))) => {
                                    let (r, mut w) = s.into_split();
                                    let sd = tokio::io::AsyncWriteExt::shutdown(&mut w).await;
                                    drop(w);
                                    objs[i] = Some(Obj::ReadHalf(r));
                                    format!("half-closed {}", if sd.is_ok() { "ok" } else { "err" })
                                }
                                Some((i, other)) => {
                                    objs[i] = other;
                                    "not a stream".into()
                                }
                                None => "no such object".into(),
                            }
                        }
                    };
                    st_h.borrow_mut().results.push(res);
                }
                wk.notified().await;
            }
            #[allow(unreachable_code)]
            Ok(())
        }
    });

    // reference: live objects of h in creation order: (kind, port)
    let mut live: Vec<(MKind, u16)> = vec![];
    let mut obs: Vec<String> = vec![];
    let mut feats: Vec<&'static str> = vec![];
    let mut violation: Option<Violation> = None;
    let in_use = |live: &Vec<(MKind, u16)>| -> BTreeSet<u16> { live.iter().filter(|x| !matches!(x.0, MKind::ResetStream | MKind::ResetWriteHalf)).map(|x| x.1).collect() };

    'run: for _ in 0..depth {
        // menu
        let mut menu: Vec<(String, Option<Cmd>)> = if reset_mode {
            vec![
                ("udp bind :0".into(), Some(Cmd::UdpBind(0))),
                ("tcp connect peer:80".into(), Some(Cmd::TcpConnect)),
                ("tcp connect peer:80, send two bytes of which the peer reads one before it drops the connection (reset), keep the stream".into(), Some(Cmd::ConnectReset)),
                ("tcp connect peer:80, the peer sends a byte, split, drop the read half with that byte unread (reset), keep the write half".into(), Some(Cmd::ConnectHalfReset)),
            ]
        } else {
            vec![
            ("udp bind :0".into(), Some(Cmd::UdpBind(0))),
            ("udp bind :49153".into(), Some(Cmd::UdpBind(LO + 1))),
            ("tcp listen :0".into(), Some(Cmd::TcpListen(0))),
            ("tcp listen :49153".into(), Some(Cmd::TcpListen(LO + 1))),
            ("tcp connect peer:80".into(), Some(Cmd::TcpConnect)),
            ("udp bind 127.0.0.1:49153".into(), Some(Cmd::UdpBindLo(LO + 1))),
            ("tcp listen 127.0.0.1:49153".into(), Some(Cmd::TcpListenLo(LO + 1))),
            ("crash + bounce".into(), None),
        ]
        };
        for k in 0..live.len().min(4) {
            menu.push((format!("drop live object #{k}"), Some(Cmd::Drop(k))));
        }
        if reset_mode {
            if let Some(k) = live.iter().position(|x| x.0 == MKind::ResetWriteHalf) {
                menu.push((format!("write one byte through live object #{k} (the kept write half of a reset connection)"), Some(Cmd::WriteStale(k))));
            }
        } else if let Some(k) = live.iter().position(|x| x.0 == MKind::Stream) {
            menu.push((format!("split live object #{k} (a stream), shut down and drop its write half, keep the read half"), Some(Cmd::HalfClose(k))));
        }
        if let Some(k) = live.iter().position(|x| x.0 == MKind::Listener && !reset_mode) {
            // a wildcard listener is reachable through the host's own address as well
            menu.push((format!("connect to live object #{k} (own listener) via 127.0.0.1, accept, one unread byte, drop both ends"), Some(Cmd::SelfConn(k, false))));
            if obs.iter().any(|o| o.starts_with("tcp listen :")) {
                menu.push((format!("connect to live object #{k} (own listener) via the host's own address, accept, one unread byte, drop both ends"), Some(Cmd::SelfConn(k, true))));
            }
        }
        let crash_mid_connect = if reset_mode { usize::MAX } else { menu.len() };
        if !reset_mode {
            menu.push(("tcp connect peer:80, crash while the SYN is in flight, bounce".into(), None));
        }
        let pick = ch.choose("op", menu.len());
        let (desc, cmd) = menu[pick].clone();
        obs.push(desc.clone());
        let Some(cmd) = cmd else {
            if pick == crash_mid_connect {
                st.borrow_mut().cmds.push_back(Cmd::TcpConnect);
                wake.notify_one();
                if let Err(e) = vx_core::catch(|| sim.step()).unwrap_or_else(|p| Err(p.into())) {
                    // every port taken: the documented exhaustion panic
                    let used = in_use(&live);
                    if (LO..=hi).all(|p| used.contains(&p)) {
                        feats.push("exhaustion-panic");
                    } else {
                        violation = Some(Violation::new("sim-error", e.to_string()));
                    }
                    break 'run;
                }
                st.borrow_mut().cmds.clear();
            }
            sim.crash("h");
            let counts = sim.verif_host_counts("h");
            if counts != (0, 0, 0) {
                violation = Some(Violation::new(
                    "crash-release",
                    format!("after Sim::crash the host still holds (udp binds, tcp binds, tcp streams) = {:?}", counts),
                ));
                break 'run;
            }
            sim.bounce("h");
            live.clear();
            feats.push("crashed");
            for _ in 0..2 {
                let _ = sim.step();
            }
            continue;
        };
        // expectation
        let used = in_use(&live);
        let range_full = (LO..=hi).all(|p| used.contains(&p));
        let expect_panic = matches!(cmd, Cmd::UdpBind(0) | Cmd::TcpListen(0) | Cmd::TcpConnect | Cmd::ConnectReset | Cmd::ConnectHalfReset | Cmd::SelfConn(..)) && range_full;
        st.borrow_mut().results.clear();
        st.borrow_mut().cmds.push_back(cmd);
        wake.notify_one();
        let mut panicked = None;
        for _ in 0..if matches!(cmd, Cmd::SelfConn(..) | Cmd::ConnectReset | Cmd::ConnectHalfReset) { 10 } else { 4 } {
            match vx_core::catch(|| sim.step()) {
                Ok(Ok(_)) => {}
                Ok(Err(e)) => {
                    violation = Some(Violation::new("sim-error", e.to_string()));
                    break 'run;
                }
                Err(p) => {
                    panicked = Some(p);
                    break;
                }
            }
        }
        if let Some(p) = panicked {
            if expect_panic {
                feats.push("exhaustion-panic");
                obs.push("-> panic (ports exhausted), as documented".into());
            } else {
                violation = Some(Violation::new(
                    "spurious-exhaustion",
                    format!("`{desc}` panicked ({p}) although ports {:?} of {LO}..={hi} are free (in use: {:?})", (LO..=hi).filter(|p| !used.contains(p)).collect::<Vec<_>>(), used),
                ));
            }
            break 'run;
        }
        let res = st.borrow().results.last().cloned().unwrap_or_else(|| "<no result>".into());
        obs.push(format!("-> {res}"));
        if expect_panic {
            violation = Some(Violation::new(
                "duplicate-port",
                format!("`{desc}` returned `{res}` although every port of {LO}..={hi} is in use ({:?}): it must have been given a port that is already taken", live),
            ));
            break 'run;
        }
        match cmd {
            Cmd::UdpBind(p) | Cmd::TcpListen(p) | Cmd::UdpBindLo(p) | Cmd::TcpListenLo(p) => {
                let udp = matches!(cmd, Cmd::UdpBind(_) | Cmd::UdpBindLo(_));
                let kind = if udp { MKind::Udp } else { MKind::Listener };
                if p == 0 {
                    match res.strip_prefix("ok ").and_then(|x| x.parse::<u16>().ok()) {
                        Some(port) if (LO..=hi).contains(&port) && !used.contains(&port) => live.push((kind, port)),
                        _ => {
                            violation = Some(Violation::new(
                                "duplicate-port",
                                format!("`{desc}` returned `{res}`; expected an ephemeral port in {LO}..={hi} not in use by either protocol (in use: {:?})", live),
                            ));
                            break 'run;
                        }
                    }
                } else {
                    // explicit bind conflicts per protocol (listener vs listener, udp vs udp)
                    let conflict = live.iter().any(|x| x.1 == p && x.0 == kind);
                    let want = if conflict { "err AddrInUse".to_string() } else { format!("ok {p}") };
                    if res != want {
                        violation = Some(Violation::new(
                            "explicit-bind",
                            format!("`{desc}` returned `{res}`, the reference says `{want}` (live objects {:?})", live),
                        ));
                        break 'run;
                    }
                    if !conflict {
                        live.push((kind, p));
                    }
                }
            }
            Cmd::TcpConnect => match res.strip_prefix("ok ").and_then(|x| x.parse::<u16>().ok()) {
                Some(port) if (LO..=hi).contains(&port) && !used.contains(&port) => live.push((MKind::Stream, port)),
                _ => {
                    violation = Some(Violation::new(
                        "duplicate-port",
                        format!("`{desc}` returned `{res}`; expected a stream on an ephemeral port not in use (in use: {:?})", live),
                    ));
                    break 'run;
                }
            },
            Cmd::ConnectReset => match res.strip_suffix(" write ok").and_then(|x| x.strip_prefix("ok ")).and_then(|x| x.parse::<u16>().ok()) {
                // the peer has reset the connection: the stream the application still holds is
                // no longer live, its port is free again
                Some(port) if (LO..=hi).contains(&port) && !used.contains(&port) => {
                    live.push((MKind::ResetStream, port));
                    feats.push("reset-stream-kept");
                }
                _ => {
                    violation = Some(Violation::new(
                        "duplicate-port",
                        format!("`{desc}` returned `{res}`; expected a stream on an ephemeral port not in use (in use: {:?})", live),
                    ));
                    break 'run;
                }
            },
            Cmd::ConnectHalfReset => match res.strip_suffix(" write ok").and_then(|x| x.strip_prefix("ok ")).and_then(|x| x.parse::<u16>().ok()) {
                Some(port) if (LO..=hi).contains(&port) && !used.contains(&port) => {
                    live.push((MKind::ResetWriteHalf, port));
                    feats.push("reset-write-half-kept");
                }
                _ => {
                    violation = Some(Violation::new(
                        "duplicate-port",
                        format!("`{desc}` returned `{res}`; expected a stream on an ephemeral port not in use (in use: {:?})", live),
                    ));
                    break 'run;
                }
            },
            Cmd::WriteStale(_) => {
                if !res.starts_with("stale write err") {
                    violation = Some(Violation::new(
                        "stale-handle",
                        format!("`{desc}` returned `{res}`: the connection of that half was reset, the write must fail (live objects {:?})", live),
                    ));
                    break 'run;
                }
                feats.push("stale-write");
            }
            Cmd::Drop(k) => {
                if k < live.len() {
                    live.remove(k);
                    feats.push("dropped");
                }
            }
            Cmd::SelfConn(..) => {
                // a connection needs a free ephemeral port for its connecting end
                if !res.starts_with("self-connected") && !(res.starts_with("err") && (LO..=hi).all(|p| used.contains(&p))) {
                    // the listener may be bound to 127.0.0.1 only: reaching it through the
                    // host's own address is refused
                    if !res.contains("ConnectionRefused") {
                        violation = Some(Violation::new("self-connect", format!("`{desc}` returned `{res}`")));
                        break 'run;
                    }
                }
                feats.push("self-connect");
            }
            Cmd::HalfClose(k) => {
                if res != "half-closed ok" {
                    violation = Some(Violation::new("half-close", format!("`{desc}` returned `{res}`")));
                    break 'run;
                }
                live[k].0 = MKind::HalfClosedStream;
                feats.push("half-closed");
            }
        }
        // the host's tables hold exactly the live objects: (UDP binds, TCP binds, TCP streams)
        let counts = sim.verif_host_counts("h");
        let want = (
            live.iter().filter(|x| x.0 == MKind::Udp).count(),
            live.iter().filter(|x| x.0 == MKind::Listener).count(),
            live.iter().filter(|x| matches!(x.0, MKind::Stream | MKind::HalfClosedStream)).count(),
        );
        if let Some(b) = st.borrow().peer_stray.first().copied() {
            violation = Some(Violation::new(
                "stale-handle",
                format!("after `{desc}` the peer has received the byte {:?} on a connection whose owner never wrote anything: it was written through a stale handle of an earlier connection on the same port (live objects {:?})", b as char, live),
            ));
            break 'run;
        }
        if counts != want {
            violation = Some(Violation::new(
                "table-counts",
                format!("after `{desc}` the host holds (udp binds, tcp binds, tcp streams) = {:?}; the live objects are {:?}, i.e. {:?}", counts, live, want),
            ));
            break 'run;
        }
    }
    if let Some(v) = violation.as_mut() {
        v.sig = v.clause.to_string();
        v.scenario = format!("c15-ports{} tier={}", if reset_mode { " reset-mode (two-port range)" } else { "" }, if thorough { "thorough" } else { "quick" });
        v.actions = obs.clone();
    }
    Exec { outcome: Digest::of64(&obs), violation, features: feats }
}

/// DNS: same name -> same address, distinct names -> distinct addresses in the subnet,
/// reverse lookup inverts, regex returns exactly the matching registered names.
pub fn dns_scenario(ch: &mut Chooser, thorough: bool) -> Exec {
    let v6 = ch.flag("ipv6");
    let big = ch.flag("six_hundred_names");
    let mut b = builder(1);
    if v6 {
        b.ip_version(turmoil::IpVersion::V6);
    }
    let mut sim = b.build();
    let mut map: BTreeMap<String, IpAddr> = BTreeMap::new();
    let mut obs: Vec<String> = vec![];
    let mut violation: Option<Violation> = None;
    let in_subnet = |ip: &IpAddr| match ip {
        IpAddr::V4(a) => a.octets()[0] == 192 && a.octets()[1] == 168,
        IpAddr::V6(a) => a.segments()[0] == 0xfe80,
    };
    let mut check = |name: &str, ip: IpAddr, map: &mut BTreeMap<String, IpAddr>, how: &str| -> Option<Violation> {
        if let Some(old) = map.get(name) {
            if *old != ip {
                return Some(Violation::new("unstable-address", format!("{how}: name {name} resolved to {ip}, earlier to {old}")));
            }
        } else {
            if let Some((other, _)) = map.iter().find(|(_, v)| **v == ip) {
                return Some(Violation::new("address-collision", format!("{how}: names {other} and {name} both resolve to {ip}")));
            }
            if !in_subnet(&ip) {
                return Some(Violation::new("subnet", format!("{how}: {name} resolved to {ip}, outside the simulated subnet")));
            }
            map.insert(name.to_string(), ip);
        }
        None
    };
    if big {
        for i in 0..600 {
            let name = format!("node-{i}");
            let ip = sim.lookup(name.as_str());
            if let Some(v) = check(&name, ip, &mut map, "lookup") {
                violation = Some(v);
                break;
            }
            if i % 97 == 0 {
                // register a few of them as real hosts (register must not disturb the mapping)
                sim.host(name.as_str(), || async { Ok(()) });
            }
        }
        if violation.is_none() {
            for (name, ip) in &map {
                if sim.lookup(name.as_str()) != *ip || sim.reverse_lookup(*ip).as_deref() != Some(name.as_str()) {
                    violation = Some(Violation::new("reverse", format!("reverse_lookup({ip}) = {:?}, expected {name}", sim.reverse_lookup(*ip))));
                    break;
                }
            }
        }
        // a long simulation looks names up over and over: 120 more rounds over all 600 names
        // (72 000 lookups, more than the IPv4 subnet has addresses), with fresh names
        // registered along the way
        if violation.is_none() {
            'rounds: for r in 0..120 {
                for i in 0..600 {
                    let _ = sim.lookup(format!("node-{i}").as_str());
                }
                if r >= 100 {
                    for j in 0..2 {
                        let name = format!("late-{r}-{j}");
                        let ip = sim.lookup(name.as_str());
                        if let Some(v) = check(&name, ip, &mut map, "lookup after tens of thousands of repeated lookups") {
                            violation = Some(v);
                            break 'rounds;
                        }
                        if sim.reverse_lookup(ip).as_deref() != Some(name.as_str()) {
                            violation = Some(Violation::new("reverse", format!("reverse_lookup({ip}) = {:?}, expected {name}", sim.reverse_lookup(ip))));
                            break 'rounds;
                        }
                    }
                }
            }
        }
        obs.push(format!("600 names v6={v6}"));
    } else {
        let names = ["alpha", "beta", "alps", "gamma", "delta"];
        let steps = if thorough { 5 } else { 4 };
        for _ in 0..steps {
            let op = ch.choose("dns_op", 5);
            let n = names[ch.choose("name", names.len())];
            match op {
                0 => {
                    let ip = sim.lookup(n);
                    obs.push(format!("lookup({n}) = {ip}"));
                    violation = check(n, ip, &mut map, "lookup");
                }
                1 => {
                    if !map.contains_key(n) || sim.reverse_lookup(map[n]).is_some() {
                        // register as a host (only once per name)
                        let already = obs.iter().any(|o| o == &format!("host({n})"));
                        if !already {
                            sim.host(n, || async { Ok(()) });
                            obs.push(format!("host({n})"));
                            let ip = sim.lookup(n);
                            violation = check(n, ip, &mut map, "host registration");
                        }
                    }
                }
                2 => {
                    if let Some(ip) = map.get(n).copied() {
                        // literal address: must pass through unchanged and not allocate
                        let got = sim.lookup(ip);
                        obs.push(format!("lookup({ip}) = {got}"));
                        if got != ip {
                            violation = Some(Violation::new("literal", format!("lookup of the literal address {ip} returned {got}")));
                        }
                        // the same literal given as text (&str and String)
                        let text = ip.to_string();
                        let (got_s, got_string) = (sim.lookup(text.as_str()), sim.lookup(text.clone()));
                        if (got_s != ip || got_string != ip) && violation.is_none() {
                            violation = Some(Violation::new("literal", format!("lookup of the literal address \"{text}\" given as text returned {got_s} (&str) / {got_string} (String)")));
                        }
                        let rev = sim.reverse_lookup(ip);
                        if rev.as_deref() != Some(n) {
                            violation = Some(Violation::new("reverse", format!("reverse_lookup({ip}) = {rev:?}, expected {n}")));
                        }
                    }
                }
                3 => {
                    let re = regex::Regex::new("^al").unwrap();
                    let got: BTreeSet<IpAddr> = sim.lookup_many(re).into_iter().collect();
                    let want: BTreeSet<IpAddr> = map.iter().filter(|(k, _)| k.starts_with("al")).map(|(_, v)| *v).collect();
                    obs.push(format!("lookup_many(/^al/) = {got:?}"));
                    if got != want {
                        violation = Some(Violation::new("regex", format!("lookup_many(/^al/) returned {got:?}; the registered names starting with `al` map to {want:?}")));
                    }
                }
                _ => {
                    let ip = sim.lookup(n);
                    violation = check(n, ip, &mut map, "lookup");
                    let again = sim.lookup(n);
                    if again != ip {
                        violation = Some(Violation::new("unstable-address", format!("two consecutive lookups of {n} gave {ip} and {again}")));
                    }
                }
            }
            if violation.is_some() {
                break;
            }
        }
    }
    if let Some(v) = violation.as_mut() {
        v.sig = v.clause.to_string();
        v.scenario = format!("c15-dns tier={} v6={v6} big={big}", if thorough { "thorough" } else { "quick" });
        v.actions = obs.clone();
    }
    Exec { outcome: Digest::of64(&obs), violation, features: vec![] }
}
