//! C01 — same seed, configuration and programs give the same execution.
//!
//! The explorer enumerates builder configurations (deviation-bounded from a default over
//! every fault knob) x host count x program family x controller script. Each scenario is
//! executed twice in this process and its complete trace (every `turmoil*` tracing event
//! with its span, every program-level observation with its virtual timestamp, step results
//! and the final clock) is compared line by line; `cross_process` re-runs the same
//! enumeration in fresh OS processes and compares per-scenario trace digests.

use std::cell::RefCell;
use std::collections::BTreeMap;
use std::rc::Rc;
use std::sync::atomic::{AtomicU64, Ordering};
use std::sync::Mutex;
use std::time::{Duration, SystemTime};

use tokio::io::{AsyncReadExt, AsyncWriteExt};
use turmoil::net::{TcpListener, TcpStream, UdpSocket};
use vx_core::dfs::Exec;
use vx_core::{Chooser, Digest, Violation};

use crate::kit::errk;

// ---------------------------------------------------------------- trace recorder

struct Rec {
    lines: Mutex<Vec<String>>,
    next: AtomicU64,
    spans: Mutex<BTreeMap<u64, String>>,
    stack: Mutex<Vec<u64>>,
}

struct FieldFmt(String);
impl tracing::field::Visit for FieldFmt {
    fn record_debug(&mut self, field: &tracing::field::Field, value: &dyn std::fmt::Debug) {
        use std::fmt::Write;
        let _ = write!(self.0, " {}={:?}", field.name(), value);
    }
}

impl tracing::Subscriber for Rec {
    fn enabled(&self, m: &tracing::Metadata<'_>) -> bool {
        m.target().starts_with("turmoil")
    }
    fn new_span(&self, attrs: &tracing::span::Attributes<'_>) -> tracing::span::Id {
        let id = self.next.fetch_add(1, Ordering::Relaxed) + 1;
        let mut f = FieldFmt(attrs.metadata().name().to_string());
        attrs.record(&mut f);
        self.spans.lock().unwrap().insert(id, f.0);
        tracing::span::Id::from_u64(id)
    }
    fn record(&self, _: &tracing::span::Id, _: &tracing::span::Record<'_>) {}
    fn record_follows_from(&self, _: &tracing::span::Id, _: &tracing::span::Id) {}
    fn event(&self, ev: &tracing::Event<'_>) {
        let mut f = FieldFmt(String::new());
        ev.record(&mut f);
        let span = self.stack.lock().unwrap().last().and_then(|id| self.spans.lock().unwrap().get(id).cloned()).unwrap_or_default();
        self.lines.lock().unwrap().push(format!("T [{}] {} {}{}", span, ev.metadata().target(), ev.metadata().level(), f.0));
    }
    fn enter(&self, id: &tracing::span::Id) {
        self.stack.lock().unwrap().push(id.into_u64());
    }
    fn exit(&self, _: &tracing::span::Id) {
        self.stack.lock().unwrap().pop();
    }
}

// ---------------------------------------------------------------- configuration

#[derive(Clone, Debug)]
pub struct Cfg {
    seed: u64,
    tick_ms: u64,
    lat: (u64, u64),
    fail_repair: (f64, f64),
    random_order: bool,
    caps: (usize, usize),
    v6: bool,
    fs_knobs: usize,
    epoch: bool,
    script: usize,
    nhosts: usize,
    family: usize,
    steps: usize,
    /// an extra client that never finishes under a simulation duration of ten ticks: the
    /// run ends with the "ran for duration" error, whose text is part of the result
    timeout_client: bool,
}

const FAMILIES: [&str; 4] = ["udp-fan-in+broadcast", "tcp-echo", "select-spawn", "fs+io_uring"];
const SCRIPTS: [&str; 6] = ["none", "partition-repair", "hold-release", "crash-bounce", "bounce-twice+oneway", "hold+manual-delivery"];

pub fn cfg_from(ch: &mut Chooser, thorough: bool) -> Cfg {
    let family = ch.choose("program_family", FAMILIES.len());
    let nhosts = 1 + ch.choose("hosts", 5);
    let script = ch.choose("controller_script", SCRIPTS.len());
    let seeds: &[u64] = &[1, 0, 0x9e37_79b9_7f4a_7c15, 2];
    Cfg {
        family,
        nhosts,
        script,
        seed: seeds[ch.deviate("rng_seed", if thorough { 4 } else { 3 })],
        tick_ms: [1u64, 3][ch.deviate("tick_ms", 2)],
        lat: [(1u64, 1u64), (1, 6), (3, 3), (0, 12)][ch.deviate("latency_range_ms", 4)],
        fail_repair: [(0.0, 0.0), (0.2, 0.5), (0.6, 0.9)][ch.deviate("fail_repair_rate", 3)],
        random_order: ch.deviate("random_node_order", 2) == 1,
        caps: [(64usize, 64usize), (1, 2), (3, 1)][ch.deviate("tcp_udp_capacity", 3)],
        v6: ch.deviate("ip_version", 2) == 1,
        fs_knobs: ch.deviate("fs_knobs", 4),
        epoch: ch.deviate("epoch", 2) == 1,
        steps: if thorough { 36 } else { 24 },
        timeout_client: ch.deviate("client_that_never_finishes_and_a_duration_of_10_ticks", 2) == 1,
    }
}

fn build(cfg: &Cfg) -> turmoil::Sim<'static> {
    let mut b = turmoil::Builder::new();
    b.tick_duration(Duration::from_millis(cfg.tick_ms))
        .simulation_duration(if cfg.timeout_client { Duration::from_millis(cfg.tick_ms * 10) } else { Duration::from_secs(3600) })
        .rng_seed(cfg.seed)
        .min_message_latency(Duration::from_millis(cfg.lat.0))
        .max_message_latency(Duration::from_millis(cfg.lat.1))
        .fail_rate(cfg.fail_repair.0)
        .repair_rate(cfg.fail_repair.1)
        .tcp_capacity(cfg.caps.0)
        .udp_capacity(cfg.caps.1);
    if cfg.random_order {
        b.enable_random_order();
    }
    if cfg.v6 {
        b.ip_version(turmoil::IpVersion::V6);
    }
    // the default epoch is the wall clock at build time: "the same builder settings
    // (including ... epoch)" means it has to be set explicitly
    b.epoch(SystemTime::UNIX_EPOCH + Duration::from_secs(if cfg.epoch { 1_700_000_000 } else { 86_400 }));
    match cfg.fs_knobs {
        1 => {
            let f = b.fs();
            f.sync_probability(0.5).io_error_probability(0.2).short_read_probability(0.5);
            f.io_latency().min_latency(Duration::from_micros(200)).max_latency(Duration::from_millis(3));
        }
        2 => {
            let f = b.fs();
            f.corruption_probability(0.3).block_size(4).sync_probability(0.3);
            f.page_cache().page_size(4).max_pages(2).random_eviction_probability(0.3);
            f.io_latency().min_latency(Duration::from_millis(1)).max_latency(Duration::from_millis(2));
        }
        3 => {
            let f = b.fs();
            f.capacity(24).io_error_probability(0.5);
        }
        _ => {}
    }
    b.build()
}

// ---------------------------------------------------------------- programs

type Log = Rc<RefCell<Vec<String>>>;

fn log(l: &Log, host: &str, s: String) {
    let at = turmoil::sim_elapsed().unwrap_or_default();
    l.borrow_mut().push(format!("P {host} @{at:?} {s}"));
}

async fn prog_udp(l: Log, me: usize, n: usize, v6: bool) -> turmoil::Result {
    let name = format!("h{me}");
    let sock = UdpSocket::bind((if v6 { "::" } else { "0.0.0.0" }, 9)).await?;
    if !v6 {
        let _ = sock.set_broadcast(true);
    }
    let mut k = 0u32;
    let mut buf = [0u8; 16];
    loop {
        k += 1;
        // everybody sends to the last host (fan-in), the last host answers everybody
        let targets: Vec<usize> = if me == n - 1 { (0..n - 1).collect() } else { vec![n - 1] };
        for t in targets {
            let r = sock.try_send_to(&[me as u8, (k & 0xff) as u8], (format!("h{t}").as_str(), 9));
            if let Err(e) = r {
                log(&l, &name, format!("send to h{t} failed {}", errk(&e)));
            }
        }
        if !v6 && k % 3 == 0 {
            let r = sock.try_send_to(&[me as u8, 0xbb], ("255.255.255.255", 9));
            log(&l, &name, format!("broadcast {:?}", r.map_err(|e| errk(&e))));
        }
        tokio::time::sleep(Duration::from_millis(2)).await;
        loop {
            match sock.try_recv_from(&mut buf) {
                Ok((len, from)) => log(&l, &name, format!("recv {:?} from {}", &buf[..len], from)),
                Err(_) => break,
            }
        }
    }
}

async fn prog_tcp(l: Log, me: usize, n: usize, v6: bool) -> turmoil::Result {
    let name = format!("h{me}");
    if me == 0 {
        let lst = TcpListener::bind((if v6 { "::" } else { "0.0.0.0" }, 80)).await?;
        // the server host also talks to itself over the loopback address
        {
            let (l3, name3) = (l.clone(), name.clone());
            tokio::task::spawn_local(async move {
                tokio::time::sleep(Duration::from_millis(2)).await;
                let r = tokio::time::timeout(Duration::from_millis(40), TcpStream::connect((if v6 { "::1" } else { "127.0.0.1" }, 80))).await;
                match r {
                    Ok(Ok(mut st)) => {
                        for i in 0..3u8 {
                            let w = st.write_all(&[0xee, i]).await;
                            let mut b = [0u8; 8];
                            let rr = tokio::time::timeout(Duration::from_millis(30), st.read(&mut b)).await;
                            log(&l3, &name3, format!("loopback msg {i} write {:?} reply {:?}", w.map_err(|e| errk(&e)), rr.map(|x| x.map(|n| b[..n].to_vec()).map_err(|e| errk(&e))).map_err(|_| "timeout")));
                        }
                    }
                    Ok(Err(e)) => log(&l3, &name3, format!("loopback connect failed {}", errk(&e))),
                    Err(_) => log(&l3, &name3, "loopback connect timed out".into()),
                }
            });
        }
        // a sink that accepts and never reads: its callers end up parked in write, and learn of a
        // bounce of this host in whatever order the host's stream table is walked
        {
            let sink = TcpListener::bind((if v6 { "::" } else { "0.0.0.0" }, 81)).await?;
            tokio::task::spawn_local(async move {
                let mut held = vec![];
                while let Ok((st, _)) = sink.accept().await {
                    held.push(st);
                }
            });
        }
        let mut k = 0;
        loop {
            let (mut st, from) = lst.accept().await?;
            k += 1;
            log(&l, &name, format!("accept #{k} from {}", from.ip()));
            let (l2, name2) = (l.clone(), name.clone());
            tokio::task::spawn_local(async move {
                let mut b = [0u8; 8];
                loop {
                    match st.read(&mut b).await {
                        Ok(0) => {
                            log(&l2, &name2, format!("conn {k} eof"));
                            break;
                        }
                        Ok(len) => {
                            log(&l2, &name2, format!("conn {k} read {:?}", &b[..len]));
                            if st.write_all(&b[..len]).await.is_err() {
                                break;
                            }
                        }
                        Err(e) => {
                            log(&l2, &name2, format!("conn {k} error {}", errk(&e)));
                            break;
                        }
                    }
                }
            });
        }
    }
    if n == 1 {
        return std::future::pending().await;
    }
    // three writers that stream into the sink of h0 until they fail
    for j in 0..3u8 {
        let (l4, name4) = (l.clone(), name.clone());
        tokio::task::spawn_local(async move {
            tokio::time::sleep(Duration::from_millis(1)).await;
            let Ok(Ok(mut st)) = tokio::time::timeout(Duration::from_millis(10), TcpStream::connect(("h0", 81))).await else {
                log(&l4, &name4, format!("sink writer {j}: no connection"));
                return;
            };
            let mut sent = 0u32;
            loop {
                if let Err(e) = st.write_all(&[j]).await {
                    log(&l4, &name4, format!("sink writer {j} failed after {sent} bytes: {}", errk(&e)));
                    break;
                }
                sent += 1;
            }
        });
    }
    let mut round = 0u8;
    loop {
        round += 1;
        match tokio::time::timeout(Duration::from_millis(15), TcpStream::connect(("h0", 80))).await {
            Ok(Ok(mut st)) => {
                log(&l, &name, format!("round {round} connected from port {}", st.local_addr().map(|a| a.port()).unwrap_or(0)));
                for i in 0..3u8 {
                    let w = st.write_all(&[me as u8, round, i]).await;
                    let mut b = [0u8; 8];
                    let r = tokio::time::timeout(Duration::from_millis(9), st.read(&mut b)).await;
                    log(
                        &l,
                        &name,
                        format!(
                            "round {round} msg {i} write {:?} reply {:?}",
                            w.map_err(|e| errk(&e)),
                            r.map(|x| x.map(|len| b[..len].to_vec()).map_err(|e| errk(&e))).map_err(|_| "timeout")
                        ),
                    );
                }
            }
            Ok(Err(e)) => log(&l, &name, format!("round {round} connect failed {}", errk(&e))),
            Err(_) => log(&l, &name, format!("round {round} connect timed out")),
        }
        tokio::time::sleep(Duration::from_millis(3)).await;
    }
}

async fn prog_select(l: Log, me: usize, n: usize, v6: bool) -> turmoil::Result {
    let name = format!("h{me}");
    let sock = UdpSocket::bind((if v6 { "::" } else { "0.0.0.0" }, 9)).await?;
    let (tx1, mut rx1) = tokio::sync::mpsc::unbounded_channel::<u32>();
    let (tx2, mut rx2) = tokio::sync::mpsc::unbounded_channel::<u32>();
    let (tx3, mut rx3) = tokio::sync::mpsc::unbounded_channel::<u32>();
    for (i, tx) in [tx1, tx2, tx3].into_iter().enumerate() {
        tokio::spawn(async move {
            let mut k = 0;
            loop {
                k += 1;
                let _ = tx.send(k * 10 + i as u32);
                tokio::time::sleep(Duration::from_millis(2)).await;
            }
        });
    }
    let mut js = tokio::task::JoinSet::new();
    for i in 0..4u64 {
        js.spawn(async move {
            tokio::time::sleep(Duration::from_millis(1 + (i % 2))).await;
            i
        });
    }
    let mut fp: u64 = 0;
    let mut buf = [0u8; 16];
    loop {
        // several branches are ready in the same poll: tokio's per-runtime rng picks the start
        tokio::select! {
            Some(a) = rx1.recv() => { fp = fp.wrapping_mul(31).wrapping_add(a as u64); log(&l, &name, format!("branch 1 {a}")); }
            Some(b) = rx2.recv() => { fp = fp.wrapping_mul(31).wrapping_add(b as u64); log(&l, &name, format!("branch 2 {b}")); }
            Some(c) = rx3.recv() => { fp = fp.wrapping_mul(31).wrapping_add(c as u64); log(&l, &name, format!("branch 3 {c}")); }
            Some(j) = js.join_next() => { log(&l, &name, format!("joined {:?}", j.ok())); }
            r = sock.recv_from(&mut buf) => {
                if let Ok((len, from)) = r { log(&l, &name, format!("recv {:?} from {}", &buf[..len], from.ip())); }
            }
            _ = tokio::time::sleep(Duration::from_millis(3)) => { log(&l, &name, "idle".into()); }
        }
        // the choice is made observable to the other hosts too
        let t = (me + 1) % n;
        let _ = sock.try_send_to(&fp.to_le_bytes()[..4], (format!("h{t}").as_str(), 9));
    }
}

/// the select part of `prog_select` on a *client* node (clients get their own seeded runtime)
async fn prog_select_client(l: Log) -> turmoil::Result {
    let name = "cl".to_string();
    let (tx1, mut rx1) = tokio::sync::mpsc::unbounded_channel::<u32>();
    let (tx2, mut rx2) = tokio::sync::mpsc::unbounded_channel::<u32>();
    for (i, tx) in [tx1, tx2].into_iter().enumerate() {
        tokio::spawn(async move {
            let mut k = 0;
            loop {
                k += 1;
                let _ = tx.send(k * 10 + i as u32);
                tokio::time::sleep(Duration::from_millis(2)).await;
            }
        });
    }
    loop {
        tokio::select! {
            Some(a) = rx1.recv() => log(&l, &name, format!("client branch 1 {a}")),
            Some(b) = rx2.recv() => log(&l, &name, format!("client branch 2 {b}")),
        }
    }
}

struct RingFd(std::os::fd::RawFd);
impl std::os::fd::AsRawFd for RingFd {
    fn as_raw_fd(&self) -> std::os::fd::RawFd {
        self.0
    }
}

async fn prog_fs(l: Log, me: usize, _n: usize, _v6: bool) -> turmoil::Result {
    use std::os::fd::AsRawFd;
    use turmoil::fs::shim::std::fs;
    use turmoil::io_uring::{opcode, types, AsyncFd, IoUring};
    let name = format!("h{me}");
    // what survived the previous incarnation
    let mut names = vec![];
    if let Ok(rd) = fs::read_dir("/d") {
        for e in rd.flatten() {
            let p = e.path();
            names.push(format!("{}={:?}", p.display(), fs::read(&p).map_err(|e| errk(&e))));
        }
    }
    log(&l, &name, format!("at start /d holds {names:?}"));
    let r = fs::create_dir_all("/d");
    log(&l, &name, format!("mkdir {:?}", r.map_err(|e| errk(&e))));
    if !fs::exists("/d/dur0") {
        // files whose data is synced but whose directory entry never is (a crash sweeps them
        // away), created before a handful of fully durable files: what a later incarnation
        // lists, and in which order, is part of the execution
        let _ = fs::create_dir_all("/o");
        for i in 0..3 {
            let f = format!("/o/x{i}");
            let r = fs::write(&f, [i as u8; 3]).and_then(|_| fs::OpenOptions::new().write(true).open(&f)).and_then(|h| h.sync_all());
            log(&l, &name, format!("data-synced only {f} {:?}", r.map_err(|e| errk(&e))));
        }
        for i in 0..4 {
            let f = format!("/d/dur{i}");
            let r = fs::write(&f, [i as u8; 2]).and_then(|_| fs::OpenOptions::new().write(true).open(&f)).and_then(|h| h.sync_all());
            log(&l, &name, format!("durable {f} {:?}", r.map_err(|e| errk(&e))));
        }
        let r = fs::sync_dir("/d").and_then(|_| fs::sync_dir("/"));
        log(&l, &name, format!("sync_dir /d, / {:?}", r.map_err(|e| errk(&e))));
    }
    // a handle that stays open for the whole life of this incarnation
    let keep = fs::OpenOptions::new().read(true).write(true).create(true).open("/d/keep");
    let mut k = 0u32;
    loop {
        k += 1;
        if let Ok(h) = &keep {
            use std::os::unix::fs::FileExt;
            let r = h.write_at(&[k as u8; 4], (k % 3) as u64 * 4);
            log(&l, &name, format!("long-lived handle write #{k} {:?}", r.map_err(|e| format!("{:?}: {e}", e.kind()))));
        }
        // files are created in a host- and round-dependent order
        for j in 0..3u32 {
            let f = format!("/d/f{}", (j * 7 + me as u32 + k) % 5);
            let r = fs::write(&f, [k as u8, j as u8, me as u8, 9, 9, 9]);
            log(&l, &name, format!("write {f} {:?}", r.map_err(|e| errk(&e))));
        }
        if k % 2 == 0 {
            let r = fs::OpenOptions::new().write(true).open(format!("/d/f{}", k % 5)).and_then(|f| f.sync_all());
            log(&l, &name, format!("sync {:?}", r.map_err(|e| errk(&e))));
        }
        if k % 3 == 0 {
            let r = fs::remove_file(format!("/d/f{}", (k + 1) % 5));
            log(&l, &name, format!("remove {:?}", r.map_err(|e| errk(&e))));
            let r = fs::rename(format!("/d/f{}", (k + 2) % 5), format!("/d/g{}", k % 2));
            log(&l, &name, format!("rename {:?}", r.map_err(|e| errk(&e))));
        }
        let mut names = vec![];
        match fs::read_dir("/d") {
            Ok(rd) => {
                for e in rd.flatten() {
                    names.push(e.file_name().to_string_lossy().into_owned());
                }
            }
            Err(e) => names.push(errk(&e)),
        }
        log(&l, &name, format!("read_dir {names:?}"));
        for nme in names.iter().take(2) {
            let r = fs::read(format!("/d/{nme}"));
            log(&l, &name, format!("read {nme} {:?}", r.map_err(|e| errk(&e))));
            let m = fs::metadata(format!("/d/{nme}")).and_then(|m| m.modified());
            log(&l, &name, format!("mtime {nme} {:?}", m.map(|t| t.duration_since(SystemTime::UNIX_EPOCH).unwrap_or_default()).map_err(|e| errk(&e))));
        }
        // a misaligned O_DIRECT request: the complete error (kind and text) is a result too
        if k % 3 == 1 {
            use std::os::unix::fs::{FileExt, OpenOptionsExt};
            let r = fs::OpenOptions::new().read(true).write(true).create(true).custom_flags(0x4000).open("/d/direct").and_then(|f| {
                let mut b = vec![0u8; 100];
                f.read_at(&mut b, 700)
            });
            log(&l, &name, format!("misaligned direct read {:?}", r.map_err(|e| format!("{:?}: {e}", e.kind()))));
        }
        // io_uring: a batch of writes / reads / fsync, completion order is observable
        if let Ok(file) = fs::OpenOptions::new().read(true).write(true).create(true).open("/d/ring") {
            let fd = types::Fd(file.as_raw_fd());
            if let Ok(mut ring) = IoUring::new(8) {
                let bufs: Vec<Vec<u8>> = (0..3u8).map(|i| vec![i + k as u8; 4]).collect();
                let mut rbuf = vec![0u8; 8];
                for (i, bf) in bufs.iter().enumerate() {
                    let e = opcode::Write::new(fd, bf.as_ptr(), bf.len() as u32).offset(i as u64 * 4).build().user_data(i as u64 + 1);
                    unsafe {
                        let _ = ring.submission().push(&e);
                    }
                }
                let e = opcode::Fsync::new(fd).build().user_data(10);
                unsafe {
                    let _ = ring.submission().push(&e);
                }
                let e = opcode::Read::new(fd, rbuf.as_mut_ptr(), rbuf.len() as u32).offset(0).build().user_data(11);
                unsafe {
                    let _ = ring.submission().push(&e);
                }
                let sub = ring.submit();
                log(&l, &name, format!("ring submit {:?}", sub.map_err(|e| errk(&e))));
                let afd = AsyncFd::new(RingFd(ring.as_raw_fd()));
                let mut got = 0;
                let mut order = vec![];
                while got < 5 {
                    let cqe = {
                        let mut cq = ring.completion();
                        cq.sync();
                        cq.next()
                    };
                    match cqe {
                        Some(c) => {
                            got += 1;
                            order.push((c.user_data(), c.result()));
                        }
                        None => match &afd {
                            Ok(a) => {
                                if tokio::time::timeout(Duration::from_millis(20), a.readable()).await.is_err() {
                                    break;
                                }
                            }
                            Err(_) => break,
                        },
                    }
                }
                log(&l, &name, format!("ring completions {order:?} read buffer {rbuf:?}"));
            }
        }
        tokio::time::sleep(Duration::from_millis(2)).await;
    }
}

// ---------------------------------------------------------------- one run

pub fn run_trace(cfg: &Cfg, real_delay: bool) -> Vec<String> {
    let rec = std::sync::Arc::new(Rec { lines: Mutex::new(vec![]), next: AtomicU64::new(0), spans: Mutex::new(BTreeMap::new()), stack: Mutex::new(vec![]) });
    let dispatch = tracing::Dispatch::new(RecHandle(rec.clone()));
    let log: Log = Rc::new(RefCell::new(vec![]));
    let mut results: Vec<String> = vec![];
    tracing::dispatcher::with_default(&dispatch, || {
        let mut sim = build(cfg);
        let n = cfg.nhosts;
        for i in 0..n {
            let l = log.clone();
            let (family, v6) = (cfg.family, cfg.v6);
            let incarnation = Rc::new(std::cell::Cell::new(0u32));
            sim.host(format!("h{i}"), move || {
                let l = l.clone();
                // the synchronous part of the software factory runs inside `Sim::bounce`: the
                // clocks it reads there are part of the execution (not at registration, where
                // no host is current yet)
                let inc = incarnation.get();
                incarnation.set(inc + 1);
                if inc > 0 {
                    l.borrow_mut().push(format!(
                        "P h{i} restarted (incarnation {inc}) reads elapsed {:?} sim_elapsed {:?} since_epoch {:?}",
                        turmoil::elapsed(),
                        turmoil::sim_elapsed(),
                        turmoil::since_epoch()
                    ));
                }
                async move {
                    match family {
                        0 => prog_udp(l, i, n, v6).await,
                        1 => prog_tcp(l, i, n, v6).await,
                        2 => prog_select(l, i, n, v6).await,
                        _ => prog_fs(l, i, n, v6).await,
                    }
                }
            });
        }
        if cfg.family == 2 {
            sim.client("cl", prog_select_client(log.clone()));
        }
        if cfg.timeout_client {
            sim.client("never", async { std::future::pending::<turmoil::Result>().await });
        }
        let last = format!("h{}", n - 1);
        for k in 0..cfg.steps {
            // wall-clock time is not an input of the simulation: the second run of a twin
            // lets real time pass (after the build, and after the controller's bounces)
            if real_delay && (k == 0 || k == 16) {
                // with manual deliveries pending (script 5) real time is pushed beyond
                // simulated time, so a wall-clock stamp on a hand-delivered message shows
                let ms = if k == 0 {
                    4
                } else if cfg.script == 5 {
                    cfg.tick_ms * 16 + 6
                } else {
                    8
                };
                std::thread::sleep(Duration::from_millis(ms));
            }
            // a bounce runs the software factory at once: in the second run real time is pushed
            // beyond the virtual time the host has consumed, so a clock read there that mixes in
            // the wall clock shows
            // (a runtime re-created by the crash at step 6 has consumed no virtual time; the one
            // of h0 five ticks; at step 15 the earlier pauses count as well)
            if real_delay {
                let ms = match (cfg.script, k) {
                    (3, 11) => 2,
                    (4, 5) => cfg.tick_ms * 5 + 1,
                    (4, 15) => cfg.tick_ms * 10 + 1,
                    _ => 0,
                };
                if ms > 0 {
                    std::thread::sleep(Duration::from_millis(ms));
                }
            }
            // controller script
            match (cfg.script, k) {
                (1, 5) if n > 1 => sim.partition("h0", last.as_str()),
                (1, 14) if n > 1 => sim.repair("h0", last.as_str()),
                (2, 4) if n > 1 => sim.hold("h0", last.as_str()),
                (2, 13) if n > 1 => sim.release("h0", last.as_str()),
                (3, 6) => sim.crash(last.as_str()),
                (3, 11) => sim.bounce(last.as_str()),
                (4, 5) => sim.bounce("h0"),
                (4, 9) if n > 1 => sim.partition_oneway("h0", last.as_str()),
                // every host at once, selected by a regular expression: the order in which the
                // matched hosts are visited is part of the execution
                (4, 15) => sim.bounce(regex::Regex::new("^h[0-9]$").unwrap()),
                (4, 20) if n > 1 => sim.repair_oneway("h0", last.as_str()),
                (5, 4) if n > 1 => sim.hold("h0", last.as_str()),
                (5, 6) | (5, 17) | (5, 18) if n > 1 => {
                    // deliver the oldest held message by hand
                    sim.links(|links| {
                        for link in links {
                            if let Some(sent) = link.into_iter().next() {
                                sent.deliver();
                            }
                        }
                    });
                }
                (5, 20) if n > 1 => {
                    sim.links(|links| {
                        for link in links {
                            link.deliver_all();
                        }
                    });
                }
                (5, 22) if n > 1 => sim.release("h0", last.as_str()),
                _ => {}
            }
            let r = vx_core::catch(|| sim.step());
            let s = match r {
                Ok(Ok(done)) => format!("R step {k} ok {done} elapsed {:?} since_epoch {:?}", sim.elapsed(), sim.since_epoch()),
                Ok(Err(e)) => format!("R step {k} err {e}"),
                Err(p) => format!("R step {k} panicked {p}"),
            };
            let stop = !s.contains(" ok ");
            results.push(s);
            if stop {
                break;
            }
        }
        let mut inflight = vec![];
        sim.links(|links| {
            for link in links {
                for sent in link {
                    let (s, d) = sent.pair();
                    inflight.push(format!("{s}->{d} {}", sent.protocol()));
                }
            }
        });
        results.push(format!("R in flight at the end: {inflight:?}"));
    });
    // merge: tracing lines and program lines are both appended in execution order; keep
    // them as separate sections (each is totally ordered) plus the step results
    let mut out = std::mem::take(&mut *rec.lines.lock().unwrap());
    out.extend(log.borrow().iter().cloned());
    out.extend(results);
    out
}

struct RecHandle(std::sync::Arc<Rec>);
impl tracing::Subscriber for RecHandle {
    fn enabled(&self, m: &tracing::Metadata<'_>) -> bool {
        self.0.enabled(m)
    }
    fn new_span(&self, a: &tracing::span::Attributes<'_>) -> tracing::span::Id {
        self.0.new_span(a)
    }
    fn record(&self, a: &tracing::span::Id, b: &tracing::span::Record<'_>) {
        self.0.record(a, b)
    }
    fn record_follows_from(&self, a: &tracing::span::Id, b: &tracing::span::Id) {
        self.0.record_follows_from(a, b)
    }
    fn event(&self, e: &tracing::Event<'_>) {
        self.0.event(e)
    }
    fn enter(&self, i: &tracing::span::Id) {
        self.0.enter(i)
    }
    fn exit(&self, i: &tracing::span::Id) {
        self.0.exit(i)
    }
}

fn first_diff(a: &[String], b: &[String]) -> String {
    let i = a.iter().zip(b.iter()).position(|(x, y)| x != y).unwrap_or(a.len().min(b.len()));
    format!(
        "traces of {} and {} lines differ first at line {i}:\n      run 1: {}\n      run 2: {}",
        a.len(),
        b.len(),
        a.get(i).map(|s| s.as_str()).unwrap_or("<end of trace>"),
        b.get(i).map(|s| s.as_str()).unwrap_or("<end of trace>")
    )
}

fn clause_of(a: &[String], b: &[String]) -> &'static str {
    let i = a.iter().zip(b.iter()).position(|(x, y)| x != y).unwrap_or(a.len().min(b.len()));
    let l = a.get(i).or(b.get(i)).map(|s| s.as_str()).unwrap_or("");
    if l.starts_with("T ") {
        "network-trace-differs"
    } else if l.contains("read_dir") || l.contains("/d holds") {
        "directory-order-differs"
    } else if l.contains("ring completions") {
        "completion-order-differs"
    } else if l.starts_with("R ") {
        "result-differs"
    } else {
        "program-observation-differs"
    }
}

/// digests recorded by the in-process pass: choices -> trace digest
pub static DIGESTS: Mutex<BTreeMap<Vec<u32>, u64>> = Mutex::new(BTreeMap::new());

/// In-process twin scenario (mode 0) or single-run digest recording only (mode 1, used by
/// the child processes).
pub fn scenario(ch: &mut Chooser, thorough: bool, child: bool) -> Exec {
    let cfg = cfg_from(ch, thorough);
    // the first run happens on a brand-new OS thread (no thread-local left-overs of earlier
    // simulations), the second on this worker thread, which has run many simulations before
    let t1 = if child {
        run_trace(&cfg, false)
    } else {
        let c2 = cfg.clone();
        match std::thread::Builder::new().stack_size(8 << 20).spawn(move || run_trace(&c2, false)).map(|h| h.join()) {
            Ok(Ok(t)) => t,
            _ => vec!["R the run on a fresh thread panicked".to_string()],
        }
    };
    let d1 = Digest::of64(&t1);
    DIGESTS.lock().unwrap().insert(ch.choices(), d1);
    let mut feats: Vec<&'static str> = vec![];
    if t1.iter().any(|l| l.contains("Drop")) {
        feats.push("drops");
    }
    if t1.iter().any(|l| l.contains("ring completions")) {
        feats.push("uring");
    }
    if t1.iter().any(|l| l.contains("branch ")) {
        feats.push("select");
    }
    if child {
        return Exec { outcome: d1, violation: None, features: feats };
    }
    let t2 = run_trace(&cfg, true);
    let mut violation = None;
    if t1 != t2 {
        let mut v = Violation::new(clause_of(&t1, &t2), format!("two runs of the same scenario in one process: {}", first_diff(&t1, &t2)));
        v.sig = format!("{}|in-process|{}", v.clause, FAMILIES[cfg.family]);
        v.scenario = format!("c01 tier={} {:?}", if thorough { "thorough" } else { "quick" }, cfg);
        v.actions = vec![format!("family={} script={} hosts={}", FAMILIES[cfg.family], SCRIPTS[cfg.script], cfg.nhosts)];
        violation = Some(v);
    }
    Exec { outcome: d1, violation, features: feats }
}

/// Print the whole trace of one scenario (used to diff against a fresh process).
pub fn print_trace(choices: &[u32], thorough: bool) {
    let mut ch = Chooser::from_choices(choices);
    let cfg = cfg_from(&mut ch, thorough);
    for l in run_trace(&cfg, std::env::var_os("VX_C01_REAL_DELAY").is_some()) {
        println!("{l}");
    }
}

pub fn describe(choices: &[u32], thorough: bool) -> String {
    let mut ch = Chooser::from_choices(choices);
    format!("{:?}", cfg_from(&mut ch, thorough))
}
