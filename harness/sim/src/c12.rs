//! C12 — turmoil::net pairs every connect with exactly one accept, or refuses it.
//!
//! Listener host L, two connectors on host X, one on L itself (own address or
//! 127.0.0.1). The link L–X is held; the driver delivers the queued SYNs in every
//! order. Connector start / cancel rounds, the round at which L starts accepting, and a
//! listener drop (+ re-bind) are enumerated as plain choices. A monitor host reads
//! `established_tcp_stream_count_on` at the end.

use std::cell::RefCell;
use std::net::{IpAddr, SocketAddr};
use std::rc::Rc;

use tokio::io::{AsyncReadExt, AsyncWriteExt};
use tokio::sync::Notify;
use tokio::task::JoinHandle;
use turmoil::net::{TcpListener, TcpStream};
use vx_core::dfs::Exec;
use vx_core::{Chooser, Digest, Violation};

use crate::kit::*;

#[derive(Clone, Copy, Debug, PartialEq, Eq)]
enum Where {
    X,
    LOwn,
    LLo,
}

#[derive(Default)]
struct Conn {
    started: bool,
    cancel: bool,
    result: Option<Result<(SocketAddr, SocketAddr), String>>, // (local, peer)
    drop_now: bool,
}

#[derive(Default)]
struct St {
    conns: Vec<Conn>,
    // listener side
    want_listener: bool,
    listener_kind_lo: bool,
    gate_open: bool,
    bind_results: Vec<String>,
    /// (nonce, local, peer) in accept order
    accepted: Vec<(Option<u8>, SocketAddr, SocketAddr)>,
    accept_errs: Vec<String>,
    drop_streams: bool,
    counts: Option<(usize, usize)>,
    want_counts: bool,
}

pub fn scenario(ch: &mut Chooser, thorough: bool) -> Exec {
    let v6 = thorough && ch.flag("ipv6");
    let lo_bind = ch.flag("listener_bound_to_localhost");
    let local_kind = *ch.of("local_connector_uses", &[Where::LOwn, Where::LLo]);
    let kinds = [Where::X, Where::X, local_kind];
    let nconn = kinds.len();
    let starts: Vec<usize> = (0..nconn).map(|_| ch.choose("connector_start_round", if thorough { 3 } else { 2 })).collect();
    // cancel rounds are relative to the start round (a connect cannot be cancelled before it exists)
    let cancels: Vec<Option<usize>> = (0..nconn).map(|i| ch.of("connector_cancelled_after_rounds", if thorough { &[None, Some(1usize), Some(2), Some(3)][..] } else { &[None, Some(1usize), Some(3)][..] }).map(|d| starts[i] + d)).collect();
    let gate = *ch.of("accept_from_round", if thorough { &[0usize, 1, 2, 3, 5][..] } else { &[0usize, 2, 5][..] });
    let ldrop = *ch.of("listener_dropped_at_round", if thorough { &[None, Some(1), Some(2), Some(3), Some(4)][..] } else { &[None, Some(1), Some(3)][..] });
    let rebind = ldrop.is_some() && ch.flag("listener_rebinds_two_rounds_later");
    let unknown_target = ch.flag("extra_connect_to_unknown_address_and_closed_port");
    let pool = ch.flag("five_single_shot_accept_calls_pending_at_once");
    let two_syns = pool && ch.flag("two_held_syns_handed_over_in_one_round");
    // a local connector whose SYN reaches the host in the very step in which the listener is
    // bound again races with that bind inside the step: the property leaves the order open
    if rebind && (0..nconn).any(|i| kinds[i] != Where::X && Some(starts[i] + 1) == ldrop.map(|d| d + 2)) {
        return Exec { outcome: 7, violation: None, features: vec!["skipped-intra-step-race"] };
    }

    let mut b = builder(1);
    b.tcp_capacity(8);
    if v6 {
        b.ip_version(turmoil::IpVersion::V6);
    }
    let mut sim = b.build();
    let st = Rc::new(RefCell::new(St::default()));
    st.borrow_mut().conns = (0..nconn + 2).map(|_| Conn::default()).collect();
    st.borrow_mut().listener_kind_lo = lo_bind;
    st.borrow_mut().want_listener = true;
    let wake_l = Rc::new(Notify::new());
    let wake_x = Rc::new(Notify::new());
    let wake_m = Rc::new(Notify::new());

    let lo_ip: IpAddr = if v6 { "::1".parse().unwrap() } else { "127.0.0.1".parse().unwrap() };
    let any_ip: IpAddr = if v6 { "::".parse().unwrap() } else { "0.0.0.0".parse().unwrap() };

    // connector task body
    fn spawn_conn(st: Rc<RefCell<St>>, i: usize, dst: SocketAddr) -> JoinHandle<()> {
        tokio::task::spawn_local(async move {
            let r = TcpStream::connect(dst).await;
            match r {
                Ok(mut s) => {
                    let la = s.local_addr().unwrap();
                    let pa = s.peer_addr().unwrap();
                    st.borrow_mut().conns[i].result = Some(Ok((la, pa)));
                    let _ = s.write_all(&[i as u8 + 1]).await;
                    // hold the stream until told to drop it
                    loop {
                        if st.borrow().conns[i].drop_now {
                            break;
                        }
                        tokio::time::sleep(std::time::Duration::from_millis(1)).await;
                    }
                    drop(s);
                }
                Err(e) => {
                    st.borrow_mut().conns[i].result = Some(Err(errk(&e)));
                }
            }
        })
    }

    // ---- host L: listener management + local connector
    let (st_l, wl) = (st.clone(), wake_l.clone());
    let kinds_l = kinds;
    sim.client("hl", async move {
        let me = turmoil::lookup("hl");
        let mut listener: Option<Rc<TcpListener>> = None;
        let mut accept_task: Option<JoinHandle<()>> = None;
        let mut handles: Vec<Option<JoinHandle<()>>> = (0..8).map(|_| None).collect();
        loop {
            // listener lifecycle
            let (want, lo, gate_open) = {
                let g = st_l.borrow();
                (g.want_listener, g.listener_kind_lo, g.gate_open)
            };
            if want && listener.is_none() {
                let ip = if lo { lo_ip } else { any_ip };
                match TcpListener::bind((ip, 80)).await {
                    Ok(l) => {
                        st_l.borrow_mut().bind_results.push("ok".into());
                        listener = Some(Rc::new(l));
                        // while it is live, a second bind of the same port through the other
                        // kind of address (wildcard vs. localhost) must be turned down
                        let other = if lo { any_ip } else { lo_ip };
                        let r2 = match TcpListener::bind((other, 80)).await {
                            Ok(_) => "ok".to_string(),
                            Err(e) => errk(&e),
                        };
                        st_l.borrow_mut().bind_results.push(format!("second bind of the other kind: {r2}"));
                    }
                    Err(e) => {
                        st_l.borrow_mut().bind_results.push(errk(&e));
                        st_l.borrow_mut().want_listener = false;
                    }
                }
            }
            if !want && listener.is_some() {
                if let Some(t) = accept_task.take() {
                    t.abort();
                    let _ = t.await;
                }
                listener = None; // drops the listener (last Rc)
            }
            if gate_open && accept_task.is_none() {
                if let Some(l) = listener.clone() {
                    let st_a = st_l.clone();
                    accept_task = Some(tokio::task::spawn_local(async move {
                        if pool {
                            // five accept() calls pending on the one listener at the same time,
                            // each takes a single connection (a worker per connection)
                            let one = |l: Rc<TcpListener>, st_a: Rc<RefCell<St>>| async move {
                                match l.accept().await {
                                    Ok((mut s, peer)) => {
                                        let la = s.local_addr().unwrap();
                                        let idx = {
                                            let mut g = st_a.borrow_mut();
                                            g.accepted.push((None, la, peer));
                                            g.accepted.len() - 1
                                        };
                                        let st_r = st_a.clone();
                                        tokio::task::spawn_local(async move {
                                            let mut b = [0u8; 1];
                                            if let Ok(1) = s.read(&mut b).await {
                                                st_r.borrow_mut().accepted[idx].0 = Some(b[0]);
                                            }
                                            loop {
                                                if st_r.borrow().drop_streams {
                                                    break;
                                                }
                                                tokio::time::sleep(std::time::Duration::from_millis(1)).await;
                                            }
                                            drop(s);
                                        });
                                    }
                                    Err(e) => st_a.borrow_mut().accept_errs.push(errk(&e)),
                                }
                            };
                            tokio::join!(one(l.clone(), st_a.clone()), one(l.clone(), st_a.clone()), one(l.clone(), st_a.clone()), one(l.clone(), st_a.clone()), one(l.clone(), st_a.clone()));
                            return;
                        }
                        loop {
                            match l.accept().await {
                                Ok((mut s, peer)) => {
                                    let la = s.local_addr().unwrap();
                                    let idx = {
                                        let mut g = st_a.borrow_mut();
                                        g.accepted.push((None, la, peer));
                                        g.accepted.len() - 1
                                    };
                                    let st_r = st_a.clone();
                                    tokio::task::spawn_local(async move {
                                        let mut b = [0u8; 1];
                                        if let Ok(1) = s.read(&mut b).await {
                                            st_r.borrow_mut().accepted[idx].0 = Some(b[0]);
                                        }
                                        loop {
                                            if st_r.borrow().drop_streams {
                                                break;
                                            }
                                            tokio::time::sleep(std::time::Duration::from_millis(1)).await;
                                        }
                                        drop(s);
                                    });
                                }
                                Err(e) => {
                                    st_a.borrow_mut().accept_errs.push(errk(&e));
                                    break;
                                }
                            }
                        }
                    }));
                }
            }
            // local connectors (index 2) and the extra probes (3: closed port on X ... started by X)
            for i in 0..kinds_l.len() {
                if kinds_l[i] == Where::X {
                    continue;
                }
                let (start, cancel) = {
                    let g = st_l.borrow();
                    (g.conns[i].started, g.conns[i].cancel)
                };
                if start && handles[i].is_none() && st_l.borrow().conns[i].result.is_none() && !cancel {
                    let dst = match kinds_l[i] {
                        Where::LOwn => SocketAddr::new(me, 80),
                        _ => SocketAddr::new(lo_ip, 80),
                    };
                    handles[i] = Some(spawn_conn(st_l.clone(), i, dst));
                }
                if cancel {
                    if let Some(h) = handles[i].take() {
                        h.abort();
                        let _ = h.await;
                    }
                }
            }
            wl.notified().await;
        }
        #[allow(unreachable_code)]
        Ok(())
    });

    // ---- host X: remote connectors
    let (st_x, wx) = (st.clone(), wake_x.clone());
    sim.client("hx", async move {
        let l_ip = turmoil::lookup("hl");
        let mut handles: Vec<Option<JoinHandle<()>>> = (0..8).map(|_| None).collect();
        loop {
            for i in 0..nconn + 2 {
                let is_x = i >= nconn || kinds[i] == Where::X;
                if !is_x {
                    continue;
                }
                let (start, cancel) = {
                    let g = st_x.borrow();
                    (g.conns[i].started, g.conns[i].cancel)
                };
                if start && handles[i].is_none() && st_x.borrow().conns[i].result.is_none() && !cancel {
                    let dst = if i == nconn {
                        // a port nobody listens on
                        SocketAddr::new(l_ip, 81)
                    } else if i == nconn + 1 {
                        // an address no host owns
                        let ip: IpAddr = if v6 { "fe80::dead".parse().unwrap() } else { "192.168.200.200".parse().unwrap() };
                        SocketAddr::new(ip, 80)
                    } else {
                        SocketAddr::new(l_ip, 80)
                    };
                    handles[i] = Some(spawn_conn(st_x.clone(), i, dst));
                }
                if cancel {
                    if let Some(h) = handles[i].take() {
                        h.abort();
                        let _ = h.await;
                    }
                }
            }
            wx.notified().await;
        }
        #[allow(unreachable_code)]
        Ok(())
    });

    // ---- monitor
    let (st_m, wm) = (st.clone(), wake_m.clone());
    sim.client("hm", async move {
        loop {
            wm.notified().await;
            if st_m.borrow().want_counts {
                let a = turmoil::established_tcp_stream_count_on("hl");
                let b = turmoil::established_tcp_stream_count_on("hx");
                st_m.borrow_mut().counts = Some((a, b));
            }
        }
        #[allow(unreachable_code)]
        Ok(())
    });

    let l_ip = sim.lookup("hl");
    let x_ip = sim.lookup("hx");
    sim.hold("hl", "hx");

    let mut obs: Vec<String> = vec![];
    let mut feats: Vec<&'static str> = vec![];
    let mut violation: Option<Violation> = None;
    // reference
    let mut queue: Vec<usize> = vec![]; // connector indices in SYN arrival order, not yet accepted
    let mut listener_up = true;
    let mut expected_refused: Vec<bool> = vec![false; nconn + 2];
    let mut arrival_order: Vec<usize> = vec![];
    let mut syn_in_flight: Vec<usize> = vec![]; // remote connectors whose SYN sits on the held link, in send order
    let mut local_pending: Vec<(usize, usize)> = vec![]; // (connector, round the SYN arrives)
    // round in which the connector's request can first be taken by accept
    let mut takeable: Vec<Option<usize>> = vec![None; nconn + 2];
    let rounds = 9;
    let total = rounds + 12;

    for r in 0..total {
        let suffix = r >= rounds;
        // ---- scheduled events
        {
            let mut g = st.borrow_mut();
            if r == gate || suffix {
                g.gate_open = true;
            }
            if Some(r) == ldrop {
                g.want_listener = false;
                listener_up = false;
                obs.push(format!("round {r}: listener dropped"));
                // everything queued and not yet accepted is refused
                for c in queue.drain(..) {
                    expected_refused[c] = true;
                }
                feats.push("listener-dropped");
            }
            if rebind && ldrop.map(|d| d + 2) == Some(r) {
                g.want_listener = true;
                obs.push(format!("round {r}: listener bound again (during the step)"));
            }
            for i in 0..nconn {
                if starts[i] == r {
                    g.conns[i].started = true;
                    match kinds[i] {
                        Where::X => syn_in_flight.push(i),
                        _ => local_pending.push((i, r + 1)),
                    }
                }
                if cancels[i] == Some(r) && g.conns[i].result.is_none() {
                    g.conns[i].cancel = true;
                    obs.push(format!("round {r}: connector {i} cancelled"));
                    feats.push("cancelled");
                }
            }
            if unknown_target && r == 0 {
                g.conns[nconn].started = true;
                g.conns[nconn + 1].started = true;
                syn_in_flight.push(nconn);
            }
        }
        wake_l.notify_one();
        wake_x.notify_one();
        // ---- delivery: one held message per round, SYN order chosen by the explorer
        let msgs = link_msgs(&sim, l_ip, x_ip);
        if !msgs.is_empty() {
            let syn_pos: Vec<usize> = (0..msgs.len()).filter(|&i| msgs[i].contains("SYN")).collect();
            let k = if !syn_pos.is_empty() && !suffix { syn_pos[ch.choose("deliver_which_syn", syn_pos.len())] } else { 0 };
            // with `two_syns` a second held SYN is handed over in the same round; messages
            // scheduled together arrive in link-queue order
            let mut batch = vec![k];
            if two_syns && !suffix && msgs[k].contains("SYN") {
                if let Some(&other) = syn_pos.iter().find(|&&p| p != k) {
                    batch.push(other);
                }
            }
            batch.sort();
            let mut removed = 0;
            for &k in &batch {
                obs.push(format!("round {r}: deliver {}", msgs[k]));
                deliver_nth(&sim, l_ip, x_ip, k);
                if msgs[k].contains("SYN") {
                    // which connector's SYN is it? the n-th SYN on the link belongs to the n-th
                    // in-flight connector in send order
                    let nth = syn_pos.iter().position(|&p| p == k).unwrap() - removed;
                    if nth < syn_in_flight.len() {
                        let c = syn_in_flight.remove(nth);
                        removed += 1;
                        let port_ok = c < nconn; // connector nconn targets port 81
                        let bind_matches = !lo_bind; // a remote SYN never matches a localhost bind
                        if listener_up && port_ok && bind_matches {
                            queue.push(c);
                            arrival_order.push(c);
                        } else {
                            expected_refused[c] = true;
                        }
                    }
                }
            }
            // deliver every non-SYN message as well (data, FIN, RST): FIFO
            let rest = link_msgs(&sim, l_ip, x_ip).len();
            for i in 0..rest {
                if !batch.contains(&i) && !msgs.get(i).map(|m| m.contains("SYN")).unwrap_or(false) {
                    deliver_nth(&sim, l_ip, x_ip, i);
                }
            }
        }
        // local connectors: their SYN arrives one tick after the connect call
        let mut still = vec![];
        for (c, at) in local_pending.drain(..) {
            if at <= r {
                let matches = match kinds[c] {
                    Where::LOwn => !lo_bind,
                    _ => true,
                };
                if listener_up && matches {
                    queue.push(c);
                    arrival_order.push(c);
                } else {
                    expected_refused[c] = true;
                }
            } else {
                still.push((c, at));
            }
        }
        local_pending = still;
        if st.borrow().gate_open && listener_up {
            // the accept loop takes everything queued, skipping connectors that gave up
            for c in queue.drain(..) {
                if takeable[c].is_none() {
                    takeable[c] = Some(r);
                }
            }
        }
        if let Err(e) = sim.step() {
            violation = Some(Violation::new("sim-error", e.to_string()));
            break;
        }
        if rebind && ldrop.map(|d| d + 2) == Some(r) {
            // the bind ran inside this step, after this step's deliveries
            listener_up = true;
        }
        if r == rounds + 4 {
            // everybody lets go of their streams
            let mut g = st.borrow_mut();
            g.drop_streams = true;
            for c in g.conns.iter_mut() {
                c.drop_now = true;
            }
        }
        if r == total - 2 {
            st.borrow_mut().want_counts = true;
            wake_m.notify_one();
        }
    }
    let g = st.borrow();
    obs.push(format!(
        "results={:?} accepted={:?} accept_errs={:?} binds={:?} counts={:?}",
        g.conns.iter().map(|c| c.result.clone()).collect::<Vec<_>>(),
        g.accepted,
        g.accept_errs,
        g.bind_results,
        g.counts
    ));
    if let Some(b) = g.bind_results.iter().find(|b| b.starts_with("second bind") && !b.ends_with("AddrInUse")) {
        violation = Some(Violation::new(
            "second-bind",
            format!("while the listener was bound to port 80, binding the same port through the other kind of address (wildcard / localhost) returned: {b}; the port is in use"),
        ));
    }
    if violation.is_none() {
        // (3) nobody hangs; refusal cases are ConnectionRefused
        for i in 0..nconn + 2 {
            if !g.conns[i].started {
                continue;
            }
            let cancelled = g.conns[i].cancel;
            match &g.conns[i].result {
                None if cancelled => {}
                None => {
                    violation = Some(Violation::new(
                        "hang",
                        format!("connector {i} ({}) neither succeeded nor failed by the end of the fair suffix", if i < nconn { format!("{:?}", kinds[i]) } else { "probe".into() }),
                    ));
                    break;
                }
                Some(Err(e)) => {
                    let must_refuse = expected_refused[i] || i >= nconn;
                    if e != "ConnectionRefused" || (!must_refuse && !cancelled) {
                        // a connect may only fail when the reference says it is refused
                        violation = Some(Violation::new(
                            "refusal",
                            format!("connector {i} failed with {e}; reference: refused={} (listener dropped / no matching bind / unknown address)", must_refuse),
                        ));
                        break;
                    }
                    feats.push("refused");
                }
                Some(Ok((la, pa))) => {
                    if expected_refused[i] || i >= nconn {
                        violation = Some(Violation::new(
                            "phantom-connect",
                            format!("connector {i} connected ({la} -> {pa}) although the reference says its request was never accepted (refused)"),
                        ));
                        break;
                    }
                    // (1) exactly one accepted stream carries its nonce, addresses mirrored
                    let m: Vec<_> = g.accepted.iter().filter(|a| a.0 == Some(i as u8 + 1)).collect();
                    if m.len() != 1 || m[0].1 != *pa || m[0].2 != *la {
                        violation = Some(Violation::new(
                            "pairing",
                            format!("connector {i} connected with local {la} peer {pa}; accepted streams carrying its nonce: {:?} (want exactly one with local {pa} peer {la})", m),
                        ));
                        break;
                    }
                }
            }
        }
    }
    if violation.is_none() {
        // every accepted stream belongs to a connector that saw Ok (no phantom accepts)
        for a in &g.accepted {
            let owner = (0..nconn).find(|&i| matches!(&g.conns[i].result, Some(Ok((la, _))) if *la == a.2));
            // a connector cancelled in the very round its request was taken races with the
            // accept (both happen inside one step): either outcome is accepted
            let raced = (0..nconn).any(|i| g.conns[i].cancel && g.conns[i].result.is_none() && cancels[i].is_some() && cancels[i] == takeable[i]);
            if owner.is_none() && !raced {
                violation = Some(Violation::new(
                    "phantom-accept",
                    format!("accept returned a stream with peer {} but no connector completed a connect from that address (connectors that gave up must be skipped)", a.2),
                ));
                break;
            }
        }
    }
    if violation.is_none() {
        // (2) accept order = arrival order among those accepted
        let acc_order: Vec<usize> = g.accepted.iter().filter_map(|a| (0..nconn).find(|&i| matches!(&g.conns[i].result, Some(Ok((la, _))) if *la == a.2))).collect();
        let want: Vec<usize> = arrival_order.iter().copied().filter(|c| acc_order.contains(c)).collect();
        // arrival order is only meaningful within one listener incarnation; with a re-bind the
        // reference order still holds because dropped queues are refused
        if acc_order != want {
            violation = Some(Violation::new(
                "accept-order",
                format!("requests arrived in the order {:?} but were accepted in the order {:?}", want, acc_order),
            ));
        }
    }
    if violation.is_none() {
        // (4) nothing counts as established once both ends are gone
        match g.counts {
            Some((0, 0)) => {}
            other => {
                violation = Some(Violation::new(
                    "stream-count",
                    format!("after every stream was dropped, every pending connect had failed or been cancelled and the fair suffix ran, established_tcp_stream_count_on(L, X) = {:?}, expected (0, 0)", other),
                ));
            }
        }
    }
    drop(g);
    if let Some(v) = violation.as_mut() {
        v.sig = v.clause.to_string();
        v.scenario = format!(
            "c12 tier={} v6={v6} lo_bind={lo_bind} local={local_kind:?} starts={starts:?} cancels={cancels:?} gate={gate} ldrop={ldrop:?} rebind={rebind} probes={unknown_target} pool={pool} two_syns={two_syns}",
            if thorough { "thorough" } else { "quick" }
        );
        v.actions = obs.clone();
    }
    Exec { outcome: Digest::of64(&obs), violation, features: feats }
}

// ---------------------------------------------------------------------------------------
// Part 2: holds and partitions around the handshake. Two hosts (either registration
// order), fixed 2-tick latency so the SYN is in flight for two steps; a partition (both
// ways or one-way in the connector->listener direction), optionally on a link that is
// being held, is imposed before the connect, while the SYN is in flight, in the step it is
// due, or after it has been delivered. A connect whose SYN has not reached the listener
// when the connector->listener direction is cut must fail with ConnectionRefused within a
// few steps; one whose SYN arrived before must succeed.

/// the two ends of the link as names, or the second / both of them as a regex that matches
/// both hosts (pairs of a host with itself are skipped by the library)
macro_rules! on_link {
    ($sel:expr, $($call:tt)+) => {
        match $sel {
            0 => $($call)+("con", "lst"),
            1 => $($call)+("con", regex::Regex::new("^(con|lst)$").unwrap()),
            _ => $($call)+(regex::Regex::new("^(con|lst)$").unwrap(), "lst"),
        }
    };
}

pub fn partition_scenario(ch: &mut Chooser, thorough: bool) -> Exec {
    let listener_first = ch.flag("listener_registered_first");
    let v6 = thorough && ch.flag("ipv6");
    let held = ch.flag("link_held_before_the_connect");
    // 0 partition, 1 partition_oneway(connector -> listener)
    let kind = ch.choose("fault(partition|oneway connector->listener)", 2);
    let from_host = ch.flag("fault_issued_from_host_code");
    let fault_before: usize = *ch.of("fault_before_step", &[1usize, 2, 3, 4, 5]);
    let release_before: Option<usize> = if held { *ch.of("release_before_step", &[None, Some(3usize), Some(6)]) } else { None };
    let repair_after: Option<usize> = *ch.of("repair_after_steps", &[None, Some(2usize)]);
    let sel = ch.choose("link_named_by(names|con + regex matching both|regex matching both + lst)", 3);

    let mut b = builder(1);
    b.min_message_latency(std::time::Duration::from_millis(2)).max_message_latency(std::time::Duration::from_millis(2));
    if v6 {
        b.ip_version(turmoil::IpVersion::V6);
    }
    let mut sim = b.build();
    let res: Rc<RefCell<Option<(usize, Result<(), String>)>>> = Rc::new(RefCell::new(None));
    let second_res: Rc<RefCell<Option<Result<(), String>>>> = Rc::new(RefCell::new(None));
    let accepted: Rc<RefCell<u32>> = Rc::new(RefCell::new(0));
    let step_now: Rc<RefCell<usize>> = Rc::new(RefCell::new(0));
    let ctl: Rc<RefCell<Option<u8>>> = Rc::new(RefCell::new(None));
    let acc2 = accepted.clone();
    let listener = move || {
        let acc2 = acc2.clone();
        async move {
            let l = if v6 { TcpListener::bind(("::", 80)).await? } else { TcpListener::bind(("0.0.0.0", 80)).await? };
            let mut keep = vec![];
            loop {
                let (s, _) = l.accept().await?;
                *acc2.borrow_mut() += 1;
                keep.push(s);
            }
        }
    };
    let (res2, sn2, res_second) = (res.clone(), step_now.clone(), second_res.clone());
    let connector = move || {
        let (res2, sn2, res_second) = (res2.clone(), sn2.clone(), res_second.clone());
        async move {
            tokio::time::sleep(std::time::Duration::from_millis(1)).await;
            let r = TcpStream::connect(("lst", 80)).await;
            let at = *sn2.borrow();
            let keep = match r {
                Ok(s) => {
                    *res2.borrow_mut() = Some((at, Ok(())));
                    Some(s)
                }
                Err(e) => {
                    *res2.borrow_mut() = Some((at, Err(errk(&e))));
                    None
                }
            };
            // a second attempt well after the fault (and its repair, if any)
            while *sn2.borrow() < 12 {
                tokio::time::sleep(std::time::Duration::from_millis(1)).await;
            }
            let r2 = tokio::time::timeout(std::time::Duration::from_millis(8), TcpStream::connect(("lst", 80))).await;
            let keep2 = match r2 {
                Ok(Ok(s)) => {
                    *res_second.borrow_mut() = Some(Ok(()));
                    Some(s)
                }
                Ok(Err(e)) => {
                    *res_second.borrow_mut() = Some(Err(errk(&e)));
                    None
                }
                Err(_) => {
                    *res_second.borrow_mut() = Some(Err("still pending after 8 steps".into()));
                    None
                }
            };
            std::future::pending::<()>().await;
            drop(keep);
            drop(keep2);
            Ok(())
        }
    };
    if listener_first {
        sim.host("lst", listener);
        sim.host("con", connector);
    } else {
        sim.host("con", connector);
        sim.host("lst", listener);
    }
    // a third host issues the fault when it comes from host code
    let ctl2 = ctl.clone();
    sim.host("ctl", move || {
        let ctl2 = ctl2.clone();
        async move {
            loop {
                let c = ctl2.borrow_mut().take();
                match c {
                    Some(0) => on_link!(sel, turmoil::partition),
                    Some(1) => on_link!(sel, turmoil::partition_oneway),
                    Some(2) => on_link!(sel, turmoil::repair),
                    Some(3) => on_link!(sel, turmoil::repair_oneway),
                    _ => {}
                }
                tokio::time::sleep(std::time::Duration::from_millis(1)).await;
            }
        }
    });
    let mut obs: Vec<String> = vec![];
    let mut violation: Option<Violation> = None;
    let total = 24;
    if held {
        on_link!(sel, sim.hold);
        obs.push(format!("hold(con, lst) before step 0 (link selector form {sel})"));
    }
    // when the fault is issued from host code it takes effect during the step before
    let mut fault_effective: Option<usize> = None;
    for k in 0..total {
        *step_now.borrow_mut() = k;
        if from_host && k + 1 == fault_before {
            *ctl.borrow_mut() = Some(kind as u8);
            fault_effective = Some(k + 1);
            obs.push(format!("step {k}: host code calls {}", if kind == 0 { "partition" } else { "partition_oneway(con, lst)" }));
        }
        if !from_host && k == fault_before {
            if kind == 0 {
                on_link!(sel, sim.partition)
            } else {
                on_link!(sel, sim.partition_oneway)
            }
            fault_effective = Some(k);
            obs.push(format!("before step {k}: {}", if kind == 0 { "partition(con, lst)" } else { "partition_oneway(con, lst)" }));
        }
        if Some(k) == release_before {
            on_link!(sel, sim.release);
            obs.push(format!("before step {k}: release(con, lst)"));
        }
        if let (Some(f), Some(r)) = (fault_effective, repair_after) {
            if k == f + r {
                if from_host {
                    *ctl.borrow_mut() = Some(2 + kind as u8);
                } else if kind == 0 {
                    on_link!(sel, sim.repair)
                } else {
                    on_link!(sel, sim.repair_oneway)
                }
                obs.push(format!("{} step {k}: {}", if from_host { "in" } else { "before" }, if kind == 0 { "repair(con, lst)" } else { "repair_oneway(con, lst)" }));
            }
        }
        if let Err(e) = vx_core::catch(|| sim.step()).unwrap_or_else(|p| Err(p.into())) {
            violation = Some(Violation::new("sim-error", e.to_string()));
            break;
        }
    }
    let got = res.borrow().clone();
    let acc = *accepted.borrow();
    let got2 = second_res.borrow().clone();
    obs.push(format!("connect result {:?}, second connect (step 12) {:?}, accepted {}", got, got2, acc));
    // reference: the connect is issued in step 1; its SYN is due in step 3 unless the link
    // is held (then at the release, if any)
    let syn_delivery: Option<usize> = if held { release_before.map(|r| r.max(3)) } else { Some(3) };
    let f = fault_before;
    // host-code faults land inside step f-1: a SYN due in that very step has been handed
    // over already, one due later has not; Sim-handle faults land before step f
    let syn_arrives_first = match syn_delivery {
        Some(d) => {
            if from_host {
                d < f
            } else {
                d < f
            }
        }
        None => false,
    };
    // boundary the property leaves open: a fault issued from host code in the very step the
    // connect is issued (host order decides which comes first)
    let ambiguous = from_host && f == 2;
    if violation.is_none() && !ambiguous {
        let connect_issued_after_fault = f <= 1;
        match (&got, syn_arrives_first) {
            (Some((_, Ok(()))), true) => {}
            (Some((_, Err(e))), false) if e == "ConnectionRefused" => {}
            (None, _) => {
                violation = Some(Violation::new(
                    "connect-hangs",
                    format!(
                        "connect issued in step 1 is still pending after {total} steps ({}): expected {}",
                        if connect_issued_after_fault { "the direction was already partitioned" } else if syn_arrives_first { "its SYN reached the listener before the fault" } else { "its SYN had not reached the listener when the connector->listener direction was cut" },
                        if syn_arrives_first { "Ok" } else { "ConnectionRefused" }
                    ),
                ));
            }
            (Some((at, r)), _) => {
                violation = Some(Violation::new(
                    "connect-result",
                    format!(
                        "connect issued in step 1 returned {:?} in step {at}; the SYN {} the listener before the connector->listener direction was cut before step {f}: expected {}",
                        r,
                        if syn_arrives_first { "reached" } else { "had not reached" },
                        if syn_arrives_first { "Ok" } else { "ConnectionRefused" }
                    ),
                ));
            }
        }
        // the second attempt: the connector->listener direction is open again iff it was repaired
        // (a hold that is still in place keeps the SYN parked: not judged)
        // release() after a partition also undoes the partition (combining the two is
        // documented as unsupported), so the second attempt is judged on unheld links only
        let still_held = held;
        let open_again = repair_after.is_some();
        if violation.is_none() && !still_held {
            match (&got2, open_again) {
                (Some(Ok(())), true) => {}
                (Some(Err(e)), false) if e == "ConnectionRefused" => {}
                (other, _) => {
                    violation = Some(Violation::new(
                        "connect-after-fault",
                        format!(
                            "a second connect issued in step 12 returned {:?}; the connector->listener direction was {} before that: expected {}",
                            other,
                            if open_again { "repaired" } else { "still partitioned" },
                            if open_again { "Ok" } else { "ConnectionRefused" }
                        ),
                    ));
                }
            }
        }
        let want_acc = (if syn_arrives_first { 1 } else { 0 }) + (if !still_held && open_again { 1 } else { 0 });
        if violation.is_none() && !still_held && acc != want_acc {
            violation = Some(Violation::new("accept-count", format!("the listener accepted {acc} connections, expected {want_acc}")));
        }
    }
    if let Some(v) = violation.as_mut() {
        v.sig = format!("handshake-partition|{}", v.clause);
        v.scenario = format!(
            "c12-partition tier={} listener_first={listener_first} v6={v6} held={held} link_selector={sel} kind={kind} from_host={from_host} fault_before={fault_before} release_before={release_before:?} repair_after={repair_after:?}",
            if thorough { "thorough" } else { "quick" }
        );
        v.actions = obs.clone();
    }
    let mut feats = vec![];
    if matches!(got, Some((_, Err(_)))) {
        feats.push("refused");
    }
    Exec { outcome: Digest::of64(&obs), violation, features: feats }
}
