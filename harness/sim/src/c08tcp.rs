//! C08 with TCP traffic: segments (and the resets they provoke) under a hold.
//!
//! A client connects to a server that either keeps the accepted stream and reads, or drops
//! it at once. The link is then held; the client writes two one-byte segments; the driver
//! delivers none, one or both of them by hand (in either order) through `Sim::links`; the
//! client writes again while the hold lasts; the link is released (or not). Nothing the
//! other host emits in reaction to a hand-delivered segment may cross the held link either:
//! the client must not observe a reset while the hold lasts, `Sim::links` must show every
//! message that is in flight, and after the release everything arrives.

use std::cell::RefCell;
use std::rc::Rc;
use std::time::Duration;

use tokio::io::{AsyncReadExt, AsyncWriteExt};
use turmoil::net::{TcpListener, TcpStream};
use vx_core::dfs::Exec;
use vx_core::{Chooser, Digest, Violation};

use crate::kit::*;

#[derive(Default)]
struct St {
    step: usize,
    /// client write results: (step, ok?)
    writes: Vec<(usize, Result<(), String>)>,
    server_read: Vec<u8>,
    server_read_at: Vec<usize>,
}

pub fn scenario(ch: &mut Chooser, _thorough: bool) -> Exec {
    let server_drops = ch.flag("server_drops_the_accepted_stream");
    // 0 none, 1 first, 2 second, 3 second then first, 4 deliver_all
    let manual = ch.choose("manual_delivery(none|first|second|second+first|deliver_all)", 5);
    let release_before: Option<usize> = *ch.of("release_before_step", &[Some(11usize), None]);
    let by_regex = ch.flag("hosts_named_by_regex");

    let mut b = builder(1);
    b.min_message_latency(Duration::from_millis(1)).max_message_latency(Duration::from_millis(1));
    let mut sim = b.build();
    let st: Rc<RefCell<St>> = Rc::new(RefCell::new(St::default()));
    let s1 = st.clone();
    sim.host("srv", move || {
        let s1 = s1.clone();
        async move {
            let l = TcpListener::bind(("0.0.0.0", 80)).await?;
            let (mut s, _) = l.accept().await?;
            if server_drops {
                drop(s);
                std::future::pending::<()>().await;
                return Ok(());
            }
            let mut buf = [0u8; 4];
            loop {
                match s.read(&mut buf).await {
                    Ok(0) | Err(_) => break,
                    Ok(n) => {
                        let mut g = s1.borrow_mut();
                        let at = g.step;
                        g.server_read.extend_from_slice(&buf[..n]);
                        for _ in 0..n {
                            g.server_read_at.push(at);
                        }
                    }
                }
            }
            std::future::pending::<()>().await;
            Ok(())
        }
    });
    let s2 = st.clone();
    sim.host("cli", move || {
        let s2 = s2.clone();
        async move {
            tokio::time::sleep(Duration::from_millis(1)).await;
            let mut s = TcpStream::connect(("srv", 80)).await?;
            // writes in steps 5, 6, 9 and 14
            for (i, at) in [5usize, 6, 9, 14].into_iter().enumerate() {
                loop {
                    if s2.borrow().step >= at {
                        break;
                    }
                    tokio::time::sleep(Duration::from_millis(1)).await;
                }
                let r = s.write_all(&[b'a' + i as u8]).await.map_err(|e| errk(&e));
                let step = s2.borrow().step;
                s2.borrow_mut().writes.push((step, r));
            }
            std::future::pending::<()>().await;
            Ok(())
        }
    });
    let (cip, sip) = (sim.lookup("cli"), sim.lookup("srv"));
    let mut violation: Option<Violation> = None;
    let mut obs: Vec<String> = vec![];
    // reference: messages in flight on the link (descriptions), held since step 5
    let mut expect_inflight: usize = 0;
    let mut delivered_data = 0usize;
    for k in 0..18 {
        st.borrow_mut().step = k;
        if k == 5 {
            if by_regex {
                sim.hold(regex::Regex::new("^cli$").unwrap(), regex::Regex::new("^srv$").unwrap());
            } else {
                sim.hold("cli", "srv");
            }
            obs.push("before step 5: hold(cli, srv)".into());
        }
        if k == 7 {
            // two data segments are held now
            let msgs = link_msgs(&sim, cip, sip);
            obs.push(format!("before step 7: in flight {msgs:?}"));
            if msgs.len() != 2 {
                violation = Some(Violation::new("links-view", format!("two segments were written under the hold but Sim::links shows {msgs:?}")));
                break;
            }
            expect_inflight = 2;
            let order: &[usize] = match manual {
                1 => &[0],
                2 => &[1],
                3 => &[1, 0],
                _ => &[],
            };
            // positions shift as messages are taken out of the held set: deliver by position
            // among the still-held ones
            let mut taken = vec![];
            for &want in order {
                let pos = want - taken.iter().filter(|&&t| t < want).count();
                // the message stays in the queue (scheduled) until the next step: use its
                // original position
                let _ = pos;
                deliver_nth(&sim, cip, sip, want);
                taken.push(want);
                delivered_data += 1;
                obs.push(format!("before step 7: SentRef::deliver() on held segment #{want}"));
            }
            if manual == 4 {
                sim.links(|links| {
                    for l in links {
                        l.deliver_all();
                    }
                });
                delivered_data = 2;
                obs.push("before step 7: deliver_all()".into());
            }
        }
        if Some(k) == release_before {
            sim.release("cli", "srv");
            obs.push(format!("before step {k}: release(cli, srv)"));
        }
        if let Err(e) = vx_core::catch(|| sim.step()).unwrap_or_else(|p| Err(p.into())) {
            violation = Some(Violation::new("sim-error", e.to_string()));
            break;
        }
        let held_now = k >= 5 && release_before.map(|r| k < r).unwrap_or(true);
        if k == 8 && held_now {
            // after the hand deliveries were processed (step 7) and before the third write:
            // what is in flight = undelivered data + whatever the server sent back, which
            // must have been caught by the hold
            let msgs = link_msgs(&sim, cip, sip);
            // server keeps: no reply messages exist in turmoil::net (no ACK segments);
            // server dropped: one RST per data segment that reached it
            let replies = if server_drops { delivered_data } else { 0 };
            let want = expect_inflight - delivered_data + replies;
            obs.push(format!("after step 8: in flight {msgs:?}"));
            if msgs.len() != want {
                violation = Some(Violation::new(
                    "links-view",
                    format!(
                        "while the link is held: Sim::links shows {} messages {:?}; the reference has {} ({} undelivered segments + {} replies of the other host, which a held link must keep)",
                        msgs.len(),
                        msgs,
                        want,
                        expect_inflight - delivered_data,
                        replies
                    ),
                ));
                break;
            }
        }
    }
    let g = st.borrow();
    obs.push(format!("writes {:?} server_read {:?} at {:?}", g.writes, g.server_read, g.server_read_at));
    if violation.is_none() {
        // the third write (step 9) happens under the hold: the client cannot have learnt
        // anything from the server since the hold began, so it succeeds
        for (step, r) in &g.writes {
            let under_hold = *step >= 5 && release_before.map(|rb| *step < rb).unwrap_or(true);
            if under_hold && r.is_err() {
                violation = Some(Violation::new(
                    "delivered-while-held",
                    format!("client write in step {step} failed with {:?} while the link was held: a message from the server crossed the held link", r),
                ));
                break;
            }
        }
    }
    if violation.is_none() && !server_drops {
        // server keeps the stream: it reads exactly the hand-delivered prefix under the hold
        // (TCP is in-order), everything after the release
        let held_until = release_before.unwrap_or(usize::MAX);
        let readable_under_hold: usize = match manual {
            1 => 1,      // first only
            2 => 0,      // second only: waits for the first
            3 | 4 => 2,  // both
            _ => 0,
        };
        let under: usize = g.server_read_at.iter().filter(|&&s| s >= 5 && s < held_until).count();
        if under != readable_under_hold {
            violation = Some(Violation::new(
                if under > readable_under_hold { "delivered-while-held" } else { "delivery" },
                format!("the server read {under} bytes while the link was held, the hand deliveries account for {readable_under_hold} (reads at steps {:?})", g.server_read_at),
            ));
        } else if release_before.is_some() && g.server_read != b"abcd"[..].to_vec() {
            violation = Some(Violation::new("delivery", format!("after the release the server should have read \"abcd\" in order, it read {:?}", String::from_utf8_lossy(&g.server_read))));
        }
    }
    if violation.is_none() && server_drops && release_before.is_some() {
        // after the release the resets arrive: the last write (step 14) fails
        if let Some((_, r)) = g.writes.iter().find(|(s, _)| *s >= 14) {
            if r.is_ok() {
                violation = Some(Violation::new("delivery", "the server had dropped the stream and the link was released before step 11, yet the client's write in step 14 still succeeded (the reset was lost)".into()));
            }
        }
    }
    drop(g);
    if let Some(v) = violation.as_mut() {
        v.sig = format!("tcp-under-hold|{}", v.clause);
        v.scenario = format!("c08-tcp server_drops={server_drops} manual={manual} release_before={release_before:?} regex={by_regex}");
        v.actions = obs.clone();
    }
    Exec { outcome: Digest::of64(&obs), violation, features: vec![] }
}

/// Connection handshakes under a hold, up to the listener's capacity: `n <= tcp_capacity`
/// connects are issued while the link is held (from one or two client hosts), `Sim::links`
/// must show exactly the n SYNs, none may be accepted while the hold lasts, and after the
/// release every one of them is accepted exactly once and every connect returns Ok.
pub fn held_syns_scenario(ch: &mut Chooser, _thorough: bool) -> Exec {
    let cap = *ch.of("tcp_capacity", &[1usize, 2, 3]);
    let n = if cap > 1 && ch.flag("one_fewer_than_the_capacity") { cap - 1 } else { cap };
    let two_clients = n >= 2 && ch.flag("connects_from_two_hosts");
    let hold_from_host = ch.flag("hold_called_from_host_code");
    let accept_late = ch.flag("listener_starts_accepting_two_steps_after_the_release");

    let mut b = builder(1);
    b.tcp_capacity(cap).min_message_latency(Duration::from_millis(1)).max_message_latency(Duration::from_millis(1));
    let mut sim = b.build();
    #[derive(Default)]
    struct H {
        step: usize,
        accepted: Vec<(usize, std::net::SocketAddr)>,
        connected: Vec<(usize, usize, Result<std::net::SocketAddr, String>)>,
        gate: bool,
        do_hold: bool,
    }
    let st: Rc<RefCell<H>> = Rc::new(RefCell::new(H::default()));
    let s1 = st.clone();
    sim.host("srv", move || {
        let s1 = s1.clone();
        async move {
            let l = TcpListener::bind(("0.0.0.0", 80)).await?;
            let mut keep = vec![];
            loop {
                while !s1.borrow().gate {
                    tokio::time::sleep(Duration::from_millis(1)).await;
                }
                let (s, peer) = l.accept().await?;
                let at = s1.borrow().step;
                s1.borrow_mut().accepted.push((at, peer));
                keep.push(s);
            }
        }
    });
    let names = ["cli", "cl2"];
    for (hi, name) in names.iter().enumerate() {
        if hi == 1 && !two_clients {
            break;
        }
        let s2 = st.clone();
        let mine: Vec<usize> = (0..n).filter(|i| if two_clients { i % 2 == hi } else { hi == 0 }).collect();
        sim.host(*name, move || {
            let s2 = s2.clone();
            let mine = mine.clone();
            async move {
                // the hold may come from this host's own code, in step 2
                loop {
                    if s2.borrow().step >= 2 {
                        break;
                    }
                    tokio::time::sleep(Duration::from_millis(1)).await;
                }
                if hi == 0 && s2.borrow().do_hold {
                    turmoil::hold("cli", "srv");
                    if two_clients {
                        turmoil::hold("cl2", "srv");
                    }
                }
                tokio::time::sleep(Duration::from_millis(1)).await;
                let mut tasks = vec![];
                for i in mine {
                    let s3 = s2.clone();
                    tasks.push(tokio::task::spawn_local(async move {
                        let r = TcpStream::connect(("srv", 80)).await;
                        let at = s3.borrow().step;
                        match r {
                            Ok(s) => {
                                let la = s.local_addr().unwrap();
                                s3.borrow_mut().connected.push((i, at, Ok(la)));
                                std::future::pending::<()>().await;
                                drop(s);
                            }
                            Err(e) => s3.borrow_mut().connected.push((i, at, Err(errk(&e)))),
                        }
                    }));
                }
                std::future::pending::<()>().await;
                drop(tasks);
                Ok(())
            }
        });
    }
    let sip = sim.lookup("srv");
    let cips: Vec<std::net::IpAddr> = if two_clients { vec![sim.lookup("cli"), sim.lookup("cl2")] } else { vec![sim.lookup("cli")] };
    st.borrow_mut().do_hold = hold_from_host;
    st.borrow_mut().gate = !accept_late;
    let mut violation: Option<Violation> = None;
    let mut obs: Vec<String> = vec![format!("cap={cap} n={n} two_clients={two_clients} hold_from_host={hold_from_host} accept_late={accept_late}")];
    let release_at = 8;
    for k in 0..24 {
        st.borrow_mut().step = k;
        if k == 2 && !hold_from_host {
            sim.hold("cli", "srv");
            if two_clients {
                sim.hold("cl2", "srv");
            }
            obs.push("before step 2: hold(cli, srv) (and cl2, srv)".into());
        }
        if k == 6 {
            let mut syns = 0;
            for c in &cips {
                syns += link_msgs(&sim, *c, sip).iter().filter(|m| m.contains("SYN")).count();
            }
            obs.push(format!("before step 6: {syns} SYNs in flight"));
            if syns != n {
                violation = Some(Violation::new("links-view", format!("{n} connects were issued under the hold but Sim::links shows {syns} SYNs in flight")));
                break;
            }
            if !st.borrow().accepted.is_empty() || !st.borrow().connected.is_empty() {
                violation = Some(Violation::new("delivered-while-held", format!("while the hold lasts: accepted {:?}, connect results {:?}", st.borrow().accepted, st.borrow().connected)));
                break;
            }
        }
        if k == release_at {
            sim.release("cli", "srv");
            if two_clients {
                sim.release("cl2", "srv");
            }
            obs.push(format!("before step {k}: release"));
        }
        if k == release_at + 2 {
            st.borrow_mut().gate = true;
        }
        match vx_core::catch(|| sim.step()) {
            Ok(Ok(_)) => {}
            Ok(Err(e)) => {
                violation = Some(Violation::new("sim-error", e.to_string()));
                break;
            }
            Err(p) => {
                violation = Some(Violation::new(
                    "lost-on-release",
                    format!("step {k} panicked ({p}) although only {n} connection requests were pending on a listener with tcp_capacity {cap}"),
                ));
                break;
            }
        }
    }
    let g = st.borrow();
    obs.push(format!("accepted {:?} connected {:?}", g.accepted, g.connected));
    if violation.is_none() {
        let oks: Vec<std::net::SocketAddr> = g.connected.iter().filter_map(|c| c.2.clone().ok()).collect();
        let mut peers: Vec<std::net::SocketAddr> = g.accepted.iter().map(|a| a.1).collect();
        let mut locals = oks.clone();
        peers.sort();
        locals.sort();
        if g.connected.len() != n || oks.len() != n || g.accepted.len() != n || peers != locals {
            violation = Some(Violation::new(
                "lost-on-release",
                format!("{n} held connection requests were released: connect results {:?}, accepted peers {:?} (every request must be accepted exactly once)", g.connected, g.accepted),
            ));
        } else if g.accepted.iter().any(|a| a.0 < release_at) || g.connected.iter().any(|c| c.1 < release_at) {
            violation = Some(Violation::new("delivered-while-held", format!("accepted {:?} / connected {:?} before the release in step {release_at}", g.accepted, g.connected)));
        }
    }
    drop(g);
    if let Some(v) = violation.as_mut() {
        v.sig = format!("held-syns|{}", v.clause);
        v.scenario = "c08-held-syns".to_string();
        v.actions = obs.clone();
    }
    Exec { outcome: Digest::of64(&obs), violation, features: vec![] }
}
