//! vx-sim: engines A/B/C/F — scenarios driven through a real `turmoil::Sim`.

mod c01;
mod c02;
mod c04;
mod c08tcp;
mod c09;
mod c12;
mod c14ip;
mod c14tcp;
mod c15;
mod c20;
mod flow;
mod kit;
mod timegrid;

use std::time::Duration;

use serde_json::json;
use vx_core::report::{Report, Tier};
use vx_core::{explore_dfs, DfsConfig};

fn run_dfs<F>(rep: &mut Report, name: &str, dev: u32, wall: Duration, f: F)
where
    F: Fn(&mut vx_core::Chooser) -> vx_core::dfs::Exec + Sync,
{
    let mut d = DfsConfig::new(name, dev);
    d.wall = wall;
    // C01's verdict is itself "two executions differ": the differing line may change from
    // run to run, so the identical-verdict re-execution does not apply
    // (C20's preemption-bounded part: a barrier that wrongly stays in the thread-local registry
    // outlives its execution, so a violation caused by it need not repeat identically)
    d.recheck = rep.property != "C01" && !(rep.property == "C20" && name.contains("preemption-bounded"));
    let st = explore_dfs(&d, f);
    for s in st.samples.iter().take(2) {
        rep.sample(json!({"part": name, "choices": s}));
    }
    rep.violations.extend(st.violations);
    rep.add_part(st.part);
}

fn main() {
    vx_core::install_quiet_panic_hook();
    let args: Vec<String> = std::env::args().collect();
    if args.len() < 3 {
        eprintln!("usage: vx-sim <Cxx> <quick|thorough> | vx-sim replay <file>");
        std::process::exit(2);
    }
    if args[1] == "replay" {
        replay(&args[2]);
        return;
    }
    if args[1] == "c01-child" {
        c01_child(&args[2], &args[3]);
        return;
    }
    if args[1] == "c01-trace" {
        let choices: Vec<u32> = args[3].split(',').filter(|x| !x.is_empty()).map(|x| x.parse().unwrap()).collect();
        c01::print_trace(&choices, args[2] == "thorough");
        return;
    }
    let tier = Tier::parse(&args[2]);
    let thorough = tier == Tier::Thorough;
    let wall = tier.pick(Duration::from_secs(120), Duration::from_secs(900));
    match args[1].as_str() {
        "C02" => {
            let mut rep = Report::new("C02", tier, "model_checking", "sim");
            rep.rule = "stateless deviation-bounded enumeration: writer policy grid (capacity, chunking, write_all/try_write, close mode, reader buffers incl. 0 and peek, topology, split halves, reader start) x per-round choices on a permanently held link (which in-flight message is delivered, whether the reader reads); prefix/EOF safety on every read, delivery + EOF after a fair suffix".into();
            run_dfs(&mut rep, "tcp-stream-held-link", tier.pick(2, 3), wall, move |ch| c02::scenario(ch, thorough));
            run_dfs(&mut rep, "tcp-stream-timed-latency-bidirectional", tier.pick(1, 2), wall, move |ch| c02::timed_scenario(ch, thorough));
            rep.finish();
        }
        "C08" => {
            let mut rep = Report::new("C08", tier, "model_checking", "sim");
            rep.rule = "stateless deviation-bounded enumeration: hold/release placed at every step (<=2 cycles, from the Sim handle by name or regex, or from host code), manual delivery of any held message or deliver_all as deviations, numbered UDP datagrams A<->B and A->C every step with a fixed 2-tick latency; receive logs (id, source, step) compared with a step-granular reference, Sim::links compared with the reference in-flight set".into();
            run_dfs(&mut rep, "hold-release-3hosts", tier.pick(2, 3), wall, move |ch| flow::c08_scenario(ch, thorough));
            run_dfs(&mut rep, "tcp-segments-and-resets-under-hold", 0, wall, move |ch| c08tcp::scenario(ch, thorough));
            run_dfs(&mut rep, "held-handshakes-up-to-capacity", 0, wall, move |ch| c08tcp::held_syns_scenario(ch, thorough));
            rep.finish();
        }
        "C03" => {
            let mut rep = Report::new("C03", tier, "model_checking", "sim");
            rep.rule = "stateless enumeration of every sequence of <=2 (quick) / <=3 (thorough) partition / partition_oneway / repair / repair_oneway calls at every step, from the Sim handle or host code, either registration order of A and B, numbered UDP datagrams every step with a fixed 2-tick latency; with fail/repair rates 0.5 the link coins are answered by the explorer through the cfg-guarded hook (deviation-bounded); forbidden datagrams must never be received, others exactly once on time (fail rate 0)".into();
            run_dfs(&mut rep, "partitions-3hosts", tier.pick(2, 3), wall, move |ch| flow::c03_scenario(ch, thorough));
            run_dfs(&mut rep, "zero-latency-elapsed-counts-as-arrived", 0, wall, move |ch| flow::c03_zero_latency_scenario(ch, thorough));
            run_dfs(&mut rep, "tcp-replies-under-a-partition", 0, wall, move |ch| flow::c03_tcp_scenario(ch, thorough));
            rep.finish();
        }
        "C14" => {
            let mut rep = Report::new("C14", tier, "model_checking", "sim");
            rep.rule = "stateless enumeration: tick x global (min,max) x per-link / global overrides (fixed, link max, global max; before the run or mid-run; by name or regex) x burst size / in-step offset, with the latency variate of every message answered by the explorer from {0, 1/4, 1/2, 1, 4} through the cfg-guarded hook (the clamp is exercised by 4); sender's sim_elapsed is carried in the payload, receiver logs its own at receipt; second part: 12-byte frames on an established TCP connection (either side writing), per-segment variates deviation-bounded, in-order arrival and a delay between own minimum - tick and the latest `send + max + tick` of the frames up to it".into();
            run_dfs(&mut rep, "latency-window", tier.pick(1, 2), wall, move |ch| flow::c14_scenario(ch, thorough));
            run_dfs(&mut rep, "latency-window-tcp-frames", tier.pick(2, 4), wall, move |ch| c14tcp::scenario(ch, thorough));
            run_dfs(&mut rep, "latency-window-hosts-registered-by-address", 0, wall, move |ch| c14ip::scenario(ch, thorough));
            rep.finish();
        }
        "C09" => {
            let mut rep = Report::new("C09", tier, "model_checking", "sim");
            rep.rule = "stateless enumeration: socket presets (wildcard / localhost / joined / connected / other port) on four sockets of three hosts x dynamic operations (leave, drop, join, set_broadcast, re-bind, connect) x probe sweep (unicast, own address, 127.0.0.1, other port, broadcast, multicast; IPv4 and IPv6) with every socket drained after each probe; plus udp_capacity x burst x readable-first".into();
            run_dfs(&mut rep, "udp-routing", 0, wall, move |ch| c09::scenario(ch, thorough));
            run_dfs(&mut rep, "udp-capacity", 0, wall, c09::capacity_scenario);
            rep.finish();
        }
        "C12" => {
            let mut rep = Report::new("C12", tier, "model_checking", "sim");
            rep.rule = "stateless enumeration: listener bind kind (wildcard / localhost) x three connectors (two remote, one on the listener's own host through its address or 127.0.0.1) x connector start / cancel rounds x round at which accepting starts x listener drop (+ re-bind) x every delivery order of the SYNs held on the link x extra connects to a closed port and an unknown address; nonce pairing, mirrored addresses, accept order = arrival order, refusal instead of hanging, stream counts back to zero".into();
            run_dfs(&mut rep, "connect-accept", 0, wall, move |ch| c12::scenario(ch, thorough));
            run_dfs(&mut rep, "holds-and-partitions-around-the-handshake", 0, wall, move |ch| c12::partition_scenario(ch, thorough));
            rep.finish();
        }
        "C15" => {
            let mut rep = Report::new("C15", tier, "model_checking", "sim");
            rep.rule = "stateless enumeration: every history of depth 5 (quick) / 6 (thorough) over {udp bind :0 / fixed, tcp listen :0 / fixed, tcp connect, drop k-th object, crash+bounce} on a host with a four-port ephemeral range, each result compared with a set-of-ports reference (incl. the documented exhaustion panic); DNS: every sequence of lookups / host registrations / literal and regex lookups over five names, plus 600 names, IPv4 and IPv6".into();
            run_dfs(&mut rep, "ports", 0, wall, move |ch| c15::ports_scenario(ch, thorough, false));
            run_dfs(&mut rep, "ports-around-reset-streams", 0, wall, move |ch| c15::ports_scenario(ch, thorough, true));
            run_dfs(&mut rep, "dns", 0, wall, move |ch| c15::dns_scenario(ch, thorough));
            rep.finish();
        }
        "C20" => {
            let mut rep = Report::new("C20", tier, "model_checking", "sim");
            rep.rule = "part 0: every interleaving at await granularity (choice = which runnable task the mini executor polls next), part 1: interleavings within a preemption bound with 2-3 barriers built up front; 2 source tasks (3 triggers) issuing trigger / trigger_noop with values from {1,2} and a test task running every script of length 3 (quick) / 4 (thorough) over {build Noop =1, build Suspend any, build Suspend =1, build Panic =2, wait on 1st/2nd live barrier, drop oldest handle, drop 1st live barrier}; the event log is replayed against a sequential reference registry".into();
            run_dfs(&mut rep, "barriers-all-interleavings", 0, wall, move |ch| c20::scenario(ch, thorough, 0));
            run_dfs(&mut rep, "barriers-registry-preemption-bounded", tier.pick(2, 4), wall, move |ch| c20::scenario(ch, thorough, 1));
            run_dfs(&mut rep, "fs-corruption-hook-through-sim", 0, wall, move |ch| c20::fs_hook_scenario(ch, thorough));
            rep.finish();
        }
        "C01" => {
            let mut rep = Report::new("C01", tier, "model_checking", "sim");
            rep.rule = "stateless enumeration: program family (UDP fan-in + broadcast, TCP echo with timeouts, tokio select/spawn/JoinSet with several ready branches, fs + io_uring batches) x host count 1..5 x controller script (none, partition/repair, hold/release, crash/bounce, bounce twice + one-way partition) as a full product, builder knobs (rng seed, tick, latency range, fail/repair rate, random node order, tcp/udp capacity, ip version, fs fault knob sets, epoch) deviation-bounded from the default; every scenario is executed twice in this process and once in each of two fresh OS processes and the complete traces (every turmoil tracing event with its span, every program observation with its virtual timestamp, step results, clocks, in-flight messages) are compared".into();
            run_dfs(&mut rep, "twin-in-process", tier.pick(2, 4), wall, move |ch| c01::scenario(ch, thorough, false));
            c01_cross_process(&mut rep, thorough);
            rep.finish();
        }
        "C04" => {
            let mut rep = Report::new("C04", tier, "model_checking", "sim");
            rep.rule = "complete fault grid: workload (TCP with a reading / non-reading / slow-accepting victim and two reconnecting peers, UDP + multicast holder, idle host with nested spawn / spawn_local tasks) x {crash before step c then bounce after 0/1/3 steps or never | bounce without crash before step c | crash, bounce, crash again} x victim selected by name or regex, c over every step of the workload; drop guards at crash return, frozen side effects while down, empty socket tables (count hook), no peer operation left hanging after a 40-step fair suffix, ports bindable by the next incarnation, factory invocations = 1 + bounces, no old-stream bytes or stale multicast membership at the new incarnation, uninvolved hosts' logs identical to the crash-free twin".into();
            run_dfs(&mut rep, "crash-bounce-grid", 0, wall, move |ch| c04::scenario(ch, thorough));
            run_dfs(&mut rep, "fs-ring-workload-on-fresh-threads", 0, wall, move |ch| c04::fresh_thread_scenario(ch, thorough));
            rep.finish();
        }
        "C05" => {
            let mut rep = Report::new("C05", tier, "model_checking", "sim");
            rep.rule = "complete grid, enumerated by the stateless explorer: tick x epoch x random host order x sleep lengths (dividing and not dividing the tick, shorter and longer than it) x late host registration step x late client x {crash h1 before step c, bounce after k steps | h1's software returns by itself then bounce | bounce without crash}; every host runs sleep / timeout / interval tasks sampling elapsed, sim_elapsed, since_epoch and tokio Instant; closed-form reference".into();
            run_dfs(&mut rep, "clock-grid", 0, wall, move |ch| timegrid::c05_scenario(ch, thorough));
            rep.finish();
        }
        "C11" => {
            let mut rep = Report::new("C11", tier, "model_checking", "sim");
            rep.rule = "complete grid: tick x duration x client A outcome (Ok / Err at six instants incl. boundary and past-the-duration ones, never, panic in main / awaited task / detached task, Err via awaited task, Err in detached task) x client B x host outcome x {none, crash before run, bounce before run} x zero clients x run vs step-by-step (x random order in thorough), followed by a second run with a late client; reference function on the outcome table at step granularity with boundary coincidences attributed to either adjacent step".into();
            run_dfs(&mut rep, "run-result-grid", 0, wall, move |ch| timegrid::c11_scenario(ch, thorough));
            rep.finish();
        }
        other => vx_core::machinery_error(&format!("vx-sim does not serve {other}")),
    }
}

/// Re-run every scenario of the in-process pass in two fresh OS processes and compare digests.
fn c01_cross_process(rep: &mut Report, thorough: bool) {
    use std::io::Write;
    let mine = c01::DIGESTS.lock().unwrap().clone();
    let dir = vx_core::report::verif_dir().join("target");
    let _ = std::fs::create_dir_all(&dir);
    let keys = dir.join(format!("c01-keys-{}.txt", std::process::id()));
    {
        let mut f = std::fs::File::create(&keys).unwrap_or_else(|e| vx_core::machinery_error(&format!("{e}")));
        for k in mine.keys() {
            let _ = writeln!(f, "{}", k.iter().map(|x| x.to_string()).collect::<Vec<_>>().join(","));
        }
    }
    let exe = std::env::current_exe().unwrap();
    let tier = if thorough { "thorough" } else { "quick" };
    let mut part = vx_core::report::Part { name: "fresh-processes".into(), exhaustive: true, bounds: "every scenario of the in-process pass, once in each of 2 fresh OS processes".into(), ..Default::default() };
    let mut outcomes = std::collections::BTreeSet::new();
    for child in 0..2 {
        let out = std::process::Command::new(&exe).arg("c01-child").arg(tier).arg(&keys).output().unwrap_or_else(|e| vx_core::machinery_error(&format!("cannot start child process: {e}")));
        if !out.status.success() {
            vx_core::machinery_error(&format!("c01 child process failed: {}", String::from_utf8_lossy(&out.stderr)));
        }
        let mut seen = 0u64;
        for line in String::from_utf8_lossy(&out.stdout).lines() {
            let Some((k, d)) = line.split_once(' ') else { continue };
            let key: Vec<u32> = k.split(',').filter(|x| !x.is_empty()).map(|x| x.parse().unwrap()).collect();
            let d: u64 = d.parse().unwrap();
            seen += 1;
            outcomes.insert(d);
            let Some(m) = mine.get(&key) else { vx_core::machinery_error("child reported an unknown scenario") };
            if *m != d && rep.violations.len() < 50 {
                // fetch both traces for the message
                let me: Vec<String> = {
                    let o = std::process::Command::new(&exe).arg("c01-trace").arg(tier).arg(k).output().unwrap();
                    String::from_utf8_lossy(&o.stdout).lines().map(String::from).collect()
                };
                let other: Vec<String> = {
                    let o = std::process::Command::new(&exe).arg("c01-trace").arg(tier).arg(k).output().unwrap();
                    String::from_utf8_lossy(&o.stdout).lines().map(String::from).collect()
                };
                let i = me.iter().zip(other.iter()).position(|(a, b)| a != b).unwrap_or(me.len().min(other.len()));
                let cfgs = c01::describe(&key, thorough);
                let mut v = vx_core::Violation::new(
                    "cross-process-differs",
                    format!("the trace digest of a scenario differs between this process and a fresh process; two further fresh processes differ first at line {i}: {:?} vs {:?}", me.get(i), other.get(i)),
                );
                v.sig = format!("cross-process-differs|{}", cfgs.split("family: ").nth(1).and_then(|s| s.split(',').next()).unwrap_or("?"));
                v.scenario = format!("c01 tier={tier} cross-process {cfgs}");
                v.choices = key.clone();
                rep.violations.push(v);
            }
        }
        if seen != mine.len() as u64 {
            vx_core::machinery_error(&format!("c01 child {child} reported {seen} scenarios, expected {}", mine.len()));
        }
        part.executions += seen;
        part.transitions += seen;
    }
    part.states = mine.len() as u64;
    part.distinct_outcomes = outcomes.len() as u64;
    part.max_depth = mine.keys().map(|k| k.len() as u64).max().unwrap_or(0);
    let _ = std::fs::remove_file(&keys);
    rep.add_part(part);
}

fn c01_child(tier: &str, keys: &str) {
    let thorough = tier == "thorough";
    let txt = std::fs::read_to_string(keys).unwrap_or_else(|e| vx_core::machinery_error(&format!("{e}")));
    let keys: Vec<Vec<u32>> = txt.lines().map(|l| l.split(',').filter(|x| !x.is_empty()).map(|x| x.parse().unwrap()).collect()).collect();
    let next = std::sync::atomic::AtomicUsize::new(0);
    let out = std::sync::Mutex::new(Vec::new());
    std::thread::scope(|s| {
        for _ in 0..vx_core::threads() {
            s.spawn(|| loop {
                let i = next.fetch_add(1, std::sync::atomic::Ordering::Relaxed);
                if i >= keys.len() {
                    break;
                }
                let mut ch = vx_core::Chooser::from_choices(&keys[i]);
                let e = c01::scenario(&mut ch, thorough, true);
                out.lock().unwrap().push((i, e.outcome));
            });
        }
    });
    for (i, d) in out.into_inner().unwrap() {
        println!("{} {}", keys[i].iter().map(|x| x.to_string()).collect::<Vec<_>>().join(","), d);
    }
}

fn replay(path: &str) {
    let txt = std::fs::read_to_string(path).unwrap_or_else(|e| vx_core::machinery_error(&format!("{e}")));
    let v: serde_json::Value = serde_json::from_str(&txt).unwrap();
    let prop = v["property"].as_str().unwrap_or("").to_string();
    let choices: Vec<u32> = v["choices"].as_array().map(|a| a.iter().map(|x| x.as_u64().unwrap_or(0) as u32).collect()).unwrap_or_default();
    println!("replaying {prop}: scenario {}", v["scenario"]);
    let mut ch = vx_core::Chooser::from_choices(&choices);
    let thorough = v["scenario"].as_str().map(|s| s.contains("tier=thorough")).unwrap_or(false);
    let e = match prop.as_str() {
        "C02" => {
            if v["scenario"].as_str().map(|s| s.starts_with("c02-timed")).unwrap_or(false) {
                c02::timed_scenario(&mut ch, thorough)
            } else {
                c02::scenario(&mut ch, thorough)
            }
        }
        "C08" => {
            if v["scenario"].as_str().map(|s| s.starts_with("c08-tcp")).unwrap_or(false) {
                c08tcp::scenario(&mut ch, thorough)
            } else if v["scenario"].as_str().map(|s| s.starts_with("c08-held-syns")).unwrap_or(false) {
                c08tcp::held_syns_scenario(&mut ch, thorough)
            } else {
                flow::c08_scenario(&mut ch, thorough)
            }
        }
        "C03" => {
            if v["scenario"].as_str().map(|s| s.starts_with("c03-zero")).unwrap_or(false) {
                flow::c03_zero_latency_scenario(&mut ch, thorough)
            } else if v["scenario"].as_str().map(|s| s.starts_with("c03-tcp")).unwrap_or(false) {
                flow::c03_tcp_scenario(&mut ch, thorough)
            } else {
                flow::c03_scenario(&mut ch, thorough)
            }
        }
        "C14" => {
            if v["scenario"].as_str().map(|s| s.starts_with("c14-tcp")).unwrap_or(false) {
                c14tcp::scenario(&mut ch, thorough)
            } else if v["scenario"].as_str().map(|s| s.starts_with("c14-hosts-by-address")).unwrap_or(false) {
                c14ip::scenario(&mut ch, thorough)
            } else {
                flow::c14_scenario(&mut ch, thorough)
            }
        }
        "C12" => {
            if v["scenario"].as_str().map(|s| s.starts_with("c12-partition")).unwrap_or(false) {
                c12::partition_scenario(&mut ch, thorough)
            } else {
                c12::scenario(&mut ch, thorough)
            }
        }
        "C01" => {
            // in-process twin, then the same scenario in a fresh process
            let e = c01::scenario(&mut ch, thorough, false);
            if e.violation.is_none() {
                let exe = std::env::current_exe().unwrap();
                let key = choices.iter().map(|x| x.to_string()).collect::<Vec<_>>().join(",");
                let o = std::process::Command::new(&exe).arg("c01-trace").arg(if thorough { "thorough" } else { "quick" }).arg(&key).output().unwrap();
                let other: Vec<String> = String::from_utf8_lossy(&o.stdout).lines().map(String::from).collect();
                let mut ch2 = vx_core::Chooser::from_choices(&choices);
                let mine = c01::run_trace(&c01::cfg_from(&mut ch2, thorough), false);
                if mine != other {
                    let i = mine.iter().zip(other.iter()).position(|(a, b)| a != b).unwrap_or(mine.len().min(other.len()));
                    println!("VIOLATION clause=cross-process-differs : line {i}: {:?} (this process) vs {:?} (fresh process)", mine.get(i), other.get(i));
                    std::process::exit(1);
                }
            }
            e
        }
        "C04" => {
            if v["scenario"].as_str().map(|s| s.starts_with("c04-fresh-thread")).unwrap_or(false) {
                c04::fresh_thread_scenario(&mut ch, thorough)
            } else {
                c04::scenario(&mut ch, thorough)
            }
        }
        "C05" => timegrid::c05_scenario(&mut ch, thorough),
        "C11" => timegrid::c11_scenario(&mut ch, thorough),
        "C20" => {
            let sc = v["scenario"].as_str().unwrap_or("");
            if sc.contains("part=2") {
                c20::fs_hook_scenario(&mut ch, thorough)
            } else {
                c20::scenario(&mut ch, thorough, if sc.contains("part=1") { 1 } else { 0 })
            }
        }
        "C15" => {
            if v["scenario"].as_str().map(|s| s.starts_with("c15-ports")).unwrap_or(false) {
                c15::ports_scenario(&mut ch, thorough, v["scenario"].as_str().map(|s| s.contains("reset-mode")).unwrap_or(false))
            } else {
                c15::dns_scenario(&mut ch, thorough)
            }
        }
        "C09" => {
            if v["scenario"].as_str().map(|s| s.starts_with("c09")).unwrap_or(false) {
                c09::scenario(&mut ch, thorough)
            } else {
                c09::capacity_scenario(&mut ch)
            }
        }
        _ => vx_core::machinery_error("unknown property in replay file"),
    };
    for l in ch.describe() {
        println!("  choice {l}");
    }
    match e.violation {
        Some(v) => {
            for a in &v.actions {
                println!("  {a}");
            }
            println!("VIOLATION clause={} : {}", v.clause, v.detail);
            std::process::exit(1);
        }
        None => println!("no violation on this execution"),
    }
}
