//! C14 over TCP: frames written on an established turmoil::net connection carry the writer's
//! `sim_elapsed` at the write; the reader logs its own at the moment `read_exact` returns.
//! Each write becomes one segment with its own latency (answered by the explorer through the
//! cfg-guarded variate hook once the connection is up; handshake segments take the minimum).
//!
//! A stream delivers in order, so a frame may have to wait for an earlier one: the delay of
//! frame j is at least its own minimum latency minus a tick, and at most the largest
//! `send_i + max_i + tick` over the frames i <= j. Frames arrive in the order written.

use std::cell::RefCell;
use std::rc::Rc;
use std::time::Duration;

use tokio::io::{AsyncReadExt, AsyncWriteExt};
use turmoil::net::{TcpListener, TcpStream};
use vx_core::dfs::Exec;
use vx_core::{Chooser, Digest, Violation};

use crate::kit::*;

#[derive(Default)]
struct St {
    connected: bool,
    /// frames the writer is asked to send now: (id, in-step delay in microseconds)
    todo: Vec<(u32, u64)>,
    /// (id, writer's sim_elapsed at the write in us)
    sent: Vec<(u32, u64)>,
    /// (id, send stamp carried in the frame, reader's sim_elapsed at receipt in us)
    got: Vec<(u32, u64, u64)>,
    errs: Vec<String>,
}

struct HookGuard;
impl Drop for HookGuard {
    fn drop(&mut self) {
        turmoil::verif::set_chooser(None);
    }
}

async fn writer(st: Rc<RefCell<St>>, mut s: TcpStream) {
    loop {
        let todo: Vec<(u32, u64)> = std::mem::take(&mut st.borrow_mut().todo);
        for (id, delay_us) in todo {
            if delay_us > 0 {
                tokio::time::sleep(Duration::from_micros(delay_us)).await;
            }
            let now = turmoil::sim_elapsed().map(|d| d.as_micros() as u64).unwrap_or(0);
            let mut frame = [0u8; 12];
            frame[..4].copy_from_slice(&id.to_le_bytes());
            frame[4..].copy_from_slice(&now.to_le_bytes());
            st.borrow_mut().sent.push((id, now));
            if let Err(e) = s.write_all(&frame).await {
                st.borrow_mut().errs.push(format!("write of frame {id}: {}", errk(&e)));
            }
        }
        tokio::time::sleep(Duration::from_millis(1)).await;
    }
}

async fn reader(st: Rc<RefCell<St>>, mut s: TcpStream) {
    loop {
        let mut frame = [0u8; 12];
        match s.read_exact(&mut frame).await {
            Ok(_) => {
                let now = turmoil::sim_elapsed().map(|d| d.as_micros() as u64).unwrap_or(0);
                let id = u32::from_le_bytes(frame[..4].try_into().unwrap());
                let sent = u64::from_le_bytes(frame[4..].try_into().unwrap());
                st.borrow_mut().got.push((id, sent, now));
            }
            Err(e) => {
                st.borrow_mut().errs.push(format!("read: {}", errk(&e)));
                return std::future::pending().await;
            }
        }
    }
}

pub fn scenario(ch: &mut Chooser, thorough: bool) -> Exec {
    let tick = *ch.of("tick_ms", if thorough { &[1u64, 2, 3][..] } else { &[1u64, 3][..] });
    let (gmin, gmax) = *ch.of("global_latency_ms", &[(2u64, 2u64), (0, 3), (3, 10)]);
    // 0 none, 1 set_link_latency(ha,hb,d), 2 set_link_max_message_latency(ha,hb,m)
    let okind = ch.choose("latency_override", 3);
    let oval: u64 = if okind == 0 { 0 } else { *ch.of("override_value_ms", &[4u64, 12]) };
    let owhen = if okind == 0 { 0 } else { ch.choose("override(before the run|between the two bursts)", 2) };
    let reverse = ch.flag("acceptor_writes_instead_of_connector");
    let burst = *ch.of("burst", &[1usize, 2, 3]);
    let offset_half = tick >= 2 && ch.flag("odd_frames_sent_half_a_tick_later");
    if okind == 2 && oval < gmin {
        return Exec { outcome: 1, violation: None, features: vec!["skipped-invalid-config"] };
    }

    let st: Rc<RefCell<St>> = Rc::new(RefCell::new(St::default()));
    // latency variate: minimum during the handshake, explorer's choice afterwards
    let chp: *mut Chooser = ch;
    let _guard = HookGuard;
    let range: Rc<RefCell<(u64, u64)>> = Rc::new(RefCell::new((gmin, gmax)));
    let variates: Rc<RefCell<Vec<usize>>> = Rc::new(RefCell::new(vec![]));
    {
        let (st2, rg, vs) = (st.clone(), range.clone(), variates.clone());
        turmoil::verif::set_chooser(Some(Box::new(move |site, n| {
            if site != "latency-variate" {
                return 0;
            }
            let (lo, hi) = *rg.borrow();
            let measuring = st2.try_borrow().map(|g| g.connected).unwrap_or(true);
            let c = if measuring && hi > lo {
                let c = unsafe { &mut *chp };
                c.deviate("latency-variate", n)
            } else {
                0
            };
            vs.borrow_mut().push(c);
            c
        })));
    }
    let mut b = builder(tick);
    b.min_message_latency(Duration::from_millis(gmin)).max_message_latency(Duration::from_millis(gmax));
    let mut sim = b.build();
    let st_s = st.clone();
    sim.host("hb", move || {
        let st_s = st_s.clone();
        async move {
            let l = TcpListener::bind(("0.0.0.0", 80)).await?;
            let (s, _) = l.accept().await?;
            if reverse {
                writer(st_s, s).await;
            } else {
                reader(st_s, s).await;
            }
            Ok(())
        }
    });
    let st_c = st.clone();
    sim.host("ha", move || {
        let st_c = st_c.clone();
        async move {
            let s = TcpStream::connect(("hb", 80)).await?;
            st_c.borrow_mut().connected = true;
            if reverse {
                reader(st_c, s).await;
            } else {
                writer(st_c, s).await;
            }
            Ok(())
        }
    });
    // configuration in force on the link (min, max) in ms
    let mut cfg = (gmin, gmax);
    let apply = |sim: &turmoil::Sim, cfg: &mut (u64, u64)| match okind {
        1 => {
            sim.set_link_latency("ha", "hb", Duration::from_millis(oval));
            *cfg = (oval, oval);
        }
        2 => {
            sim.set_link_max_message_latency("ha", "hb", Duration::from_millis(oval));
            cfg.1 = oval;
        }
        _ => {}
    };
    if okind != 0 && owhen == 0 {
        apply(&sim, &mut cfg);
        *range.borrow_mut() = cfg;
    }
    let mut violation: Option<Violation> = None;
    let mut obs: Vec<String> = vec![];
    // ---- handshake
    let mut k = 0usize;
    while !st.borrow().connected && k < 60 {
        if let Err(e) = sim.step() {
            violation = Some(Violation::new("sim-error", e.to_string()));
            break;
        }
        k += 1;
    }
    if violation.is_none() && !st.borrow().connected {
        violation = Some(Violation::new("sim-error", "the connection was not established within 60 steps".to_string()));
    }
    // two more steps so that the acceptor side is up as well
    for _ in 0..2 {
        let _ = sim.step();
    }
    // ---- two bursts, one step apart (the override may land between them)
    let mut next_id = 1u32;
    // (id, cfg in force at the send)
    let mut plan: Vec<(u32, (u64, u64))> = vec![];
    let horizon = 2 + (gmax.max(oval).max(12) / tick) as usize + 6;
    for step in 0..horizon {
        if violation.is_some() {
            break;
        }
        if step == 1 && okind != 0 && owhen == 1 {
            apply(&sim, &mut cfg);
            *range.borrow_mut() = cfg;
            obs.push(format!("between the bursts: override kind {okind} value {oval}ms"));
        }
        if step < 2 {
            let mut g = st.borrow_mut();
            for i in 0..burst {
                let id = next_id;
                next_id += 1;
                let delay_us = if offset_half && i % 2 == 1 { (tick / 2) * 1000 } else { 0 };
                g.todo.push((id, delay_us));
                plan.push((id, cfg));
            }
        }
        if let Err(e) = sim.step() {
            violation = Some(Violation::new("sim-error", e.to_string()));
        }
    }
    turmoil::verif::set_chooser(None);
    let g = st.borrow();
    let tick_us = (tick * 1000) as i64;
    obs.push(format!(
        "tick={tick} global=({gmin},{gmax}) override={okind}/{oval}/{owhen} reverse={reverse} burst={burst} half={offset_half} sent={:?} got={:?} variates={:?} errs={:?}",
        g.sent,
        g.got,
        variates.borrow(),
        g.errs
    ));
    let mut feats: Vec<&'static str> = vec![];
    if violation.is_none() {
        if let Some(e) = g.errs.first() {
            violation = Some(Violation::new("io-error", e.clone()));
        }
    }
    if violation.is_none() {
        // every frame arrives, once, in the order written
        let want: Vec<u32> = plan.iter().map(|p| p.0).collect();
        let got: Vec<u32> = g.got.iter().map(|x| x.0).collect();
        if got != want {
            violation = Some(Violation::new(
                if got.len() < want.len() { "not-delivered" } else { "order" },
                format!("frames {:?} were written on a healthy connection; the reader received {:?} within {horizon} steps", want, got),
            ));
        }
    }
    if violation.is_none() {
        let mut upper: i64 = i64::MIN;
        for (id, (lo, hi)) in &plan {
            let Some((_, sent, recv)) = g.got.iter().find(|x| x.0 == *id) else { continue };
            upper = upper.max(*sent as i64 + (*hi * 1000) as i64 + tick_us);
            let lower = *sent as i64 + (*lo * 1000) as i64 - tick_us;
            if (*recv as i64) < lower || (*recv as i64) > upper {
                violation = Some(Violation::new(
                    "latency-window",
                    format!(
                        "TCP frame {id}: written at {sent}us, read at {recv}us; the latency in force at the write was {lo}..{hi}ms and the tick is {tick}ms, so it must be read within [{lower}, {upper}]us (the upper bound allows for waiting behind earlier frames)"
                    ),
                ));
                break;
            }
            if hi > lo {
                feats.push("ranged-latency");
            }
        }
    }
    drop(g);
    if let Some(v) = violation.as_mut() {
        v.sig = format!("tcp-{}|override={}", v.clause, okind);
        v.scenario = format!("c14-tcp tier={}", if thorough { "thorough" } else { "quick" });
        v.actions = obs.clone();
    }
    Exec { outcome: Digest::of64(&obs), violation, features: feats }
}
