//! C04 — a crashed host stops dead, releases everything, and restarts cleanly.
//!
//! Small workloads with a victim host V, peers and an uninvolved pair of hosts; the
//! driver injects `crash(V)` before every step index, `bounce(V)` after k steps (or
//! never), bounce without crash, and crash–bounce–crash. Oracles: drop guards, frozen
//! side effects, empty tables (count hook), peers unblocked instead of hanging, ports
//! bindable again, factory invoked once per bounce, uninvolved hosts identical to the
//! crash-free twin run.

use std::cell::RefCell;
use std::rc::Rc;
use std::time::Duration;

use tokio::io::{AsyncReadExt, AsyncWriteExt};
use turmoil::net::{TcpListener, TcpStream, UdpSocket};
use vx_core::dfs::Exec;
use vx_core::{Chooser, Digest, Violation};

use crate::kit::*;

#[derive(Default)]
struct St {
    step: usize,
    /// indexed by victim: 0 = "v", 1 = "vb"
    guards_made: [u32; 2],
    guards_dropped: [u32; 2],
    v_effects: [u64; 2],
    v_starts: [u32; 2],
    v_errors: Vec<String>,
    /// peer operations
    ops: Vec<PeerOp>,
    /// bytes the victim's incarnations received: (incarnation, tag byte)
    v_rx: Vec<(u32, u8)>,
    /// log of the uninvolved hosts
    bystander: Vec<String>,
    crashed: bool,
    /// current one-way latency p1 -> v in steps (for the arrival step of its SYNs)
    p1_latency: usize,
}

struct PeerOp {
    peer: String,
    op: String,
    started: usize,
    /// step in which the SYN of the connection this operation uses reaches (reached) the victim
    conn_arrival: usize,
    result: Option<String>,
}

type S = Rc<RefCell<St>>;

struct Guard(S, usize);
impl Guard {
    fn new(s: &S) -> Guard {
        Guard::of(s, 0)
    }
    fn of(s: &S, who: usize) -> Guard {
        s.borrow_mut().guards_made[who] += 1;
        Guard(s.clone(), who)
    }
}
impl Drop for Guard {
    fn drop(&mut self) {
        self.0.borrow_mut().guards_dropped[self.1] += 1;
    }
}

/// `conn_started`: for operations on an existing connection, the arrival step of its SYN
fn op_start(s: &S, peer: &str, op: &str, conn_started: Option<usize>) -> usize {
    let mut g = s.borrow_mut();
    let step = g.step;
    let lat = if peer == "p1" { g.p1_latency.max(1) } else { 1 };
    g.ops.push(PeerOp { peer: peer.into(), op: op.into(), started: step, conn_arrival: conn_started.unwrap_or(step + lat), result: None });
    g.ops.len() - 1
}
fn op_done(s: &S, id: usize, res: String) {
    s.borrow_mut().ops[id].result = Some(res);
}

#[derive(Clone, Copy, Debug, PartialEq, Eq)]
enum Work {
    /// V accepts at once and reads everything
    TcpReading,
    /// V accepts but never reads (peer's writes hit a full window, capacity 1)
    TcpNotReading,
    /// V starts accepting only after 6 steps: connection requests sit in the queue
    TcpSlowAccept,
    /// V accepts and keeps writing to a slowly reading peer: its send window is
    /// usually exhausted when the fault hits
    TcpVictimWrites,
    /// V dials p1 and never reads; p1 (the acceptor) keeps writing into the full window
    TcpVictimDials,
    /// V accepts at once and reads everything; the peers stream bytes back to back through a
    /// window of two segments, so they are usually parked in `write` with their window full
    /// of segments that are still in flight (nothing unread at V) when the fault hits
    TcpPeerStreams,
    /// V holds UDP sockets and a multicast membership, peers keep sending
    Udp,
    /// V idles with nested spawned tasks holding drop guards
    Idle,
    /// V writes files and drives an io_uring ring
    FsRing,
}

async fn victim(s: S, work: Work, spawn_kind: usize) -> turmoil::Result {
    let inc = s.borrow().v_starts[0];
    let _g0 = Guard::new(&s);
    // background side effects, in a tokio::spawn task and a spawn_local task, nested
    let s1 = s.clone();
    tokio::task::spawn_local(async move {
        let _g = Guard::new(&s1);
        let gs = GuardSend::new(&s1);
        tokio::spawn(async move {
            let _g = gs;
            loop {
                tokio::time::sleep(Duration::from_millis(1)).await;
            }
        });
        loop {
            s1.borrow_mut().v_effects[0] += 1;
            tokio::time::sleep(Duration::from_millis(1)).await;
        }
    });
    match work {
        Work::Idle => std::future::pending().await,
        Work::TcpVictimDials => {
            // keep the stream, never read from it
            loop {
                match TcpStream::connect(("p1", 81)).await {
                    Ok(st) => {
                        let _g = Guard::new(&s);
                        let _keep = st;
                        std::future::pending::<()>().await;
                    }
                    Err(_) => tokio::time::sleep(Duration::from_millis(1)).await,
                }
            }
        }
        Work::FsRing => fs_ring_loop(s.clone(), inc).await,
        Work::Udp => {
            let a = match UdpSocket::bind(("0.0.0.0", 9)).await {
                Ok(a) => a,
                Err(e) => {
                    s.borrow_mut().v_errors.push(format!("incarnation {inc}: udp bind :9 failed {}", errk(&e)));
                    return std::future::pending().await;
                }
            };
            if inc == 1 {
                // only the first incarnation joins the group
                let _ = a.join_multicast_v4("239.1.1.1".parse().unwrap(), "0.0.0.0".parse().unwrap());
                // a second group is joined and left again: the socket stays a member of the first
                let _ = a.join_multicast_v4("239.1.1.2".parse().unwrap(), "0.0.0.0".parse().unwrap());
                let _ = a.leave_multicast_v4("239.1.1.2".parse().unwrap(), "0.0.0.0".parse().unwrap());
            }
            let _b = UdpSocket::bind(("0.0.0.0", 10)).await;
            let _g = Guard::new(&s);
            let mut buf = [0u8; 8];
            loop {
                if let Ok((n, _)) = a.recv_from(&mut buf).await {
                    if n > 0 {
                        s.borrow_mut().v_rx.push((inc, buf[0]));
                    }
                }
            }
        }
        _ => {
            let l = match TcpListener::bind(("0.0.0.0", 80)).await {
                Ok(l) => l,
                Err(e) => {
                    s.borrow_mut().v_errors.push(format!("incarnation {inc}: tcp bind :80 failed {}", errk(&e)));
                    return std::future::pending().await;
                }
            };
            if work == Work::TcpSlowAccept {
                tokio::time::sleep(Duration::from_millis(6)).await;
            }
            let mut conns = 0u32;
            loop {
                let (st, _) = l.accept().await?;
                let fut = handle_conn(st, s.clone(), work, inc);
                conns += 1;
                // connection handlers alternate between LocalSet tasks and runtime tasks
                // when asked to: the two are torn down by different code paths on crash
                if spawn_kind == 1 || (spawn_kind == 2 && conns % 2 == 0) {
                    tokio::spawn(ForceSend(fut));
                } else {
                    tokio::task::spawn_local(fut);
                }
            }
        }
    }
}

struct ForceSend<F>(F);
// SAFETY: every runtime of the simulation lives on the one thread that drives it
unsafe impl<F> Send for ForceSend<F> {}
impl<F: std::future::Future> std::future::Future for ForceSend<F> {
    type Output = F::Output;
    fn poll(self: std::pin::Pin<&mut Self>, cx: &mut std::task::Context<'_>) -> std::task::Poll<F::Output> {
        unsafe { self.map_unchecked_mut(|s| &mut s.0) }.poll(cx)
    }
}

async fn handle_conn(mut st: TcpStream, s3: S, work: Work, inc: u32) {
    let _g = Guard::new(&s3);
    if work == Work::TcpNotReading {
        std::future::pending::<()>().await;
    }
    if work == Work::TcpVictimWrites {
        let mut i = 0u8;
        loop {
            i = i.wrapping_add(1);
            if st.write_all(&[i]).await.is_err() {
                break;
            }
        }
        std::future::pending::<()>().await;
    }
    let mut b = [0u8; 4];
    loop {
        match st.read(&mut b).await {
            Ok(0) | Err(_) => break,
            Ok(n) => {
                for x in &b[..n] {
                    s3.borrow_mut().v_rx.push((inc, *x));
                }
            }
        }
    }
    std::future::pending::<()>().await;
}

struct RingFd(std::os::fd::RawFd);
impl std::os::fd::AsRawFd for RingFd {
    fn as_raw_fd(&self) -> std::os::fd::RawFd {
        self.0
    }
}

/// the victim does filesystem and io_uring work when the fault hits; a later
/// incarnation must start with working (fresh) rings and a readable file tree
async fn fs_ring_loop(s: S, inc: u32) -> turmoil::Result {
    use std::os::fd::AsRawFd;
    use turmoil::fs::shim::std::fs;
    use turmoil::io_uring::{opcode, types, AsyncFd, IoUring};
    let _g = Guard::new(&s);
    if let Err(e) = fs::create_dir_all("/w") {
        s.borrow_mut().v_errors.push(format!("incarnation {inc}: create_dir_all failed {}", errk(&e)));
    }
    let mut k = 0u8;
    loop {
        k = k.wrapping_add(1);
        let _ = fs::write(format!("/w/f{}", k % 3), [k; 4]);
        if k % 2 == 0 {
            let _ = fs::OpenOptions::new().write(true).open(format!("/w/f{}", k % 3)).and_then(|f| f.sync_all());
        }
        let file = match fs::OpenOptions::new().read(true).write(true).create(true).open("/w/ring") {
            Ok(f) => f,
            Err(e) => {
                s.borrow_mut().v_errors.push(format!("incarnation {inc}: open failed {}", errk(&e)));
                return std::future::pending().await;
            }
        };
        let mut ring = match IoUring::new(4) {
            Ok(r) => r,
            Err(e) => {
                s.borrow_mut().v_errors.push(format!("incarnation {inc}: IoUring::new failed {}", errk(&e)));
                return std::future::pending().await;
            }
        };
        let buf = [k; 4];
        let e1 = opcode::Write::new(types::Fd(file.as_raw_fd()), buf.as_ptr(), 4).offset(0).build().user_data(1);
        let e2 = opcode::Fsync::new(types::Fd(file.as_raw_fd())).build().user_data(2);
        unsafe {
            let _ = ring.submission().push(&e1);
            let _ = ring.submission().push(&e2);
        }
        let _ = ring.submit();
        let afd = AsyncFd::new(RingFd(ring.as_raw_fd()));
        let mut got = 0;
        while got < 2 {
            let c = {
                let mut cq = ring.completion();
                cq.sync();
                cq.next()
            };
            match c {
                Some(_) => got += 1,
                None => match &afd {
                    Ok(a) => {
                        if tokio::time::timeout(Duration::from_millis(10), a.readable()).await.is_err() {
                            s.borrow_mut().v_errors.push(format!("incarnation {inc}: io_uring completions missing 10 ms after submit"));
                            break;
                        }
                    }
                    Err(_) => break,
                },
            }
        }
        s.borrow_mut().v_effects[0] += 1;
        tokio::time::sleep(Duration::from_millis(1)).await;
    }
}

/// an uninvolved host that keeps one long-lived ring busy (registered ahead of the victims, so
/// it is the first host ever ticked): every write it submits completes once, with its result,
/// whatever happens to other hosts in between
async fn ring_bystander(s: S) -> turmoil::Result {
    use std::os::fd::AsRawFd;
    use turmoil::fs::shim::std::fs;
    use turmoil::io_uring::{opcode, types, AsyncFd, IoUring};
    let file = fs::OpenOptions::new().read(true).write(true).create(true).open("/r")?;
    // six rings used in turn: ring descriptors are numbered per host, so whichever ring another
    // host holds when it is torn down has the number of one of these
    let mut rings = vec![];
    for _ in 0..6 {
        let r = IoUring::new(4)?;
        let a = AsyncFd::new(RingFd(r.as_raw_fd()));
        rings.push((r, a));
    }
    let mut n = 0u64;
    loop {
        n += 1;
        let (ring, afd) = &mut rings[(n % 6) as usize];
        let buf = [n as u8; 3];
        let e = opcode::Write::new(types::Fd(file.as_raw_fd()), buf.as_ptr(), 3).offset(0).build().user_data(n);
        let pushed = unsafe { ring.submission().push(&e).is_ok() };
        let submitted = ring.submit().map_err(|e| errk(&e));
        let mut got: Vec<(u64, i32)> = vec![];
        let mut waited = "ok".to_string();
        for _ in 0..8 {
            {
                let mut cq = ring.completion();
                cq.sync();
                for c in &mut cq {
                    got.push((c.user_data(), c.result()));
                }
            }
            if !got.is_empty() {
                break;
            }
            match &afd {
                Ok(a) => match tokio::time::timeout(Duration::from_millis(1), a.readable()).await {
                    Ok(Err(e)) => {
                        waited = format!("readable failed {}", errk(&e));
                        break;
                    }
                    _ => {}
                },
                Err(e) => {
                    waited = format!("no AsyncFd {}", errk(e));
                    break;
                }
            }
        }
        let t = turmoil::sim_elapsed().unwrap_or_default();
        s.borrow_mut().bystander.push(format!("u0 ring write {n}: pushed {pushed} submit {submitted:?} wait {waited} completions {got:?} at {t:?}"));
        tokio::time::sleep(Duration::from_millis(1)).await;
    }
}

/// drop guard usable from a `tokio::spawn` (Send) task: counts through a raw pointer to
/// the single-threaded state (everything runs on one thread)
struct GuardSend(usize);
unsafe impl Send for GuardSend {}
impl GuardSend {
    fn new(s: &S) -> GuardSend {
        s.borrow_mut().guards_made[0] += 1;
        GuardSend(Rc::into_raw(s.clone()) as usize)
    }
}
impl Drop for GuardSend {
    fn drop(&mut self) {
        let s: S = unsafe { Rc::from_raw(self.0 as *const RefCell<St>) };
        s.borrow_mut().guards_dropped[0] += 1;
    }
}

/// second victim candidate: idle host with guards, a UDP bind, a heartbeat and file writes
async fn victim_b(s: S) -> turmoil::Result {
    let _g = Guard::of(&s, 1);
    let _sock = match UdpSocket::bind(("0.0.0.0", 11)).await {
        Ok(x) => x,
        Err(e) => {
            s.borrow_mut().v_errors.push(format!("vb: udp bind :11 failed {}", errk(&e)));
            return std::future::pending().await;
        }
    };
    let s1 = s.clone();
    tokio::task::spawn_local(async move {
        let _g = Guard::of(&s1, 1);
        std::future::pending::<()>().await;
    });
    let mut n = 0u32;
    loop {
        n += 1;
        s.borrow_mut().v_effects[1] += 1;
        let _ = turmoil::fs::shim::std::fs::write("/hb", n.to_le_bytes());
        tokio::time::sleep(Duration::from_millis(1)).await;
    }
}

/// write one byte either with write_all or through the readiness API
async fn put(st: &mut TcpStream, b: u8, readiness: bool) -> std::io::Result<()> {
    if !readiness {
        return st.write_all(&[b]).await;
    }
    let mut spins = 0u32;
    loop {
        st.writable().await?;
        match st.try_write(&[b]) {
            Ok(_) => return Ok(()),
            Err(e) if e.kind() == std::io::ErrorKind::WouldBlock => {
                // writable() that keeps answering "ready" while try_write keeps answering
                // WouldBlock never yields to the simulation: the writer is stuck for good
                spins += 1;
                if spins > 10_000 {
                    panic!("writable() reported readiness 10000 times in a row while try_write() kept returning WouldBlock: the writer can neither proceed nor learn that the connection is gone");
                }
                continue;
            }
            Err(e) => return Err(e),
        }
    }
}

thread_local! {
    /// the peers look at the end of their stream with peek() before they read it
    static PEEK_FIRST: std::cell::Cell<bool> = const { std::cell::Cell::new(false) };
    /// the peers write twelve bytes back to back instead of three with pauses
    static BURST: std::cell::Cell<bool> = const { std::cell::Cell::new(false) };
}

async fn tcp_peer(s: S, name: &'static str, start_ms: u64, tag: u8, slow_reader: bool, readiness: bool) -> turmoil::Result {
    tokio::time::sleep(Duration::from_millis(start_ms)).await;
    let mut round = 0u8;
    loop {
        if slow_reader {
            let id = op_start(&s, name, "connect", None);
            let cs = s.borrow().ops[id].conn_arrival;
            match TcpStream::connect(("v", 80)).await {
                Ok(mut st) => {
                    op_done(&s, id, "ok".into());
                    loop {
                        tokio::time::sleep(Duration::from_millis(2)).await;
                        let id = op_start(&s, name, "read", Some(cs));
                        let mut b = [0u8; 1];
                        match st.read(&mut b).await {
                            Ok(0) => {
                                op_done(&s, id, "eof".into());
                                break;
                            }
                            Ok(n) => op_done(&s, id, format!("ok {n}")),
                            Err(e) => {
                                op_done(&s, id, errk(&e));
                                break;
                            }
                        }
                    }
                }
                Err(e) => op_done(&s, id, errk(&e)),
            }
            tokio::time::sleep(Duration::from_millis(2)).await;
            continue;
        }
        let id = op_start(&s, name, "connect", None);
        let cs = s.borrow().ops[id].conn_arrival;
        let st = TcpStream::connect(("v", 80)).await;
        let mut st = match st {
            Ok(st) => {
                op_done(&s, id, "ok".into());
                st
            }
            Err(e) => {
                op_done(&s, id, errk(&e));
                tokio::time::sleep(Duration::from_millis(2)).await;
                continue;
            }
        };
        // a few writes, then a read that only ends when the other side goes away
        let mut failed = false;
        let burst = BURST.with(|b| b.get());
        for i in 0..if burst { 12u8 } else { 3u8 } {
            let id = op_start(&s, name, "write", Some(cs));
            match put(&mut st, tag.wrapping_add(round * 16 + i), readiness).await {
                Ok(()) => op_done(&s, id, "ok".into()),
                Err(e) => {
                    op_done(&s, id, errk(&e));
                    failed = true;
                    break;
                }
            }
            if !burst {
                tokio::time::sleep(Duration::from_millis(1)).await;
            }
        }
        if !failed {
            let id = op_start(&s, name, "read", Some(cs));
            let mut b = [0u8; 4];
            // optionally the end of the stream is first seen through peek(): what peek reported
            // stays true, the read that follows returns as well
            let peeked = if PEEK_FIRST.with(|p| p.get()) { Some(st.peek(&mut b).await) } else { None };
            match (peeked, st.read(&mut b).await) {
                (Some(Err(e)), _) => op_done(&s, id, errk(&e)),
                (_, Ok(n)) => op_done(&s, id, format!("ok {n}")),
                (_, Err(e)) => op_done(&s, id, errk(&e)),
            }
        }
        drop(st);
        round += 1;
        tokio::time::sleep(Duration::from_millis(2)).await;
    }
}

async fn udp_peer(s: S) -> turmoil::Result {
    let sock = UdpSocket::bind(("0.0.0.0", 9)).await?;
    let mut i = 0u8;
    loop {
        i = i.wrapping_add(1);
        let _ = sock.try_send_to(&[i], ("v", 9));
        let _ = sock.try_send_to(&[i | 0x80], ("239.1.1.1", 9));
        let _ = &s;
        tokio::time::sleep(Duration::from_millis(1)).await;
    }
}

/// another member of the multicast group, on an uninvolved host: it must keep receiving
async fn group_member(s: S) -> turmoil::Result {
    let sock = UdpSocket::bind(("0.0.0.0", 9)).await?;
    sock.join_multicast_v4("239.1.1.1".parse().unwrap(), "0.0.0.0".parse().unwrap())?;
    let mut buf = [0u8; 8];
    loop {
        let (n, from) = sock.recv_from(&mut buf).await?;
        let e = turmoil::sim_elapsed().unwrap_or_default();
        s.borrow_mut().bystander.push(format!("m2 got {:?} from {} at {:?}", &buf[..n], from.port(), e));
    }
}

/// the victim dials out: a surviving *acceptor* writes into a victim that never reads
async fn writing_acceptor(s: S, readiness: bool) -> turmoil::Result {
    let l = TcpListener::bind(("0.0.0.0", 81)).await?;
    loop {
        let id = op_start(&s, "p1", "accept", None);
        let (st, _) = l.accept().await?;
        op_done(&s, id, "ok".into());
        let cs = s.borrow().step;
        // the accepted stream is used by two tasks: one keeps writing into the victim's full
        // window, the other sits in read (the victim never writes): both must be released
        // when the victim goes away
        // (the readiness API exists on the whole stream only: that variant keeps one writer task)
        enum W {
            Whole(TcpStream),
            Half(turmoil::net::tcp::OwnedWriteHalf),
        }
        let mut st = if readiness {
            W::Whole(st)
        } else {
            let (mut rd, wr) = st.into_split();
            let s3 = s.clone();
            tokio::task::spawn_local(async move {
                let id = op_start(&s3, "p1", "read", Some(cs.saturating_sub(1)));
                let mut b = [0u8; 4];
                match rd.read(&mut b).await {
                    Ok(0) => op_done(&s3, id, "eof".into()),
                    Ok(n) => op_done(&s3, id, format!("ok {n}")),
                    Err(e) => op_done(&s3, id, errk(&e)),
                }
            });
            W::Half(wr)
        };
        let s2 = s.clone();
        tokio::task::spawn_local(async move {
            let mut i = 0u8;
            loop {
                i = i.wrapping_add(1);
                // the connection was requested one step before it is accepted here
                let id = op_start(&s2, "p1", "write", Some(cs.saturating_sub(1)));
                let r = match &mut st {
                    W::Whole(w) => put(w, i, true).await,
                    W::Half(h) => h.write_all(&[i]).await,
                };
                match r {
                    Ok(()) => op_done(&s2, id, "ok".into()),
                    Err(e) => {
                        op_done(&s2, id, errk(&e));
                        break;
                    }
                }
                if i > 40 {
                    break;
                }
            }
        });
    }
}

async fn bystander(s: S, me: &'static str, other: &'static str) -> turmoil::Result {
    let sock = UdpSocket::bind(("0.0.0.0", 7)).await?;
    let mut n = 0u32;
    let mut buf = [0u8; 8];
    loop {
        n += 1;
        let _ = sock.try_send_to(&n.to_le_bytes(), (other, 7));
        {
            use turmoil::fs::shim::std::fs;
            let r1 = fs::write(format!("/f{}", n % 3), n.to_le_bytes()).map_err(|e| errk(&e));
            let r2 = fs::read(format!("/f{}", (n + 1) % 3)).map_err(|e| errk(&e));
            let mut names: Vec<String> = vec![];
            if let Ok(rd) = fs::read_dir("/") {
                for e in rd.flatten() {
                    names.push(e.file_name().to_string_lossy().into_owned());
                }
            }
            let e = turmoil::sim_elapsed().unwrap_or_default();
            s.borrow_mut().bystander.push(format!("{me} fs {r1:?} {r2:?} {names:?} at {e:?} instant-elapsed {:?}", turmoil::elapsed()));
        }
        tokio::time::sleep(Duration::from_millis(1)).await;
        while let Ok((k, from)) = sock.try_recv_from(&mut buf) {
            let e = turmoil::sim_elapsed().unwrap_or_default();
            s.borrow_mut().bystander.push(format!("{me} got {:?} from {} at {:?}", &buf[..k], from.port(), e));
        }
    }
}

struct Run {
    st: S,
    violation: Option<Violation>,
    obs: Vec<String>,
}

fn run_once(work: Work, steps: usize, crash_at: Option<usize>, bounce_after: Option<usize>, second_crash_after: Option<usize>, bounce_only_at: Option<usize>, sel: usize, spawn_kind: usize, readiness: bool, double_bounce: bool, reorder: bool) -> Run {
    let mut b = builder(1);
    b.min_message_latency(Duration::from_millis(1)).max_message_latency(Duration::from_millis(1));
    b.tcp_capacity(if matches!(work, Work::TcpNotReading | Work::TcpVictimWrites | Work::TcpVictimDials | Work::TcpPeerStreams) { 2 } else { 4 });
    BURST.with(|b| b.set(work == Work::TcpPeerStreams));
    if work == Work::FsRing {
        // ring operations take two ticks, so that a fault falls between submit and completion
        b.fs().io_latency().min_latency(Duration::from_millis(2)).max_latency(Duration::from_millis(2));
    }
    let mut sim = b.build();
    let st: S = Rc::new(RefCell::new(St::default()));
    if work == Work::FsRing {
        let s0 = st.clone();
        sim.host("u0", move || ring_bystander(s0.clone()));
    }
    let sv = st.clone();
    sim.host("v", move || {
        sv.borrow_mut().v_starts[0] += 1;
        victim(sv.clone(), work, spawn_kind)
    });
    let sb = st.clone();
    sim.host("vb", move || {
        sb.borrow_mut().v_starts[1] += 1;
        victim_b(sb.clone())
    });
    match work {
        Work::Udp => {
            let s1 = st.clone();
            sim.host("p1", move || udp_peer(s1.clone()));
            let s2 = st.clone();
            sim.host("m2", move || group_member(s2.clone()));
        }
        Work::TcpVictimDials => {
            let s1 = st.clone();
            sim.host("p1", move || writing_acceptor(s1.clone(), readiness));
        }
        Work::Idle | Work::FsRing => {}
        _ => {
            let s1 = st.clone();
            sim.host("p1", move || tcp_peer(s1.clone(), "p1", 0, 0x10, work == Work::TcpVictimWrites, readiness));
            let s2 = st.clone();
            sim.host("p2", move || tcp_peer(s2.clone(), "p2", 3, 0x40, work == Work::TcpVictimWrites, readiness));
        }
    }
    let (u1, u2) = (st.clone(), st.clone());
    sim.host("u1", move || bystander(u1.clone(), "u1", "u2"));
    sim.host("u2", move || bystander(u2.clone(), "u2", "u1"));

    st.borrow_mut().p1_latency = 1;
    if reorder {
        sim.set_link_latency("p1", "v", Duration::from_millis(5));
        st.borrow_mut().p1_latency = 5;
    }
    let mut reorder_done = !reorder;
    let mut obs = vec![];
    let mut violation: Option<Violation> = None;
    let mut down_since: Option<usize> = None;
    let mut expected_starts = 1u32;
    let total = steps + 40;
    let mut effects_at_crash = [0u64; 2];
    // victims: "v" by name, "v" by an anchored regex, or "v" and "vb" by one regex
    let two = sel >= 2;
    let victims: &[usize] = if two { &[0, 1] } else { &[0] };
    let names = ["v", "vb"];
    let crash = |sim: &mut turmoil::Sim| match sel {
        0 => sim.crash("v"),
        1 => sim.crash(regex::Regex::new("^v$").unwrap()),
        2 => sim.crash(regex::Regex::new("^v").unwrap()),
        _ => {
            // the first match of the regex is already down when the regex call is made
            sim.crash("v");
            sim.crash(regex::Regex::new("^v").unwrap())
        }
    };
    let bounce = |sim: &mut turmoil::Sim| match sel {
        0 => sim.bounce("v"),
        1 => sim.bounce(regex::Regex::new("^v$").unwrap()),
        _ => sim.bounce(regex::Regex::new("^v").unwrap()),
    };
    for k in 0..total {
        st.borrow_mut().step = k;
        let mut do_crash = crash_at == Some(k);
        if let (Some(c), Some(b), Some(s2)) = (crash_at, bounce_after, second_crash_after) {
            if k == c + b + s2 {
                do_crash = true;
            }
        }
        if do_crash && down_since.is_none() {
            let made_before = st.borrow().guards_made;
            let vb_effects_before = st.borrow().v_effects[1];
            crash(&mut sim);
            down_since = Some(k);
            st.borrow_mut().crashed = true;
            obs.push(format!("crash v before step {k}"));
            let g = st.borrow();
            effects_at_crash = g.v_effects;
            let _ = vb_effects_before;
            // (a) every task of the victims has been dropped when crash returns
            for &w in victims {
                if violation.is_none() && g.guards_dropped[w] != made_before[w] {
                    violation = Some(Violation::new(
                        "tasks-not-dropped",
                        format!("Sim::crash returned but only {} of {} drop guards held by the tasks of host {} have run", g.guards_dropped[w], made_before[w], names[w]),
                    ));
                }
            }
            // a host that was not selected keeps its tasks
            if !two && violation.is_none() && g.guards_dropped[1] != 0 {
                violation = Some(Violation::new("bystander-disturbed", format!("crashing v dropped {} tasks of host vb", g.guards_dropped[1])));
            }
            drop(g);
            // (d) tables
            for &w in victims {
                let counts = sim.verif_host_counts(names[w]);
                if violation.is_none() && counts != (0, 0, 0) {
                    violation = Some(Violation::new(
                        "not-released",
                        format!("right after Sim::crash host {} still holds (udp binds, tcp listeners, tcp streams) = {:?}", names[w], counts),
                    ));
                }
                if violation.is_none() && sim.is_host_running(names[w]) {
                    violation = Some(Violation::new("still-running", format!("is_host_running({}) is true after crash", names[w])));
                }
            }
            if !two && violation.is_none() && (!sim.is_host_running("vb") || (k > 0 && sim.verif_host_counts("vb").0 != 1)) {
                violation = Some(Violation::new("bystander-disturbed", "crashing v stopped host vb or released its socket".into()));
            }
        }
        if let (Some(c), Some(b)) = (crash_at, bounce_after) {
            if k == c + b && down_since.is_some() && (second_crash_after.is_none() || k < c + b + second_crash_after.unwrap()) {
                bounce(&mut sim);
                down_since = None;
                expected_starts += 1;
                obs.push(format!("bounce v before step {k}"));
                if double_bounce {
                    // a second bounce right away: the incarnation just created is replaced
                    bounce(&mut sim);
                    expected_starts += 1;
                    obs.push(format!("bounce v again before step {k}"));
                }
            }
        }
        if bounce_only_at == Some(k) {
            let made_before = st.borrow().guards_made;
            bounce(&mut sim);
            expected_starts += 1;
            obs.push(format!("bounce v (no crash) before step {k}"));
            for &w in victims {
                if violation.is_none() && st.borrow().guards_dropped[w] != made_before[w] {
                    violation = Some(Violation::new(
                        "tasks-not-dropped",
                        format!("Sim::bounce restarted host {} but {} of the old incarnation's {} drop guards have not run", names[w], made_before[w] - st.borrow().guards_dropped[w], made_before[w]),
                    ));
                }
            }
        }
        if violation.is_some() {
            break;
        }
        if let Err(e) = vx_core::catch(|| sim.step()).unwrap_or_else(|p| Err(p.into())) {
            violation = Some(Violation::new("sim-error", e.to_string()));
            break;
        }
        if !reorder_done && st.borrow().ops.iter().any(|o| o.peer == "p1" && o.op == "write") {
            // p1's first data segment is on its way with the long latency: later ones overtake it
            sim.set_link_latency("p1", "v", Duration::from_millis(1));
            st.borrow_mut().p1_latency = 1;
            reorder_done = true;
            obs.push(format!("after step {k}: p1 -> v latency back to 1 ms (the first data segment is still in flight)"));
        }
        // (b) nothing happens on V while it is down
        if down_since.is_some() {
            let g = st.borrow();
            for &w in victims {
                if violation.is_none() && g.v_effects[w] != effects_at_crash[w] {
                    violation = Some(Violation::new(
                        "runs-after-crash",
                        format!("the background task of crashed host {} ran {} more times after the crash (step {k})", names[w], g.v_effects[w] - effects_at_crash[w]),
                    ));
                }
            }
            if violation.is_some() {
                break;
            }
        }
        let g = st.borrow();
        let want = [expected_starts, if two { expected_starts } else { 1 }];
        if g.v_starts != want {
            violation = Some(Violation::new(
                "factory-invocations",
                format!("after step {k}: the software factories of (v, vb) have been invoked {:?} times, expected {:?} (1 + number of bounces of that host)", g.v_starts, want),
            ));
            break;
        }
        if let Some(e) = g.v_errors.first() {
            violation = Some(Violation::new("rebind", format!("{e} — the port was not released by the crash")));
            break;
        }
    }
    // the surviving peers hold at most one stream each at any time (they drop a connection before
    // they dial the next one): streams that were established with the crashed incarnation and
    // have been dropped since no longer count on the peers' side either
    if violation.is_none() && matches!(work, Work::TcpReading | Work::TcpNotReading | Work::TcpSlowAccept | Work::TcpVictimWrites | Work::TcpPeerStreams) {
        for p in ["p1", "p2"] {
            let c = sim.verif_host_counts(p);
            if c.2 > 1 {
                violation = Some(Violation::new(
                    "peer-table",
                    format!("at the end of the run host {p}, which holds at most one stream at a time, has {} entries in its stream table (udp binds, tcp listeners, tcp streams) = {:?}", c.2, c),
                ));
            }
        }
    }
    Run { st, violation, obs }
}

/// The fs / io_uring workload once more, with each run on a brand-new OS thread: state that
/// turmoil keeps per thread (which host's ring registry is current, for one) starts out empty
/// there, as in a test process, whereas the workers of the grid above have run thousands of
/// simulations. The bystander that drives rings (registered first) must log what it logs in
/// the crash-free twin.
pub fn fresh_thread_scenario(ch: &mut Chooser, _thorough: bool) -> Exec {
    let at = 2 + ch.choose("fault_before_step_minus_2", 8);
    let mode = ch.choose("fault(crash|crash+bounce after 2|bounce without crash)", 3);
    let one = move |faulty: bool| -> (Vec<String>, Option<(String, String)>) {
        std::thread::spawn(move || {
            let run = if !faulty {
                run_once(Work::FsRing, 12, None, None, None, None, 0, 0, false, false, false)
            } else {
                match mode {
                    0 => run_once(Work::FsRing, 12, Some(at), None, None, None, 0, 0, false, false, false),
                    1 => run_once(Work::FsRing, 12, Some(at), Some(2), None, None, 0, 0, false, false, false),
                    _ => run_once(Work::FsRing, 12, None, None, None, Some(at), 0, 0, false, false, false),
                }
            };
            let log = run.st.borrow().bystander.clone();
            let v = run.violation.as_ref().map(|v| (v.clause.clone(), v.detail.clone()));
            (log, v)
        })
        .join()
        .unwrap_or_else(|_| (vec![], Some(("panic".into(), "the run on a fresh thread panicked".into()))))
    };
    let (log, v) = one(true);
    let (twin, _) = one(false);
    let mut violation = v.map(|(c, d)| Violation::new(&c, d));
    if violation.is_none() && log != twin {
        let i = twin.iter().zip(log.iter()).position(|(a, b)| a != b).unwrap_or(twin.len().min(log.len()));
        violation = Some(Violation::new(
            "bystander-disturbed",
            format!("fresh OS thread: the log of the uninvolved hosts differs from the crash-free twin run at entry {i}: {:?} vs {:?}", log.get(i), twin.get(i)),
        ));
    }
    let obs = format!("fresh-thread fs+ring workload, fault mode {mode} before step {at}: {} bystander log lines", log.len());
    if let Some(v) = violation.as_mut() {
        v.sig = format!("fresh-thread|{}", v.clause);
        v.scenario = format!("c04-fresh-thread mode={mode} at={at}");
        v.actions = vec![obs.clone()];
    }
    Exec { outcome: Digest::of64(&(obs.clone(), log)), violation, features: vec![] }
}

pub fn scenario(ch: &mut Chooser, thorough: bool) -> Exec {
    let works: &[Work] = &[Work::TcpReading, Work::TcpNotReading, Work::TcpSlowAccept, Work::TcpVictimWrites, Work::TcpVictimDials, Work::TcpPeerStreams, Work::Udp, Work::Idle, Work::FsRing];
    let work = *ch.of("workload", works);
    let steps = if thorough { 20 } else { 12 };
    let mode = ch.choose("fault", 3); // 0 crash (+bounce), 1 bounce without crash, 2 crash-bounce-crash
    let at = ch.choose("fault_before_step", steps);
    let sel = ch.choose("victim_selection(name|regex-one|regex-two-hosts|name-then-regex-two-hosts)", 4);
    let is_tcp = matches!(work, Work::TcpReading | Work::TcpNotReading | Work::TcpSlowAccept | Work::TcpVictimWrites | Work::TcpPeerStreams);
    let readiness = matches!(work, Work::TcpNotReading | Work::TcpVictimDials) && ch.flag("peer_writes_with_writable_and_try_write");
    let reorder = work == Work::TcpNotReading && ch.flag("first_data_segment_delayed_so_later_ones_overtake_it");
    let peek_first = work == Work::TcpReading && ch.flag("peers_peek_before_their_final_read");
    PEEK_FIRST.with(|p| p.set(peek_first));
    let spawn_kind = if is_tcp { ch.choose("connection_handler(spawn_local|tokio::spawn|alternating)", 3) } else { 0 };
    let (crash_at, bounce_after, second, bounce_only) = match mode {
        0 => {
            let opts: &[Option<usize>] = if thorough { &[None, Some(0), Some(1), Some(2), Some(3), Some(6)] } else { &[None, Some(0), Some(1), Some(3)] };
            (Some(at), *ch.of("bounce_after_steps", opts), None, None)
        }
        1 => (None, None, None, Some(at)),
        _ => {
            (Some(at), Some(*ch.of("bounce_after_steps", &[1usize, 3])), Some(*ch.of("second_crash_after_steps", &[1usize, 4])), None)
        }
    };
    let double_bounce = mode == 0 && bounce_after.is_some() && ch.flag("bounce_twice_in_a_row");
    let run = run_once(work, steps, crash_at, bounce_after, second, bounce_only, sel, spawn_kind, readiness, double_bounce, reorder);
    let mut violation = run.violation;
    let mut obs = run.obs;
    let mut feats: Vec<&'static str> = vec![];
    let g = run.st.borrow();
    let down_forever = crash_at.is_some() && bounce_after.is_none();
    if violation.is_none() {
        // (c) no peer operation is left hanging. Down intervals of V, in steps:
        let mut down: Vec<(usize, usize)> = vec![];
        let mut last_fault = 0usize;
        match (crash_at, bounce_after, second, bounce_only) {
            (Some(c), None, _, _) => {
                down.push((c, usize::MAX));
                last_fault = c;
            }
            (Some(c), Some(b), None, _) => {
                down.push((c, c + b));
                last_fault = c + b;
            }
            (Some(c), Some(b), Some(s2), _) => {
                down.push((c, c + b));
                down.push((c + b + s2, usize::MAX));
                last_fault = c + b + s2;
            }
            (None, _, _, Some(bo)) => last_fault = bo,
            _ => {}
        }
        // (step, host is up afterwards)
        let mut faults: Vec<(usize, bool)> = vec![];
        for (a, b) in &down {
            faults.push((*a, false));
            if *b != usize::MAX {
                faults.push((*b, true));
            }
        }
        if let Some(bo) = bounce_only {
            faults.push((bo, true));
        }
        faults.sort();
        let in_down = |step: usize| down.iter().any(|(a, b)| *a <= step && step < *b);
        for o in &g.ops {
            // the SYN of a connect started in step s reaches V in step s+1 (1-tick latency)
            let arrival = o.conn_arrival;
            if o.op == "accept" {
                // waiting at its own listener for the next caller: not blocked on the victim
                continue;
            }
            if o.op == "connect" {
                if in_down(arrival) {
                    // reached the host while it was down: may stay pending, must not succeed
                    if o.result.as_deref() == Some("ok") {
                        violation = Some(Violation::new(
                            "stale-syn-accepted",
                            format!("{}: the connection request sent in step {} reached the host while it was down and was nevertheless accepted", o.peer, o.started),
                        ));
                        break;
                    }
                    continue;
                }
                if o.result.is_none() {
                    violation = Some(Violation::new(
                        "peer-hangs",
                        format!("{}: `connect` started in step {} (its SYN reached the host while it was up) is still pending 40 steps after the last fault (expected Ok or ConnectionRefused)", o.peer, o.started),
                    ));
                    feats.push("pending-op");
                    break;
                }
                continue;
            }
            // a write issued after the crash, against a host that stays down, waits on segments
            // that "reach the host while it is down": those may stay pending
            let kill = faults.iter().map(|(f, _)| *f).find(|f| arrival < *f);
            let exempt = o.op == "write"
                && match kill {
                    Some(f) => o.started >= f && !faults.iter().any(|(b, up)| *up && *b >= f),
                    None => true,
                };
            if o.result.is_none() && arrival < last_fault && !exempt {
                violation = Some(Violation::new(
                    "peer-hangs",
                    format!("{}: `{}` started in step {} on a connection to the incarnation that was crashed is still pending 40 steps after the last fault (expected EOF, ConnectionReset, BrokenPipe)", o.peer, o.op, o.started),
                ));
                feats.push("pending-op");
                break;
            }
        }
    }
    if violation.is_none() {
        // old-stream data must never reach a newer incarnation: tags are per connection
        // round, and a round's connection belongs to exactly one incarnation
        let mut owner: std::collections::BTreeMap<u8, u32> = Default::default();
        for (inc, tag) in &g.v_rx {
            let conn = tag & 0xF0;
            let e = owner.entry(conn).or_insert(*inc);
            if *e != *inc && work != Work::Udp {
                violation = Some(Violation::new(
                    "old-stream-data",
                    format!("bytes of connection {:#x} were received by incarnation {} and by incarnation {}", conn, e, inc),
                ));
                break;
            }
        }
        if work == Work::Udp && violation.is_none() {
            // the second incarnation never joined the group: it must not see multicast datagrams
            if let Some((inc, tag)) = g.v_rx.iter().find(|(inc, tag)| *inc >= 2 && tag & 0x80 != 0) {
                violation = Some(Violation::new(
                    "stale-membership",
                    format!("incarnation {inc} received multicast datagram {:#x} although only the crashed incarnation had joined the group", tag),
                ));
            }
        }
    }
    let bystander_log = g.bystander.clone();
    drop(g);
    if violation.is_none() {
        // (f) uninvolved hosts: identical to the crash-free twin
        let twin = run_once(work, steps, None, None, None, None, 0, spawn_kind, readiness, false, reorder);
        let tl = twin.st.borrow().bystander.clone();
        if sel < 2 && twin.st.borrow().v_effects[1] != run.st.borrow().v_effects[1] {
            violation = Some(Violation::new(
                "bystander-disturbed",
                format!("host vb was not selected, yet its heartbeat ran {} times instead of {} in the crash-free twin", run.st.borrow().v_effects[1], twin.st.borrow().v_effects[1]),
            ));
        }
        if violation.is_none() && tl != bystander_log {
            let i = tl.iter().zip(bystander_log.iter()).position(|(a, b)| a != b).unwrap_or(tl.len().min(bystander_log.len()));
            violation = Some(Violation::new(
                "bystander-disturbed",
                format!("the log of the uninvolved hosts differs from the crash-free twin run at entry {i}: {:?} vs {:?}", bystander_log.get(i), tl.get(i)),
            ));
        }
    }
    if crash_at.is_some() {
        feats.push("crash");
    }
    if bounce_after.is_some() {
        feats.push("bounce");
    }
    obs.push(format!("work={work:?} ops={:?}", run.st.borrow().ops.iter().map(|o| format!("{}:{}@{}={}", o.peer, o.op, o.started, o.result.as_deref().unwrap_or("pending"))).collect::<Vec<_>>()));
    if let Some(v) = violation.as_mut() {
        v.sig = format!("{}|{:?}", v.clause, work);
        v.scenario = format!("c04 tier={} work={work:?} crash_at={crash_at:?} bounce_after={bounce_after:?} second={second:?} bounce_only={bounce_only:?} selection={sel} handler={spawn_kind} readiness={readiness} double_bounce={double_bounce} reorder={reorder} peek_first={peek_first}", if thorough { "thorough" } else { "quick" });
        v.actions = obs.clone();
    }
    Exec { outcome: Digest::of64(&obs), violation, features: feats }
}
