//! Numbered-datagram traffic between three hosts with link-control actions placed by the
//! explorer: C08 (hold / release / manual delivery) and C03 (explicit partitions, random
//! link failures through the coin hook). The reference is written from the property
//! texts at step granularity.

use std::cell::RefCell;
use std::collections::VecDeque;
use std::net::IpAddr;
use std::rc::Rc;
use std::time::Duration;

use tokio::sync::Notify;
use turmoil::net::UdpSocket;
use turmoil::Sim;
use vx_core::dfs::Exec;
use vx_core::{Chooser, Digest, Violation};

use crate::kit::*;

const NAMES: [&str; 3] = ["ha", "hb", "hc"];
const PORT: u16 = 9;
/// fixed latency in ticks
const LAT: usize = 2;

#[derive(Clone, Debug)]
enum HostCmd {
    Send { to: usize, id: u32 },
    /// send after sleeping `delay_us` inside the step
    SendAfter { to: usize, id: u32, delay_us: u64 },
    Hold(usize, usize),
    Release(usize, usize),
    Partition(usize, usize),
    PartitionOneway(usize, usize),
    Repair(usize, usize),
    RepairOneway(usize, usize),
}

#[derive(Default)]
struct FlowSt {
    step: usize,
    cmds: [VecDeque<HostCmd>; 3],
    /// per receiving host: (id, from host, step)
    recv: [Vec<(u32, usize, usize)>; 3],
    ips: Vec<IpAddr>,
    send_errs: Vec<String>,
    /// per receiving host: (id, sender's sim_elapsed at send, receiver's sim_elapsed at receipt), microseconds
    stamps: [Vec<(u32, u64, u64)>; 3],
}

struct Net3 {
    sim: Sim<'static>,
    st: Rc<RefCell<FlowSt>>,
    notify: [Rc<Notify>; 3],
    ips: [IpAddr; 3],
}

fn build(tick_ms: u64, lat_ticks: usize, fail: f64, repair: f64, order_ba: bool) -> Net3 {
    let lat = Duration::from_millis(tick_ms * lat_ticks as u64);
    build_with(tick_ms, order_ba, |b| {
        b.min_message_latency(lat).max_message_latency(lat).fail_rate(fail).repair_rate(repair);
    })
}

fn build_with(tick_ms: u64, order_ba: bool, cfg: impl FnOnce(&mut turmoil::Builder)) -> Net3 {
    let mut b = builder(tick_ms);
    b.udp_capacity(64);
    cfg(&mut b);
    let mut sim = b.build();
    let st = Rc::new(RefCell::new(FlowSt::default()));
    let notify: [Rc<Notify>; 3] = [Rc::new(Notify::new()), Rc::new(Notify::new()), Rc::new(Notify::new())];
    let order: [usize; 3] = if order_ba { [1, 0, 2] } else { [0, 1, 2] };
    for &h in &order {
        let st2 = st.clone();
        let n2 = notify[h].clone();
        sim.client(NAMES[h], async move {
            let sock = Rc::new(UdpSocket::bind(("0.0.0.0", PORT)).await?);
            let rs = sock.clone();
            let st3 = st2.clone();
            tokio::task::spawn_local(async move {
                let mut buf = [0u8; 16];
                loop {
                    match rs.recv_from(&mut buf).await {
                        Ok((n, from)) => {
                            let mut g = st3.borrow_mut();
                            let id = u32::from_le_bytes([buf[0], buf[1], buf[2], buf[3]]);
                            let fh = g.ips.iter().position(|ip| *ip == from.ip()).unwrap_or(9);
                            let step = g.step;
                            g.recv[h].push((id, fh, step));
                            if n >= 12 {
                                let sent = u64::from_le_bytes(buf[4..12].try_into().unwrap());
                                let now = turmoil::sim_elapsed().map(|d| d.as_micros() as u64).unwrap_or(0);
                                g.stamps[h].push((id, sent, now));
                            }
                        }
                        Err(_) => break,
                    }
                }
            });
            loop {
                n2.notified().await;
                loop {
                    let c = st2.borrow_mut().cmds[h].pop_front();
                    let Some(c) = c else { break };
                    match c {
                        HostCmd::Send { to, id } => {
                            let ip = st2.borrow().ips[to];
                            if let Err(e) = sock.try_send_to(&id.to_le_bytes(), (ip, PORT)) {
                                st2.borrow_mut().send_errs.push(format!("send {id}: {}", errk(&e)));
                            }
                        }
                        HostCmd::SendAfter { to, id, delay_us } => {
                            let ip = st2.borrow().ips[to];
                            let s2 = sock.clone();
                            let st4 = st2.clone();
                            tokio::task::spawn_local(async move {
                                if delay_us > 0 {
                                    tokio::time::sleep(Duration::from_micros(delay_us)).await;
                                }
                                let now = turmoil::sim_elapsed().map(|d| d.as_micros() as u64).unwrap_or(0);
                                let mut p = id.to_le_bytes().to_vec();
                                p.extend_from_slice(&now.to_le_bytes());
                                if let Err(e) = s2.try_send_to(&p, (ip, PORT)) {
                                    st4.borrow_mut().send_errs.push(format!("send {id}: {}", errk(&e)));
                                }
                            });
                        }
                        HostCmd::Hold(a, b) => turmoil::hold(NAMES[a], NAMES[b]),
                        HostCmd::Release(a, b) => turmoil::release(NAMES[a], NAMES[b]),
                        HostCmd::Partition(a, b) => turmoil::partition(NAMES[a], NAMES[b]),
                        HostCmd::PartitionOneway(a, b) => turmoil::partition_oneway(NAMES[a], NAMES[b]),
                        HostCmd::Repair(a, b) => turmoil::repair(NAMES[a], NAMES[b]),
                        HostCmd::RepairOneway(a, b) => turmoil::repair_oneway(NAMES[a], NAMES[b]),
                    }
                }
            }
            #[allow(unreachable_code)]
            Ok(())
        });
    }
    let ips = [sim.lookup(NAMES[0]), sim.lookup(NAMES[1]), sim.lookup(NAMES[2])];
    st.borrow_mut().ips = ips.to_vec();
    Net3 { sim, st, notify, ips }
}

impl Net3 {
    fn host_cmd(&self, h: usize, c: HostCmd) {
        self.st.borrow_mut().cmds[h].push_back(c);
        self.notify[h].notify_one();
    }
    fn step(&mut self, k: usize) -> Result<(), String> {
        self.st.borrow_mut().step = k;
        self.sim.step().map(|_| ()).map_err(|e| e.to_string())
    }
}

// ------------------------------------------------------------------------------------
// reference link (one pair of hosts), step granularity

#[derive(Clone, Debug, PartialEq)]
enum MStat {
    /// will be handed to the destination during this step
    At(usize),
    Held,
}

#[derive(Clone, Debug)]
struct MMsg {
    id: u32,
    from: usize,
    to: usize,
    stat: MStat,
}

#[derive(Default)]
struct MLink {
    held: bool,
    q: Vec<MMsg>,
}

impl MLink {
    fn send(&mut self, id: u32, from: usize, to: usize, step: usize) {
        let stat = if self.held { MStat::Held } else { MStat::At(step + LAT) };
        self.q.push(MMsg { id, from, to, stat });
    }
    /// messages handed over during `step`, in queue order
    fn due(&mut self, step: usize) -> Vec<MMsg> {
        let mut out = vec![];
        let mut i = 0;
        while i < self.q.len() {
            if matches!(self.q[i].stat, MStat::At(s) if s <= step) {
                out.push(self.q.remove(i));
            } else {
                i += 1;
            }
        }
        out
    }
}

// ------------------------------------------------------------------------------------
// C08

pub fn c08_scenario(ch: &mut Chooser, thorough: bool) -> Exec {
    let steps = if thorough { 9 } else { 7 };
    let from_host = ch.flag("control_issued_from_host_code");
    let by_regex = ch.flag("hosts_named_by_regex");
    // regex variant: "B against every host" (overlapping sets) holds both A<->B and B<->C
    let wide = by_regex && !from_host && ch.flag("regex_set_is_b_against_all");
    // argument order of the wide calls: (B, /all/) for both, (/all/, B) for both, or hold with
    // one order and release with the other
    let wide_order = if wide { ch.choose("wide_argument_order", 3) } else { 0 };
    // host code that calls hold / release: the uninvolved host C (runs after A and B in a
    // step) or the sender A itself (runs before the receiver B)
    let issuer: usize = if from_host && ch.flag("host_code_control_issued_by_a_instead_of_c") { 0 } else { 2 };
    // a second datagram A->B in every step: two messages of one direction fall due together
    let double = ch.flag("two_datagrams_a_to_b_per_step");
    let mut net = build(1, LAT, 0.0, 1.0, false);
    let mut link = MLink::default(); // A <-> B
    let mut link_ac = MLink::default();
    let mut link_bc = MLink::default();
    let mut next_id = 1u32;
    let mut obs: Vec<String> = vec![];
    let mut violation: Option<Violation> = None;
    let mut feats: Vec<&'static str> = vec![];
    let mut cycles = 0;
    let mut want: [Vec<(u32, usize, usize)>; 3] = Default::default();
    // when control comes from host code the hold takes effect *during* the step, after
    // that step's network tick: messages maturing in that very step are don't-care
    let mut dontcare: Vec<u32> = vec![];
    // ids whose arrival step is left open but which must arrive exactly once: (id, destination)
    let mut anytime: Vec<(u32, usize)> = vec![];
    let total_steps = steps + 6;

    'run: for k in 0..total_steps {
        let suffix = k >= steps;
        // ---- control
        let mut ctl = 0;
        if !suffix {
            let mut menu = vec![0u8];
            if !link.held && cycles < 2 {
                menu.push(1);
            }
            if link.held {
                menu.push(2);
            }
            ctl = *ch.of("control", &menu);
        } else if link.held {
            ctl = 2;
        }
        let hold_now = |net: &Net3, rel: bool| {
            if from_host {
                let c = if rel { HostCmd::Release(0, 1) } else { HostCmd::Hold(0, 1) };
                net.host_cmd(issuer, c);
            } else if wide {
                let allr = regex::Regex::new("^h[abc]$").unwrap();
                let regex_first = wide_order == 1 || (wide_order == 2 && rel);
                match (rel, regex_first) {
                    (true, false) => net.sim.release(NAMES[1], allr),
                    (true, true) => net.sim.release(allr, NAMES[1]),
                    (false, false) => net.sim.hold(NAMES[1], allr),
                    (false, true) => net.sim.hold(allr, NAMES[1]),
                }
            } else if by_regex {
                let a = regex::Regex::new("^ha$").unwrap();
                let b = regex::Regex::new("^h[b]$").unwrap();
                if rel {
                    net.sim.release(a, b)
                } else {
                    net.sim.hold(a, b)
                }
            } else if rel {
                net.sim.release(NAMES[0], NAMES[1])
            } else {
                net.sim.hold(NAMES[0], NAMES[1])
            }
        };
        match ctl {
            1 => {
                hold_now(&net, false);
                cycles += 1;
                obs.push(format!("step {k}: hold(A,B)"));
                if from_host {
                    // takes effect mid-step k: messages due in step k may or may not get through
                    for m in &link.q {
                        if matches!(m.stat, MStat::At(s) if s <= k) {
                            dontcare.push(m.id);
                        }
                    }
                    // sends of this very step happen before/after the hold in host order
                }
                link.held = true;
                for m in &mut link.q {
                    if !(from_host && matches!(m.stat, MStat::At(s) if s <= k)) {
                        m.stat = MStat::Held;
                    }
                }
                if wide {
                    link_bc.held = true;
                    for m in &mut link_bc.q {
                        m.stat = MStat::Held;
                    }
                }
                feats.push("hold");
            }
            2 => {
                hold_now(&net, true);
                obs.push(format!("step {k}: release(A,B)"));
                link.held = false;
                // from the Sim handle: released messages are handed over during step k;
                // from host code: the release happens during step k, after the network tick
                let at = if from_host { k + 1 } else { k };
                for m in &mut link.q {
                    if m.stat == MStat::Held {
                        // released by A's own code during A's turn: B, whose turn comes later
                        // in the same step, may be handed its messages in this very step or
                        // in the next (the property fixes order and exactly-once, not the step)
                        if from_host && issuer == 0 && m.to != 0 {
                            anytime.push((m.id, m.to));
                        }
                        m.stat = MStat::At(at);
                    }
                }
                if wide {
                    link_bc.held = false;
                    for m in &mut link_bc.q {
                        if m.stat == MStat::Held {
                            m.stat = MStat::At(at);
                        }
                    }
                }
                feats.push("release");
            }
            _ => {}
        }
        // ---- manual delivery of one held message (deviation)
        if link.held && !suffix && !from_host {
            let held_idx: Vec<usize> = (0..link.q.len()).filter(|&i| link.q[i].stat == MStat::Held).collect();
            if !held_idx.is_empty() {
                let c = ch.deviate("manual_delivery", held_idx.len() + 2);
                if c >= 1 && c <= held_idx.len() {
                    let qi = held_idx[c - 1];
                    // position in the implementation's link queue = position in the model queue
                    let ok = deliver_nth(&net.sim, net.ips[0], net.ips[1], qi);
                    obs.push(format!("step {k}: SentRef::deliver() on held message #{} (id {})", qi, link.q[qi].id));
                    if !ok {
                        violation = Some(Violation::new(
                            "links-view",
                            format!("Sim::links does not show held message id {} at position {}", link.q[qi].id, qi),
                        ));
                        break 'run;
                    }
                    link.q[qi].stat = MStat::At(k);
                    feats.push("manual-delivery");
                } else if c == held_idx.len() + 1 {
                    net.sim.links(|links| {
                        for l in links {
                            let (x, y) = l.pair();
                            if (x == net.ips[0] && y == net.ips[1]) || (x == net.ips[1] && y == net.ips[0]) {
                                l.deliver_all();
                            }
                        }
                    });
                    obs.push(format!("step {k}: LinkIter::deliver_all()"));
                    for m in &mut link.q {
                        if m.stat == MStat::Held {
                            m.stat = MStat::At(k);
                        }
                    }
                    feats.push("deliver-all");
                }
            }
        }
        // ---- hold called again on the held link, right after a manual delivery and before
        // the step: everything still in flight, the hand-scheduled messages included, is held
        if link.held && !suffix && !from_host && link.q.iter().any(|m| m.stat == MStat::At(k)) && ch.dev_flag("hold_again_before_the_step") {
            hold_now(&net, false);
            obs.push(format!("step {k}: hold(A,B) again"));
            for m in &mut link.q {
                m.stat = MStat::Held;
            }
            feats.push("re-hold");
        }
        // ---- release right after a manual delivery, before the step: the hand-scheduled
        // message and everything that was still held are handed over in this step
        if link.held && !suffix && !from_host && link.q.iter().any(|m| m.stat == MStat::At(k)) && ch.dev_flag("release_right_after_the_manual_delivery") {
            hold_now(&net, true);
            obs.push(format!("step {k}: release(A,B) right after the manual delivery"));
            link.held = false;
            for m in &mut link.q {
                if m.stat == MStat::Held {
                    m.stat = MStat::At(k);
                }
            }
            if wide {
                link_bc.held = false;
                for m in &mut link_bc.q {
                    if m.stat == MStat::Held {
                        m.stat = MStat::At(k);
                    }
                }
            }
            feats.push("release-after-manual-delivery");
        }
        // ---- links view must show exactly the in-flight set (checked before the step)
        if !from_host {
            let got = link_msgs(&net.sim, net.ips[0], net.ips[1]).len();
            let wantn = link.q.len();
            if got != wantn {
                violation = Some(Violation::new(
                    "links-view",
                    format!("before step {k}: Sim::links shows {got} in-flight messages between A and B, the reference has {wantn} ({:?})", link.q.iter().map(|m| m.id).collect::<Vec<_>>()),
                ));
                break 'run;
            }
        }
        // ---- traffic of this step
        if !suffix {
            for (from, to) in [(0usize, 1usize), (1, 0), (0, 2), (1, 2)] {
                let id = next_id;
                next_id += 1;
                net.host_cmd(from, HostCmd::Send { to, id });
            }
            if double {
                let id = next_id;
                next_id += 1;
                net.host_cmd(0, HostCmd::Send { to: 1, id });
            }
        }
        // reference: hand over what is due in step k, then register this step's sends
        for m in link.due(k) {
            want[m.to].push((m.id, m.from, k));
        }
        for m in link_ac.due(k) {
            want[m.to].push((m.id, m.from, k));
        }
        for m in link_bc.due(k) {
            want[m.to].push((m.id, m.from, k));
        }
        if !suffix {
            let base = next_id - if double { 5 } else { 4 };
            if from_host && ctl != 0 {
                // sends of this step race with the host-code control action: don't-care
                dontcare.push(base);
                dontcare.push(base + 1);
                if double {
                    dontcare.push(base + 4);
                }
            }
            // queue order on the link = order of the sends within the step (A runs before B)
            link.send(base, 0, 1, k);
            if double {
                link.send(base + 4, 0, 1, k);
            }
            link.send(base + 1, 1, 0, k);
            link_ac.send(base + 2, 0, 2, k);
            link_bc.send(base + 3, 1, 2, k);
        }
        if let Err(e) = net.step(k) {
            violation = Some(Violation::new("sim-error", e));
            break 'run;
        }
        // ---- compare receive logs so far (ignoring don't-care ids)
        let g = net.st.borrow();
        for h in 0..3 {
            let open = |id: &u32| dontcare.contains(id) || anytime.iter().any(|a| a.0 == *id);
            let got: Vec<_> = g.recv[h].iter().filter(|r| !open(&r.0)).cloned().collect();
            let wnt: Vec<_> = want[h].iter().filter(|r| !open(&r.0)).cloned().collect();
            // per source order and timing
            for src in 0..3 {
                let gs: Vec<_> = got.iter().filter(|r| r.1 == src).collect();
                let ws: Vec<_> = wnt.iter().filter(|r| r.1 == src).collect();
                if gs != ws {
                    violation = Some(Violation::new(
                        if gs.len() > ws.len() { "delivered-while-held" } else { "delivery" },
                        format!(
                            "after step {k}: host {} received from host {} (id, from, step) {:?}; expected {:?} (held={}, control from host code={})",
                            NAMES[h], NAMES[src], gs, ws, link.held, from_host
                        ),
                    ));
                    break 'run;
                }
            }
        }
    }
    if violation.is_none() {
        let g = net.st.borrow();
        if !g.send_errs.is_empty() {
            violation = Some(Violation::new("send-error", format!("{:?}", g.send_errs)));
        }
        // per direction, datagrams arrive in the order they were sent (one fixed latency;
        // holds delay, they do not reorder) unless the test delivered some by hand
        if violation.is_none() && !feats.contains(&"manual-delivery") && !feats.contains(&"deliver-all") {
            for (h, src) in [(1usize, 0usize), (0, 1), (2, 0), (2, 1)] {
                let ids: Vec<u32> = g.recv[h].iter().filter(|r| r.1 == src).map(|r| r.0).collect();
                if ids.windows(2).any(|w| w[0] > w[1]) {
                    violation = Some(Violation::new(
                        "order",
                        format!("host {} received the datagrams of host {} in the order {:?}; they were sent in ascending order under one fixed latency (control from host code={from_host}, issued by {})", NAMES[h], NAMES[src], ids, NAMES[issuer]),
                    ));
                    break;
                }
            }
        }
        // nothing lost or duplicated at the end (don't-care ids may be either)
        for h in 0..3 {
            let mut ids: Vec<u32> = g.recv[h].iter().map(|r| r.0).collect();
            let n = ids.len();
            ids.sort();
            ids.dedup();
            if ids.len() != n {
                violation = Some(Violation::new("duplicate", format!("host {} received a datagram twice: {:?}", NAMES[h], g.recv[h])));
            }
        }
        for (id, to) in &anytime {
            let n = g.recv[*to].iter().filter(|r| r.0 == *id).count();
            if n != 1 && violation.is_none() {
                violation = Some(Violation::new("lost", format!("datagram {id} was held and then released from host code; host {} received it {n} times", NAMES[*to])));
            }
        }
        if !link.q.is_empty() || !link_bc.q.is_empty() {
            violation = Some(Violation::new("lost", format!("messages still undelivered after release and the fair suffix: {:?}", link.q.iter().map(|m| m.id).collect::<Vec<_>>())));
        }
    }
    obs.push(format!("recv={:?}", net.st.borrow().recv));
    if let Some(v) = violation.as_mut() {
        v.sig = format!("{}|from_host={}", v.clause, from_host);
        v.scenario = format!("c08 tier={} steps={steps} from_host={from_host} regex={by_regex} wide={wide} wide_order={wide_order}", if thorough { "thorough" } else { "quick" });
        v.actions = obs.clone();
    }
    Exec { outcome: Digest::of64(&obs), violation, features: feats }
}

// ------------------------------------------------------------------------------------
// C03

struct ChooserGuard;
impl Drop for ChooserGuard {
    fn drop(&mut self) {
        turmoil::verif::set_chooser(None);
    }
}

pub fn c03_scenario(ch: &mut Chooser, thorough: bool) -> Exec {
    let steps = if thorough { 8 } else { 6 };
    let max_calls = if thorough { 3 } else { 2 };
    let from_host = ch.flag("control_issued_from_host_code");
    let order_ba = ch.flag("b_registered_before_a");
    let random = ch.flag("random_link_failures");
    // host sets: the pair (A, B) by name, or "B against every host" through an overlapping regex
    let wide = ch.flag("host_set_is_b_against_regex_all");
    // both sides of every call named by one and the same regular expression matching A and B:
    // a one-way call then covers both directions between them
    let same_regex = !wide && !from_host && !random && ch.flag("both_host_sets_are_the_regex_matching_a_and_b");
    let (fail, repair) = if random { (0.5, 0.5) } else { (0.0, 1.0) };
    // coins are answered by the explorer (deviation = "yes")
    let chp: *mut Chooser = ch;
    let _guard = ChooserGuard;
    if random {
        turmoil::verif::set_chooser(Some(Box::new(move |site, n| {
            // SAFETY: the chooser outlives the scenario body; the hook is removed by the guard
            let c = unsafe { &mut *chp };
            match site {
                "link-fail-coin" => c.deviate("link-fail-coin", n),
                "link-repair-coin" => c.deviate("link-repair-coin", n),
                _ => 0,
            }
        })));
    }
    // how the failure rate gets configured: through the builder, or at run time for every link
    // (`Sim::set_fail_rate`), or for the link A-B alone (`Sim::set_link_fail_rate`)
    // (varied in the base configuration only: the dimension is independent of who issues the calls)
    let rate_via = if random && !from_host && !order_ba && !wide { ch.choose("fail_rate_set_by", 3) } else { 0 };
    let mut net = build(1, LAT, if rate_via == 0 { fail } else { 0.0 }, repair, order_ba);
    match rate_via {
        1 => net.sim.set_fail_rate(fail),
        2 => net.sim.set_link_fail_rate(NAMES[0], NAMES[1], fail),
        _ => {}
    }
    // explicit partition flags per direction: [A->B, B->A, B->C]
    let mut part = [false, false, false];
    let mut calls = 0;
    let mut next_id = 1u32;
    // every message: (id, from, to, send step, forbidden, dontcare)
    let mut msgs: Vec<(u32, usize, usize, usize, bool, bool)> = vec![];
    let mut obs: Vec<String> = vec![];
    let mut violation: Option<Violation> = None;
    let mut feats: Vec<&'static str> = vec![];
    let total = steps + LAT + 4;
    let dir_of = |from: usize, to: usize| -> Option<usize> {
        match (from, to) {
            (0, 1) => Some(0),
            (1, 0) => Some(1),
            (1, 2) => Some(2),
            _ => None,
        }
    };
    let all = || regex::Regex::new("^h[abc]$").unwrap();

    'run: for k in 0..total {
        let suffix = k >= steps;
        let mut call = 0usize;
        if !suffix && calls < max_calls {
            call = ch.choose("partition_call", 7);
        } else if k == steps {
            call = 4; // the fair suffix explicitly repairs everything
        }
        if call != 0 {
            if !suffix {
                calls += 1;
            }
            let ab = || regex::Regex::new("^h[ab]$").unwrap();
            let (desc, newpart): (&str, [Option<bool>; 3]) = if same_regex {
                match call {
                    1 => ("partition(/a|b/, /a|b/)", [Some(true), Some(true), None]),
                    2 | 3 => ("partition_oneway(/a|b/ -> /a|b/)", [Some(true), Some(true), None]),
                    4 => ("repair(/a|b/, /a|b/)", [Some(false), Some(false), None]),
                    _ => ("repair_oneway(/a|b/ -> /a|b/)", [Some(false), Some(false), None]),
                }
            } else {
                match (call, wide) {
                (1, false) => ("partition(A,B)", [Some(true), Some(true), None]),
                (2, false) => ("partition_oneway(A->B)", [Some(true), None, None]),
                (3, false) => ("partition_oneway(B->A)", [None, Some(true), None]),
                (4, false) => ("repair(A,B)", [Some(false), Some(false), None]),
                (5, false) => ("repair_oneway(A->B)", [Some(false), None, None]),
                (_, false) => ("repair_oneway(B->A)", [None, Some(false), None]),
                (1, true) => ("partition(B, /all/)", [Some(true), Some(true), Some(true)]),
                (2, true) => ("partition_oneway(/all/ -> B)", [Some(true), None, None]),
                (3, true) => ("partition_oneway(B -> /all/)", [None, Some(true), Some(true)]),
                (4, true) => ("repair(B, /all/)", [Some(false), Some(false), Some(false)]),
                (5, true) => ("repair_oneway(/all/ -> B)", [Some(false), None, None]),
                (_, true) => ("repair_oneway(B -> /all/)", [None, Some(false), Some(false)]),
                }
            };
            obs.push(format!("before step {k}: {desc}{}", if from_host && !suffix { " (from host code, during the step)" } else { "" }));
            let hc = match call {
                1 => HostCmd::Partition(0, 1),
                2 => HostCmd::PartitionOneway(0, 1),
                3 => HostCmd::PartitionOneway(1, 0),
                4 => HostCmd::Repair(0, 1),
                5 => HostCmd::RepairOneway(0, 1),
                _ => HostCmd::RepairOneway(1, 0),
            };
            if same_regex {
                match call {
                    1 => net.sim.partition(ab(), ab()),
                    2 | 3 => net.sim.partition_oneway(ab(), ab()),
                    4 => net.sim.repair(ab(), ab()),
                    _ => net.sim.repair_oneway(ab(), ab()),
                }
            } else if wide {
                // regex host sets are only reachable from the Sim handle in this harness
                match call {
                    1 => net.sim.partition(NAMES[1], all()),
                    2 => net.sim.partition_oneway(all(), NAMES[1]),
                    3 => net.sim.partition_oneway(NAMES[1], all()),
                    4 => net.sim.repair(NAMES[1], all()),
                    5 => net.sim.repair_oneway(all(), NAMES[1]),
                    _ => net.sim.repair_oneway(NAMES[1], all()),
                }
            } else if from_host && !suffix {
                net.host_cmd(2, hc);
            } else {
                match call {
                    1 => net.sim.partition(NAMES[0], NAMES[1]),
                    2 => net.sim.partition_oneway(NAMES[0], NAMES[1]),
                    3 => net.sim.partition_oneway(NAMES[1], NAMES[0]),
                    4 => net.sim.repair(NAMES[0], NAMES[1]),
                    5 => net.sim.repair_oneway(NAMES[0], NAMES[1]),
                    _ => net.sim.repair_oneway(NAMES[1], NAMES[0]),
                }
            }
            for d in 0..3 {
                if let Some(v) = newpart[d] {
                    if v {
                        // messages of this direction still in flight are dropped
                        for m in msgs.iter_mut() {
                            if dir_of(m.1, m.2) == Some(d) {
                                let s = m.3;
                                let in_flight = s < k && s + LAT >= k;
                                if in_flight {
                                    if from_host && !wide && !suffix && s + LAT == k {
                                        m.5 = true; // matures in the very step of the call
                                    } else {
                                        m.4 = true;
                                    }
                                }
                            }
                        }
                        feats.push("partitioned");
                    } else {
                        feats.push("repaired");
                    }
                    part[d] = v;
                }
            }
        }
        if !suffix {
            for (from, to) in [(0usize, 1usize), (1, 0), (0, 2), (1, 2)] {
                let id = next_id;
                next_id += 1;
                let forbidden = dir_of(from, to).map(|d| part[d]).unwrap_or(false);
                // sends of a step in which a host-code call lands race with it
                let dc = from_host && !wide && call != 0 && dir_of(from, to).is_some();
                msgs.push((id, from, to, k, forbidden, dc));
                net.host_cmd(from, HostCmd::Send { to, id });
            }
        }
        if let Err(e) = net.step(k) {
            violation = Some(Violation::new("sim-error", e));
            break 'run;
        }
        // safety on the spot: nothing forbidden may ever be received
        let g = net.st.borrow();
        for h in 0..3 {
            for r in &g.recv[h] {
                if let Some(m) = msgs.iter().find(|m| m.0 == r.0) {
                    if m.4 && !m.5 {
                        violation = Some(Violation::new(
                            "delivered-across-partition",
                            format!(
                                "datagram {} sent by {} to {} in step {} crossed an explicitly partitioned direction (partitioned at send time or while in flight) but was received in step {}",
                                m.0, NAMES[m.1], NAMES[m.2], m.3, r.2
                            ),
                        ));
                        break 'run;
                    }
                }
            }
        }
    }
    if violation.is_none() {
        let g = net.st.borrow();
        for h in 0..3 {
            let mut ids: Vec<u32> = g.recv[h].iter().map(|r| r.0).collect();
            let n = ids.len();
            ids.sort();
            ids.dedup();
            if ids.len() != n {
                violation = Some(Violation::new("duplicate", format!("host {} received a datagram twice: {:?}", NAMES[h], g.recv[h])));
            }
        }
        if !random && violation.is_none() {
            // keeps-flowing half: every non-forbidden message arrives exactly once, on time
            for m in &msgs {
                if m.4 || m.5 {
                    continue;
                }
                let got: Vec<_> = g.recv[m.2].iter().filter(|r| r.0 == m.0).collect();
                if got.len() != 1 || got[0].2 != m.3 + LAT || got[0].1 != m.1 {
                    violation = Some(Violation::new(
                        "not-delivered",
                        format!(
                            "datagram {} sent by {} to {} in step {} on a direction that was not partitioned: expected exactly one receipt in step {}, observed {:?}",
                            m.0, NAMES[m.1], NAMES[m.2], m.3, m.3 + LAT, got
                        ),
                    ));
                    break;
                }
            }
        }
    }
    obs.push(format!("recv={:?}", net.st.borrow().recv));
    if let Some(v) = violation.as_mut() {
        v.sig = format!("{}|random={}|from_host={}|wide={}", v.clause, random, from_host, wide || same_regex);
        v.scenario = format!("c03 tier={} steps={steps} calls<={max_calls} from_host={from_host} order_ba={order_ba} random={random} (rate set by {}) wide={wide} same_regex={same_regex}", if thorough { "thorough" } else { "quick" }, ["builder", "Sim::set_fail_rate", "Sim::set_link_fail_rate(A,B)"][rate_via]);
        v.actions = obs.clone();
    }
    Exec { outcome: Digest::of64(&obs), violation, features: feats }
}


// ------------------------------------------------------------------------------------
// C14

pub fn c14_scenario(ch: &mut Chooser, thorough: bool) -> Exec {
    let ticks: &[u64] = if thorough { &[1, 2, 3, 5] } else { &[1, 3] };
    let tick = *ch.of("tick_ms", ticks);
    let ranges: &[(u64, u64)] = if thorough { &[(0, 0), (1, 1), (2, 2), (0, 3), (1, 5), (3, 10), (120, 120), (101, 103)] } else { &[(2, 2), (0, 3), (3, 10), (120, 120)] };
    let (gmin, gmax) = *ch.of("global_latency_ms", ranges);
    // override: 0 none, 1 set_link_latency(A,B,d), 2 set_link_max_message_latency(A,B,m), 3 set_max_message_latency(m)
    // the long latencies (beyond the builder's default maximum) are run without overrides
    let long = gmin >= 100;
    let okind = if long { 0 } else { ch.choose("latency_override", 4) };
    let oval: u64 = if okind == 0 { 0 } else { *ch.of("override_value_ms", &[0u64, 4, 12]) };
    let owhen = if okind == 0 { 0 } else { ch.choose("override_before_step", 2) }; // 0 = before the run, 1 = before step 1
    let named = if okind == 0 { 0 } else { ch.choose("override_hosts_named_by", 2) }; // 0 names, 1 one regex per host, 2 ha + a regex matching every host
    let named = if named == 1 && ch.dev_flag("second_regex_matches_every_host") { 2 } else { named };
    let burst = if long { 2 } else { *ch.of("burst", &[1usize, 2, 4]) };
    // tokio's paused clock has 1ms granularity: an in-step offset needs a tick of >= 2ms
    let offset_half = tick >= 2 && ch.flag("second_message_sent_half_a_tick_later");
    let send_steps = if burst == 4 { 1 } else { 2 };

    // model of the configuration in force: global and per-link (A,B)
    let mut glob = (gmin, gmax.max(gmin));
    let mut linkcfg: Option<(u64, u64)> = None;
    if okind >= 2 && oval < glob.0 && owhen == 0 && okind == 3 {
        // a global maximum below the minimum would make the range negative (Duration underflow panic): skip
        return Exec { outcome: 0, violation: None, features: vec!["skipped-invalid-config"] };
    }
    // an earlier override (always before the run), so that sequences of two settings occur
    let (pkind, pval): (usize, u64) = if long {
        (0, 0)
    } else if okind == 3 && gmax >= gmin {
        // before a change of the global maximum, the link may also have been pinned to a
        // maximum that happens to equal the global one of that moment
        let opts = [(0usize, 0u64), (1, 3), (2, 6), (3, 7), (2, gmax.max(gmin))];
        *ch.of("earlier_override(none|link fixed 3|link max 6|global max 7|link max = current global max)", &opts)
    } else {
        *ch.of("earlier_override(none|link fixed 3|link max 6|global max 7)", &[(0usize, 0u64), (1, 3), (2, 6), (3, 7)])
    };
    let curve = !long && okind == 0 && pkind == 0 && ch.flag("latency_curve_set_at_run_time");
    let apply_kind = |sim: &Sim, okind: usize, oval: u64, glob: &mut (u64, u64), linkcfg: &mut Option<(u64, u64)>| {
        let d = Duration::from_millis(oval);
        match okind {
            1 => {
                if named == 1 {
                    sim.set_link_latency(regex::Regex::new("^ha$").unwrap(), regex::Regex::new("^hb$").unwrap(), d)
                } else if named == 2 {
                    sim.set_link_latency(NAMES[0], regex::Regex::new("^h").unwrap(), d)
                } else {
                    sim.set_link_latency(NAMES[0], NAMES[1], d)
                }
                *linkcfg = Some((oval, oval));
            }
            2 => {
                if named == 1 {
                    sim.set_link_max_message_latency(regex::Regex::new("^ha$").unwrap(), regex::Regex::new("^hb$").unwrap(), d)
                } else if named == 2 {
                    sim.set_link_max_message_latency(NAMES[0], regex::Regex::new("^h").unwrap(), d)
                } else {
                    sim.set_link_max_message_latency(NAMES[0], NAMES[1], d)
                }
                let base = linkcfg.unwrap_or(*glob);
                *linkcfg = Some((base.0, oval));
            }
            3 => {
                sim.set_max_message_latency(d);
                glob.1 = oval;
            }
            _ => {}
        }
    };
    let apply_override = |sim: &Sim, glob: &mut (u64, u64), linkcfg: &mut Option<(u64, u64)>| apply_kind(sim, okind as usize, oval, glob, linkcfg);
    // configurations whose maximum ends up below their minimum make `max - min` underflow:
    // that is a misconfiguration, not a property subject
    let model_step = |kind: usize, val: u64, g: &mut (u64, u64), l: &mut Option<(u64, u64)>| {
        match kind {
            1 => *l = Some((val, val)),
            2 => *l = Some((l.unwrap_or(*g).0, val)),
            3 => g.1 = val,
            _ => {}
        }
        g.1 >= g.0 && l.map(|x| x.1 >= x.0).unwrap_or(true)
    };
    {
        let (mut g, mut l) = (glob, linkcfg);
        if !model_step(pkind, pval, &mut g, &mut l) || !model_step(okind as usize, oval, &mut g, &mut l) {
            return Exec { outcome: 1, violation: None, features: vec!["skipped-invalid-config"] };
        }
    }

    // latency variate answered by the explorer when the range in force is non-empty
    let chp: *mut Chooser = ch;
    let _guard = ChooserGuard;
    let range_probe: Rc<RefCell<(u64, u64)>> = Rc::new(RefCell::new((0, 0)));
    let assigned: Rc<RefCell<Vec<usize>>> = Rc::new(RefCell::new(vec![]));
    {
        let rp = range_probe.clone();
        let asg = assigned.clone();
        turmoil::verif::set_chooser(Some(Box::new(move |site, n| {
            if site != "latency-variate" {
                return 0;
            }
            let (lo, hi) = *rp.borrow();
            let c = if hi > lo {
                let c = unsafe { &mut *chp };
                // full enumeration of the variates for a single setting; deviation-bounded
                // when two settings are combined (keeps the grid tractable)
                if pkind != 0 || named == 2 {
                    c.deviate("latency-variate", n)
                } else {
                    c.choose("latency-variate", n)
                }
            } else {
                0
            };
            asg.borrow_mut().push(c);
            c
        })));
    }
    let mut net = build_with(tick, false, |b| {
        b.min_message_latency(Duration::from_millis(gmin)).max_message_latency(Duration::from_millis(gmax.max(gmin)));
    });
    if pkind != 0 {
        apply_kind(&net.sim, pkind, pval, &mut glob, &mut linkcfg);
    }
    // the shape of the latency distribution changed at run time: the window stays what the
    // minimum / maximum settings say
    if curve {
        net.sim.set_message_latency_curve(0.3);
    }
    if okind != 0 && owhen == 0 {
        apply_override(&net.sim, &mut glob, &mut linkcfg);
    }
    // warm-up step: every host binds its socket before any traffic
    if let Err(e) = net.step(0) {
        return Exec { outcome: 2, violation: Some(Violation::new("sim-error", e)), features: vec![] };
    }
    let mut next_id = 1u32;
    // (id, from, to, cfg in force (min,max) ms, send order index)
    let mut sent: Vec<(u32, usize, usize, (u64, u64))> = vec![];
    let mut violation: Option<Violation> = None;
    let mut obs: Vec<String> = vec![];
    let mut feats: Vec<&'static str> = vec![];
    let horizon = send_steps + (gmax.max(20) as usize / tick as usize) + 4;
    for k in 0..horizon {
        if k == 1 && okind != 0 && owhen == 1 {
            apply_override(&net.sim, &mut glob, &mut linkcfg);
            obs.push(format!("before step 1: override kind {okind} value {oval}ms"));
        }
        if k < send_steps {
            // the variate is drawn at send time, in send order: A->B burst, then B->A, then A->C
            let ab = linkcfg.unwrap_or(glob);
            *range_probe.borrow_mut() = ab; // A<->B traffic first; A->C uses the global range (set below)
            for i in 0..burst {
                let id = next_id;
                next_id += 1;
                let delay_us = if offset_half && i % 2 == 1 { (tick / 2) * 1000 } else { 0 };
                sent.push((id, 0, 1, ab));
                net.host_cmd(0, HostCmd::SendAfter { to: 1, id, delay_us });
            }
            let id = next_id;
            next_id += 1;
            sent.push((id, 1, 0, ab));
            net.host_cmd(1, HostCmd::SendAfter { to: 0, id, delay_us: 0 });
        }
        if let Err(e) = net.step(k) {
            violation = Some(Violation::new("sim-error", e));
            break;
        }
    }
    turmoil::verif::set_chooser(None);
    let g = net.st.borrow();
    let tick_us = tick * 1000;
    if violation.is_none() {
        if !g.send_errs.is_empty() {
            violation = Some(Violation::new("send-error", format!("{:?}", g.send_errs)));
        }
    }
    if violation.is_none() {
        for (id, from, to, (lo, hi)) in &sent {
            let got: Vec<_> = g.stamps[*to].iter().filter(|s| s.0 == *id).collect();
            if got.len() != 1 {
                violation = Some(Violation::new(
                    "not-delivered",
                    format!("datagram {id} {}->{} on a healthy link was received {} times within {} steps (latency window {lo}..{hi}ms, tick {tick}ms)", NAMES[*from], NAMES[*to], got.len(), horizon),
                ));
                break;
            }
            let (_, s_us, r_us) = *got[0];
            let delta = r_us as i64 - s_us as i64;
            let lo_us = (*lo * 1000) as i64 - tick_us as i64;
            let hi_us = (*hi * 1000) as i64 + tick_us as i64;
            if delta < lo_us || delta > hi_us {
                violation = Some(Violation::new(
                    "latency-window",
                    format!(
                        "datagram {id} {}->{}: sent at {}us, received at {}us (delay {}us); the latency in force at send time was {lo}..{hi}ms and the tick is {tick}ms, so the delay must lie in [{}, {}]us",
                        NAMES[*from], NAMES[*to], s_us, r_us, delta, lo_us, hi_us
                    ),
                ));
                break;
            }
            if hi > lo {
                feats.push("ranged-latency");
            }
        }
    }
    if violation.is_none() {
        // equal assigned latency A->B => arrival order = send order. Assigned latency of the
        // j-th A->B message of a step is known from the variate the explorer answered.
        let asg = assigned.borrow();
        // variate draws happen in actual send order, which follows host order and in-step
        // offsets; with offsets the order across hosts is not the push order, so the tie
        // check is restricted to fixed-latency configurations (every draw equal)
        let first_cfg = sent[0].3;
        let fixed = sent.iter().all(|s| s.3 .0 == s.3 .1 && s.3 == first_cfg);
        if fixed {
            let ab: Vec<u32> = sent.iter().filter(|s| s.1 == 0 && s.2 == 1).map(|s| s.0).collect();
            let arrived: Vec<u32> = g.stamps[1].iter().map(|s| s.0).filter(|id| ab.contains(id)).collect();
            // send order within a step: messages with a half-tick offset are sent after those without
            let mut expect: Vec<(u64, u32)> = vec![];
            for id in &ab {
                let s = g.stamps[1].iter().find(|s| s.0 == *id).map(|s| s.1).unwrap_or(0);
                expect.push((s, *id));
            }
            expect.sort();
            let expect: Vec<u32> = expect.into_iter().map(|x| x.1).collect();
            // stable only if send stamps are distinct or pushes were in id order
            let mut ok = arrived.len() == expect.len();
            if ok {
                // compare as sequences of send stamps (ties among equal stamps keep id order)
                ok = arrived == expect;
            }
            if !ok {
                violation = Some(Violation::new(
                    "order",
                    format!("fixed latency {:?}ms: datagrams A->B were sent in the order {:?} but arrived in the order {:?}", sent[0].3, expect, arrived),
                ));
            }
            feats.push("fixed-latency-order-checked");
        }
        let _ = asg;
    }
    obs.push(format!("tick={tick} global=({gmin},{gmax}) override={okind}/{oval}/{owhen} burst={burst} half={offset_half} stamps={:?} variates={:?}", g.stamps, assigned.borrow()));
    drop(g);
    if let Some(v) = violation.as_mut() {
        v.sig = format!("{}|override={}", v.clause, okind);
        v.scenario = format!("c14 tier={} tick={tick} global=({gmin},{gmax}) override={okind}/{oval}/{owhen}/named{named} burst={burst} half={offset_half}", if thorough { "thorough" } else { "quick" });
        v.actions = obs.clone();
    }
    Exec { outcome: Digest::of64(&obs), violation, features: feats }
}

// ---------------------------------------------------------------------------------------
// C03 with zero latency: a message whose latency has already elapsed counts as arrived.
// Every datagram is sent with latency 0, so once its sender's turn is over it sits in the
// hand-off queue of its destination; a partition call that comes afterwards (between steps,
// from the Sim handle) must neither drop it nor anything of the reverse direction. Messages
// sent while their direction is partitioned never arrive.
pub fn c03_zero_latency_scenario(ch: &mut Chooser, thorough: bool) -> Exec {
    let steps = if thorough { 6 } else { 5 };
    let order_ba = ch.flag("b_registered_before_a");
    let by_ip = ch.flag("hosts_named_by_ip");
    let mut net = build(1, 0, 0.0, 1.0, order_ba);
    let mut part = [false, false]; // A->B, B->A
    let mut calls = 0;
    let mut next_id = 1u32;
    // (id, from, to, send step, forbidden)
    let mut msgs: Vec<(u32, usize, usize, usize, bool)> = vec![];
    let mut obs: Vec<String> = vec![];
    let mut violation: Option<Violation> = None;
    // warm-up: sockets bound
    if let Err(e) = net.step(0) {
        return Exec { outcome: 0, violation: Some(Violation::new("sim-error", e)), features: vec![] };
    }
    let total = steps + 3;
    for k in 1..=total {
        let suffix = k > steps;
        let call = if !suffix && calls < 2 { ch.choose("partition_call_before_this_step", 7) } else if k == steps + 1 { 4 } else { 0 };
        if call != 0 {
            if !suffix {
                calls += 1;
            }
            let (a, b) = (net.ips[0], net.ips[1]);
            macro_rules! go {
                ($f:ident, $x:expr, $y:expr, $nx:expr, $ny:expr) => {
                    if by_ip {
                        net.sim.$f($x, $y)
                    } else {
                        net.sim.$f($nx, $ny)
                    }
                };
            }
            match call {
                1 => {
                    go!(partition, a, b, NAMES[0], NAMES[1]);
                    part = [true, true];
                }
                2 => {
                    go!(partition_oneway, a, b, NAMES[0], NAMES[1]);
                    part[0] = true;
                }
                3 => {
                    go!(partition_oneway, b, a, NAMES[1], NAMES[0]);
                    part[1] = true;
                }
                4 => {
                    go!(repair, a, b, NAMES[0], NAMES[1]);
                    part = [false, false];
                }
                5 => {
                    go!(repair_oneway, a, b, NAMES[0], NAMES[1]);
                    part[0] = false;
                }
                _ => {
                    go!(repair_oneway, b, a, NAMES[1], NAMES[0]);
                    part[1] = false;
                }
            }
            obs.push(format!("before step {k}: call {call} -> partitioned [A->B, B->A] = {part:?}"));
        }
        if !suffix {
            for (from, to) in [(0usize, 1usize), (1, 0), (0, 2), (2, 0)] {
                let id = next_id;
                next_id += 1;
                let forbidden = match (from, to) {
                    (0, 1) => part[0],
                    (1, 0) => part[1],
                    _ => false,
                };
                msgs.push((id, from, to, k, forbidden));
                net.host_cmd(from, HostCmd::Send { to, id });
            }
        }
        if let Err(e) = net.step(k) {
            violation = Some(Violation::new("sim-error", e));
            break;
        }
    }
    if violation.is_none() {
        let g = net.st.borrow();
        for m in &msgs {
            let got: Vec<usize> = g.recv[m.2].iter().filter(|r| r.0 == m.0).map(|r| r.2).collect();
            if m.4 {
                if !got.is_empty() {
                    violation = Some(Violation::new(
                        "delivered-across-partition",
                        format!("datagram {} sent by {} to {} in step {} while that direction was explicitly partitioned was received in step {:?}", m.0, NAMES[m.1], NAMES[m.2], m.3, got),
                    ));
                    break;
                }
            } else if got.len() != 1 || got[0] < m.3 || got[0] > m.3 + 1 {
                violation = Some(Violation::new(
                    "not-delivered",
                    format!(
                        "datagram {} sent by {} to {} in step {} with zero latency while the direction was open was received in steps {:?}; its latency had elapsed before any later partition call, so it counts as arrived (expected exactly once, in step {} or {})",
                        m.0, NAMES[m.1], NAMES[m.2], m.3, got, m.3, m.3 + 1
                    ),
                ));
                break;
            }
        }
    }
    if let Some(v) = violation.as_mut() {
        v.sig = format!("zero-latency|{}", v.clause);
        v.scenario = format!("c03-zero tier={} order_ba={order_ba} by_ip={by_ip}", if thorough { "thorough" } else { "quick" });
        v.actions = obs.clone();
    }
    Exec { outcome: Digest::of64(&obs), violation, features: vec![] }
}

// ---------------------------------------------------------------------------------------
// C03 with TCP: replies that a host generates while handling an incoming segment (a reset
// for a stream it has already dropped) are messages like any other — they do not cross an
// explicitly partitioned direction.
pub fn c03_tcp_scenario(ch: &mut Chooser, _thorough: bool) -> Exec {
    use tokio::io::{AsyncReadExt, AsyncWriteExt};
    use turmoil::net::{TcpListener, TcpStream};
    let a_first = ch.flag("a_registered_first");
    let from_host = ch.flag("partition_issued_from_host_code");
    let full = ch.flag("two_way_partition_instead_of_oneway");
    let repair_before: Option<usize> = *ch.of("repair_before_step", &[None, Some(10usize)]);
    let mut b = builder(1);
    b.min_message_latency(Duration::from_millis(1)).max_message_latency(Duration::from_millis(1));
    let mut sim = b.build();
    #[derive(Default)]
    struct St {
        step: usize,
        b_writes: Vec<(usize, Result<(), String>)>,
        b_read: Option<(usize, String)>,
        go_drop: bool,
        part_now: bool,
    }
    let st: Rc<RefCell<St>> = Rc::new(RefCell::new(St::default()));
    let sa = st.clone();
    let a_prog = move || {
        let sa = sa.clone();
        async move {
            tokio::time::sleep(Duration::from_millis(1)).await;
            let s = TcpStream::connect(("hb", 80)).await?;
            loop {
                if sa.borrow().part_now {
                    sa.borrow_mut().part_now = false;
                    if full {
                        turmoil::partition("ha", "hb");
                    } else {
                        turmoil::partition_oneway("ha", "hb");
                    }
                }
                if sa.borrow().go_drop {
                    break;
                }
                tokio::time::sleep(Duration::from_millis(1)).await;
            }
            drop(s);
            std::future::pending::<()>().await;
            Ok(())
        }
    };
    let sb = st.clone();
    let b_prog = move || {
        let sb = sb.clone();
        async move {
            let l = TcpListener::bind(("0.0.0.0", 80)).await?;
            let (s, _) = l.accept().await?;
            let (mut r, mut w) = s.into_split();
            let sr = sb.clone();
            tokio::task::spawn_local(async move {
                let mut buf = [0u8; 4];
                let res = r.read(&mut buf).await;
                let step = sr.borrow().step;
                sr.borrow_mut().b_read = Some((step, format!("{:?}", res.map_err(|e| e.kind()))));
                std::future::pending::<()>().await;
            });
            // one byte per step from step 6 on
            for i in 0..8u8 {
                while sb.borrow().step < 6 + i as usize {
                    tokio::time::sleep(Duration::from_millis(1)).await;
                }
                let res = w.write_all(&[i]).await.map_err(|e| format!("{:?}", e.kind()));
                let step = sb.borrow().step;
                sb.borrow_mut().b_writes.push((step, res));
            }
            std::future::pending::<()>().await;
            Ok(())
        }
    };
    if a_first {
        sim.host("ha", a_prog);
        sim.host("hb", b_prog);
    } else {
        sim.host("hb", b_prog);
        sim.host("ha", a_prog);
    }
    let mut obs: Vec<String> = vec![];
    let mut violation: Option<Violation> = None;
    for k in 0..16 {
        st.borrow_mut().step = k;
        if k == 4 {
            if from_host {
                st.borrow_mut().part_now = true;
            } else if full {
                sim.partition("ha", "hb");
            } else {
                sim.partition_oneway("ha", "hb");
            }
            obs.push(format!("step {k}: {} ha -> hb{}", if full { "partition" } else { "partition_oneway" }, if from_host { " (host code)" } else { "" }));
        }
        if k == 5 {
            st.borrow_mut().go_drop = true; // a drops its stream: the FIN is lost in the partition
        }
        if Some(k) == repair_before {
            if full {
                sim.repair("ha", "hb");
            } else {
                sim.repair_oneway("ha", "hb");
            }
            obs.push(format!("before step {k}: repair"));
        }
        if let Err(e) = vx_core::catch(|| sim.step()).unwrap_or_else(|p| Err(p.into())) {
            violation = Some(Violation::new("sim-error", e.to_string()));
            break;
        }
    }
    let g = st.borrow();
    obs.push(format!("b writes {:?}, b read {:?}", g.b_writes, g.b_read));
    if violation.is_none() {
        // while ha -> hb is partitioned nothing ha emits may reach hb: hb's writes keep
        // succeeding and its read stays pending
        let until = repair_before.unwrap_or(usize::MAX);
        // (a two-way partition also stops hb's data, so ha never has anything to answer)
        for (step, r) in &g.b_writes {
            if *step < until && r.is_err() {
                violation = Some(Violation::new(
                    "delivered-across-partition",
                    format!("hb's write in step {step} failed with {:?} while ha -> hb was explicitly partitioned: a message of ha (the reset for its dropped stream) crossed the partition", r),
                ));
                break;
            }
        }
        if violation.is_none() {
            if let Some((step, r)) = &g.b_read {
                if *step < until {
                    violation = Some(Violation::new("delivered-across-partition", format!("hb's pending read completed with {r} in step {step} while ha -> hb was explicitly partitioned")));
                }
            }
        }
    }
    drop(g);
    if let Some(v) = violation.as_mut() {
        v.sig = format!("tcp-reply|{}", v.clause);
        v.scenario = format!("c03-tcp a_first={a_first} from_host={from_host} full={full} repair_before={repair_before:?}");
        v.actions = obs.clone();
    }
    Exec { outcome: Digest::of64(&obs), violation, features: vec![] }
}
