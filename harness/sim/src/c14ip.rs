//! C14, hosts registered by literal address (no DNS name): per-link latency settings given by
//! address take precedence over the global range from the moment they are made; the seeded rng
//! draws the variates (no hook), datagrams carry the sender's clock.

use std::cell::RefCell;
use std::net::{IpAddr, Ipv4Addr};
use std::rc::Rc;
use std::time::Duration;

use turmoil::net::UdpSocket;
use vx_core::dfs::Exec;
use vx_core::{Chooser, Digest, Violation};

use crate::kit::*;

pub fn scenario(ch: &mut Chooser, thorough: bool) -> Exec {
    let tick: u64 = *ch.of("tick_ms", &[1u64, 2]);
    let (gmin, gmax): (u64, u64) = *ch.of("global_latency_ms", &[(2u64, 2u64), (1, 6)]);
    // 0 none, 1 set_link_latency(a, b, d), 2 set_link_max_message_latency(a, b, m)
    let okind = ch.choose("override(none|link fixed|link max)", 3);
    let oval: u64 = if okind == 0 { 0 } else { *ch.of("override_value_ms", &[8u64, 20]) };
    let when = if okind == 0 { 0 } else { ch.choose("override_made(before the run|before step 3)", 2) };
    // which ends are registered by address: both, only the sender, only the receiver
    let by_ip = ch.choose("registered_by_address(both|sender|receiver)", 3);
    let order_swapped = okind != 0 && ch.flag("override_arguments_in_reverse_order");
    let seed_off = ch.choose("rng_seed_offset", if thorough { 4 } else { 2 }) as u64;
    let mut b = builder(tick);
    b.min_message_latency(Duration::from_millis(gmin)).max_message_latency(Duration::from_millis(gmax));
    b.rng_seed(vx_core::report::seed().wrapping_add(17 + seed_off));
    let mut sim = b.build();
    let a_ip: IpAddr = IpAddr::V4(Ipv4Addr::new(10, 1, 0, 1));
    let b_ip: IpAddr = IpAddr::V4(Ipv4Addr::new(10, 1, 0, 2));
    // (id, sent us, received us)
    let log: Rc<RefCell<Vec<(u32, u64, u64)>>> = Rc::new(RefCell::new(vec![]));
    let l2 = log.clone();
    let recv = async move {
        let s = UdpSocket::bind(("0.0.0.0", 9)).await?;
        let mut buf = [0u8; 16];
        loop {
            let (n, _) = s.recv_from(&mut buf).await?;
            if n >= 12 {
                let id = u32::from_le_bytes(buf[0..4].try_into().unwrap());
                let sent = u64::from_le_bytes(buf[4..12].try_into().unwrap());
                let now = turmoil::sim_elapsed().map(|d| d.as_micros() as u64).unwrap_or(0);
                l2.borrow_mut().push((id, sent, now));
            }
        }
        #[allow(unreachable_code)]
        Ok(())
    };
    let nsend = 8u32;
    let send = move |dst: IpAddr| async move {
        let s = UdpSocket::bind(("0.0.0.0", 9)).await?;
        for id in 0..nsend {
            let now = turmoil::sim_elapsed().map(|d| d.as_micros() as u64).unwrap_or(0);
            let mut p = id.to_le_bytes().to_vec();
            p.extend_from_slice(&now.to_le_bytes());
            s.send_to(&p, (dst, 9)).await?;
            tokio::time::sleep(Duration::from_millis(tick)).await;
        }
        std::future::pending::<()>().await;
        Ok(())
    };
    // receiver first, then the sender
    let (a_by_ip, b_by_ip) = (by_ip != 2, by_ip != 1);
    if b_by_ip {
        sim.client(b_ip, recv);
    } else {
        sim.client("hb", recv);
    }
    let b_addr = if b_by_ip { b_ip } else { sim.lookup("hb") };
    if a_by_ip {
        sim.client(a_ip, send(b_addr));
    } else {
        sim.client("ha", send(b_addr));
    }
    let a_addr = if a_by_ip { a_ip } else { sim.lookup("ha") };
    let apply = |sim: &turmoil::Sim| {
        let d = Duration::from_millis(oval);
        let (x, y) = if order_swapped { (b_addr, a_addr) } else { (a_addr, b_addr) };
        match okind {
            1 => sim.set_link_latency(x, y, d),
            2 => sim.set_link_max_message_latency(x, y, d),
            _ => {}
        }
    };
    let mut obs: Vec<String> = vec![];
    let mut violation: Option<Violation> = None;
    if when == 0 {
        apply(&sim);
    }
    let horizon = nsend as usize + (oval.max(gmax) / tick) as usize + 6;
    let mut made_at_us: Option<u64> = if when == 0 && okind != 0 { Some(0) } else { None };
    for k in 0..horizon {
        if k == 3 && when == 1 {
            apply(&sim);
            made_at_us = Some(sim.elapsed().as_micros() as u64);
            obs.push(format!("before step 3: override kind {okind} value {oval}ms"));
        }
        if let Err(e) = sim.step() {
            violation = Some(Violation::new("sim-error", e.to_string()));
            break;
        }
    }
    let g = log.borrow();
    if violation.is_none() {
        let t = tick * 1000;
        for id in 0..nsend {
            let got: Vec<_> = g.iter().filter(|r| r.0 == id).collect();
            if got.len() != 1 {
                violation = Some(Violation::new("not-delivered", format!("datagram {id} on a healthy link was received {} times", got.len())));
                break;
            }
            let (_, sent, rcv) = *got[0];
            // configuration in force at send time
            let over = made_at_us.map(|m| sent >= m).unwrap_or(false);
            let (lo, hi) = match (over, okind) {
                (true, 1) => (oval, oval),
                (true, 2) => (gmin, oval),
                _ => (gmin, gmax),
            };
            let delay = rcv as i64 - sent as i64;
            if delay < (lo * 1000) as i64 - t as i64 || delay > (hi * 1000 + t) as i64 {
                violation = Some(Violation::new(
                    "latency-window",
                    format!(
                        "datagram {id} {a_addr}->{b_addr} (sender registered by {}, receiver by {}): sent at {sent}us, received at {rcv}us (delay {delay}us); the latency in force at send time was {lo}..{hi}ms{} and the tick is {tick}ms",
                        if a_by_ip { "address" } else { "name" },
                        if b_by_ip { "address" } else { "name" },
                        if over { " (per-link setting given by address)" } else { "" }
                    ),
                ));
                break;
            }
        }
    }
    obs.push(format!("tick={tick} global={gmin}..{gmax} okind={okind} oval={oval} when={when} by_ip={by_ip} swapped={order_swapped} seed+{seed_off} log={:?}", *g));
    drop(g);
    if let Some(v) = violation.as_mut() {
        v.sig = format!("hosts-by-address|{}", v.clause);
        v.scenario = format!("c14-hosts-by-address tier={}", if thorough { "thorough" } else { "quick" });
        v.actions = obs.clone();
    }
    Exec { outcome: Digest::of64(&obs), violation, features: vec![] }
}
