//! C13, port / 4-tuple reuse with overlapping lifetimes: every sequence of up to N operations
//! over {connect, drop the k-th live client stream} on a 2- or 3-port ephemeral range, each
//! operation followed by a loss-free FIFO run to quiescence (so close handshakes complete and
//! entries are reclaimed). A connect succeeds exactly when a port of the range is not held by
//! a live stream, and then uses such a port; dropped streams give their port back.

use std::cell::RefCell;
use std::collections::BTreeSet;
use std::net::{IpAddr, SocketAddr};
use std::rc::Rc;

use tokio::io::AsyncReadExt;
use turmoil_net::shim::tokio::net::{TcpListener, TcpStream};
use turmoil_net::{KernelConfig, Net};
use vx_core::dfs::Exec;
use vx_core::exec::Executor;
use vx_core::{Chooser, Digest, Violation};

use crate::wire::errk;

pub fn scenario(ch: &mut Chooser, thorough: bool) -> Exec {
    let nports: u16 = *ch.of("ephemeral_ports", &[2u16, 3]);
    let depth = if thorough { 8 } else { 7 };
    let lo = 50000u16;
    let hi = lo + nports - 1;
    let mut net = Net::with_config(KernelConfig::default().default_backlog(8));
    let (cip, sip): (IpAddr, IpAddr) = ("10.0.0.1".parse().unwrap(), "10.0.0.2".parse().unwrap());
    let c = net.add_host(cip);
    let s = net.add_host(sip);
    let hosts = [c, s];
    let guard = net.enter();
    turmoil_net::verif_set_ephemeral_range(cip, lo..=hi);
    let mut exec = Executor::new();
    // server: accept forever, each stream is read to EOF and then dropped
    exec.spawn(1, async move {
        let Ok(l) = TcpListener::bind(SocketAddr::new(sip, 80)).await else { return };
        loop {
            let Ok((mut st, _)) = l.accept().await else { return };
            // one reader per connection would need spawn; connections are handled by a
            // small pool instead: read this one to EOF in a detached future
            DETACHED.with(|d| d.borrow_mut().push(Box::pin(async move {
                let mut b = [0u8; 8];
                loop {
                    match st.read(&mut b).await {
                        Ok(0) | Err(_) => break,
                        Ok(_) => {}
                    }
                }
            })));
        }
    });
    // client streams
    let live: Rc<RefCell<Vec<Option<(u16, TcpStream)>>>> = Rc::new(RefCell::new(vec![]));
    let last: Rc<RefCell<Option<Result<u16, String>>>> = Rc::new(RefCell::new(None));
    let mut violation: Option<Violation> = None;
    let mut obs: Vec<String> = vec![];
    let mut used: BTreeSet<u16> = BTreeSet::new();
    let settle = |exec: &mut Executor| {
        let mut wire: Vec<turmoil_net::Packet> = vec![];
        for _ in 0..40 {
            // detached server readers
            let ds: Vec<_> = DETACHED.with(|d| d.borrow_mut().drain(..).collect());
            for f in ds {
                exec.spawn(1, f);
            }
            exec.run_until_stalled(500, |tag| turmoil_net::set_current(hosts[tag as usize]));
            for p in wire.drain(..) {
                guard.deliver(p);
            }
            exec.run_until_stalled(500, |tag| turmoil_net::set_current(hosts[tag as usize]));
            let mut out = vec![];
            guard.egress_all(&mut out);
            wire = out;
        }
    };
    settle(&mut exec);
    for step in 0..depth {
        let nlive = live.borrow().iter().filter(|x| x.is_some()).count();
        let op = ch.choose("op(connect|drop oldest|drop newest)", if nlive == 0 { 1 } else if nlive == 1 { 2 } else { 3 });
        match op {
            0 => {
                *last.borrow_mut() = None;
                let (live2, last2) = (live.clone(), last.clone());
                exec.spawn(0, async move {
                    match TcpStream::connect(SocketAddr::new(sip, 80)).await {
                        Ok(st) => {
                            let port = st.local_addr().map(|a| a.port()).unwrap_or(0);
                            live2.borrow_mut().push(Some((port, st)));
                            *last2.borrow_mut() = Some(Ok(port));
                        }
                        Err(e) => *last2.borrow_mut() = Some(Err(errk(&e))),
                    }
                });
                settle(&mut exec);
                let r = last.borrow().clone();
                obs.push(format!("connect -> {r:?} (ports in use {used:?})"));
                let full = (lo..=hi).all(|p| used.contains(&p));
                match r {
                    Some(Ok(p)) if !full && (lo..=hi).contains(&p) && !used.contains(&p) => {
                        used.insert(p);
                    }
                    Some(Err(e)) if full && (e == "AddrInUse" || e == "AddrNotAvailable") => {}
                    other => {
                        violation = Some(Violation::new(
                            "port-reuse",
                            format!(
                                "step {step}: connect returned {:?} while the ephemeral ports held by live streams are {:?} of {lo}..={hi}: expected {}",
                                other,
                                used,
                                if full { "AddrInUse (range exhausted)".to_string() } else { "a free port of the range".to_string() }
                            ),
                        ));
                        break;
                    }
                }
            }
            k => {
                // drop the oldest (1) or the newest (2) live stream
                let mut g = live.borrow_mut();
                let idxs: Vec<usize> = (0..g.len()).filter(|&i| g[i].is_some()).collect();
                let i = if k == 1 { idxs[0] } else { *idxs.last().unwrap() };
                let (port, st) = g[i].take().unwrap();
                turmoil_net::set_current(hosts[0]);
                drop(st);
                drop(g);
                used.remove(&port);
                obs.push(format!("drop stream on port {port}"));
                settle(&mut exec);
                // reclaimed?
                let (sockets, _b, _c) = turmoil_net::verif_counts(cip);
                let want = used.len();
                if sockets != want {
                    violation = Some(Violation::new(
                        "leak",
                        format!("step {step}: after dropping the stream on port {port} and 40 loss-free rounds the client host holds {sockets} sockets, expected {want}"),
                    ));
                    break;
                }
            }
        }
    }
    turmoil_net::set_current(hosts[0]);
    live.borrow_mut().clear();
    DETACHED.with(|d| d.borrow_mut().clear());
    drop(exec);
    drop(guard);
    if let Some(v) = violation.as_mut() {
        v.sig = format!("port-wrap|{}", v.clause);
        v.scenario = format!("c13-portwrap tier={} ports={nports}", if thorough { "thorough" } else { "quick" });
        v.actions = obs.clone();
    }
    Exec { outcome: Digest::of64(&obs), violation, features: vec![] }
}

type Detached = std::pin::Pin<Box<dyn std::future::Future<Output = ()>>>;
thread_local! {
    static DETACHED: RefCell<Vec<Detached>> = const { RefCell::new(Vec::new()) };
}
