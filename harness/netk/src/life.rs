//! Engine E, connection lifecycle (C13): connect / cancel / accept / write / shutdown /
//! drop / listener-drop are *choices* here, interleaved with the wire actions.
//! Payload is at most one byte per direction; the client's ephemeral range is two
//! ports so that ports and 4-tuples are reused by sequential connections.

use std::cell::RefCell;
use std::collections::HashSet;
use std::net::{IpAddr, SocketAddr};
use std::rc::Rc;
use std::sync::Mutex;

use tokio::io::AsyncWriteExt;
use turmoil_net::shim::tokio::net::{TcpListener, TcpStream};
use turmoil_net::{EnterGuard, HostId, KernelConfig, Net, Transport};
use vx_core::exec::Executor;
use vx_core::{Digest, System, Violation};

use crate::tcpx::state_name;
use crate::wire::{errk, pkt_kind, Wire};

#[derive(Clone, Debug)]
pub struct LifeCfg {
    pub name: String,
    pub attempts: u32,
    pub backlog: usize,
    pub retx_threshold: u32,
    pub retx_max: u32,
    pub d: u32,
    pub w: usize,
    pub drops: u32,
    pub allow_write: bool,
    pub allow_listener_drop: bool,
    pub max_depth: usize,
    /// start without a listener (connection refused paths)
    pub start_listening: bool,
}

impl LifeCfg {
    pub fn base(name: &str) -> LifeCfg {
        LifeCfg {
            name: name.into(),
            attempts: 2,
            backlog: 1,
            retx_threshold: 2,
            retx_max: 4,
            d: 1,
            w: 2,
            drops: 0,
            allow_write: true,
            allow_listener_drop: true,
            max_depth: 40,
            start_listening: true,
        }
    }
    pub fn describe(&self) -> String {
        format!(
            "{} attempts={} backlog={} T={} max={} d={} W={} D={} write={} ldrop={} listen0={} depth={}",
            self.name, self.attempts, self.backlog, self.retx_threshold, self.retx_max, self.d, self.w,
            self.drops, self.allow_write, self.allow_listener_drop, self.start_listening, self.max_depth
        )
    }
    fn horizon(&self) -> u32 {
        self.retx_threshold * (self.retx_max + 2) + 10
    }
}

const CIP: &str = "10.0.0.1";
const SIP: &str = "10.0.0.2";
const SPORT: u16 = 80;
const EPH: std::ops::RangeInclusive<u16> = 50000..=50001;

#[derive(Default)]
struct Sh {
    // client
    c_stream: Option<TcpStream>,
    c_result: Option<Result<(), String>>,
    c_wrote: bool,
    c_shut: bool,
    // server
    listener: Option<Rc<TcpListener>>,
    s_streams: Vec<Option<TcpStream>>,
    s_acc_err: Option<String>,
    s_shut: bool,
    s_wrote: bool,
    log: Vec<String>,
}

#[derive(Clone, Debug, Hash, PartialEq, Eq)]
enum CPhase {
    Idle,
    Connecting,
    Connected,
    Done,
}

pub struct LifeSys {
    exec: Executor,
    sh: Rc<RefCell<Sh>>,
    cfg: LifeCfg,
    hosts: [HostId; 2],
    wire: Wire,
    drops_left: u32,
    attempt: u32,
    cphase: CPhase,
    connect_task: Option<usize>,
    accept_task: Option<usize>,
    listener_drops: u32,
    relistens: u32,
    /// a refusal of the current attempt is justified (SYN met no listener / listener
    /// dropped with the child unaccepted / RST from a dropped or aborted peer)
    refusal_ok: bool,
    timeout_ok: bool,
    syn_ports: Vec<u16>,
    accepted_peers: Vec<SocketAddr>,
    states_seen: Vec<&'static str>,
    feats: Vec<&'static str>,
    dropped: Vec<String>,
    pub verbose: bool,
    guard: EnterGuard,
}

pub const A_END: u16 = 0;
pub const A_C_CONNECT: u16 = 1;
pub const A_C_CANCEL: u16 = 2;
pub const A_C_WRITE: u16 = 3;
pub const A_C_SHUT: u16 = 4;
pub const A_C_DROP: u16 = 5;
pub const A_S_ACCEPT: u16 = 6;
pub const A_S_WRITE: u16 = 7;
pub const A_S_SHUT: u16 = 8;
pub const A_S_DROP: u16 = 9;
pub const A_S_LDROP: u16 = 10;
pub const A_S_LISTEN: u16 = 11;
pub const A_DELIVER: u16 = 100;
pub const A_DROP: u16 = 300;

static INTERN: Mutex<Option<HashSet<&'static str>>> = Mutex::new(None);
fn intern(s: String) -> &'static str {
    let mut g = INTERN.lock().unwrap();
    let set = g.get_or_insert_with(HashSet::new);
    if let Some(x) = set.get(s.as_str()) {
        return x;
    }
    let l: &'static str = Box::leak(s.into_boxed_str());
    set.insert(l);
    l
}

fn cip() -> IpAddr {
    CIP.parse().unwrap()
}
fn sip() -> IpAddr {
    SIP.parse().unwrap()
}

impl LifeSys {
    fn cur(&self, who: usize) {
        turmoil_net::set_current(self.hosts[who]);
    }

    fn run_tasks(&mut self) -> Result<(), Violation> {
        let hosts = self.hosts;
        let polls = self.exec.run_until_stalled(10_000, |tag| turmoil_net::set_current(hosts[tag as usize]));
        if polls >= 10_000 {
            return Err(Violation::new("livelock", "tasks keep waking without quiescing".into()));
        }
        // harvest the connect task
        if let Some(t) = self.connect_task {
            if self.exec.is_done(t) {
                self.connect_task = None;
                let r = self.sh.borrow().c_result.clone();
                match r {
                    Some(Ok(())) => {
                        self.cphase = CPhase::Connected;
                        // addresses must mirror
                        let sh = self.sh.borrow();
                        let s = sh.c_stream.as_ref().unwrap();
                        self.cur(0);
                        let peer = s.peer_addr().ok();
                        let local = s.local_addr().ok();
                        if peer != Some(SocketAddr::new(sip(), SPORT))
                            || local.map(|l| l.ip()) != Some(cip())
                            || !local.map(|l| EPH.contains(&l.port())).unwrap_or(false)
                        {
                            return Err(Violation::new(
                                "addr",
                                format!("connected stream has local={local:?} peer={peer:?}"),
                            ));
                        }
                    }
                    Some(Err(e)) => {
                        self.cphase = if self.attempt >= self.cfg.attempts { CPhase::Done } else { CPhase::Idle };
                        if e == "ConnectionRefused" {
                            if !self.refusal_ok {
                                return Err(Violation::new(
                                    "spurious-refusal",
                                    "connect failed with ConnectionRefused although a listener was bound whenever its SYN arrived and nothing reset it".into(),
                                ));
                            }
                        } else if e == "TimedOut" {
                            if !self.timeout_ok {
                                return Err(Violation::new(
                                    "spurious-timeout",
                                    "connect failed with TimedOut although no handshake packet was dropped, the backlog had room and delays were within the bound".into(),
                                ));
                            }
                        } else {
                            return Err(Violation::new("connect-error", format!("connect failed with unexpected error {e}")));
                        }
                    }
                    None => {}
                }
            }
        }
        if let Some(t) = self.accept_task {
            if self.exec.is_done(t) {
                self.accept_task = None;
                let sh = self.sh.borrow();
                if let Some(Some(s)) = sh.s_streams.last() {
                    self.cur(1);
                    let peer = s.peer_addr().ok();
                    let local = s.local_addr().ok();
                    let okp = peer.map(|p| p.ip() == cip() && self.syn_ports.contains(&p.port())).unwrap_or(false);
                    if !okp || local != Some(SocketAddr::new(sip(), SPORT)) {
                        return Err(Violation::new(
                            "addr",
                            format!("accepted stream has local={local:?} peer={peer:?}, SYN source ports seen {:?}", self.syn_ports),
                        ));
                    }
                }
            }
        }
        Ok(())
    }

    fn note_states(&mut self) {
        let mut pair = [String::new(), String::new()];
        for (i, ip) in [cip(), sip()].iter().enumerate() {
            let ns = turmoil_net::netstat(*ip);
            for e in &ns.entries {
                if let Some(s) = e.state {
                    let n = state_name(s);
                    if !self.states_seen.contains(&n) {
                        self.states_seen.push(n);
                    }
                    if n != "Listen" {
                        pair[i] = n.to_string();
                    }
                }
            }
        }
        let f = intern(format!("pair:{}/{}", pair[0], pair[1]));
        if !self.feats.contains(&f) {
            self.feats.push(f);
        }
    }

    fn feat_action(&mut self, what: &str) {
        let mut pair = [String::from("-"), String::from("-")];
        for (i, ip) in [cip(), sip()].iter().enumerate() {
            let ns = turmoil_net::netstat(*ip);
            for e in &ns.entries {
                if let Some(s) = e.state {
                    let n = state_name(s);
                    if n != "Listen" {
                        pair[i] = n.to_string();
                    }
                }
            }
        }
        let f = intern(format!("act:{}@{}/{}", what, pair[0], pair[1]));
        if !self.feats.contains(&f) {
            self.feats.push(f);
        }
    }

    fn end_round(&mut self) -> Result<(), Violation> {
        self.wire.age_all();
        let mut out = vec![];
        self.guard.egress_all(&mut out);
        for p in &out {
            if let Transport::Tcp(s) = &p.payload {
                if s.flags.syn && !s.flags.ack && !self.syn_ports.contains(&s.src_port) {
                    self.syn_ports.push(s.src_port);
                }
            }
        }
        self.wire.add(out);
        self.run_tasks()
    }

    fn deliver(&mut self, i: usize) -> Result<(), Violation> {
        let p = self.wire.take(i);
        if let Transport::Tcp(s) = &p.pkt.payload {
            if s.flags.syn && !s.flags.ack && p.pkt.dst == sip() {
                // SYN reaching the server: is a listener bound, is there backlog room?
                let ns = turmoil_net::netstat(sip());
                let listen = ns.entries.iter().find(|e| e.state == Some(turmoil_net::NetstatState::Listen));
                match listen {
                    None => self.refusal_ok = true,
                    Some(l) => {
                        let half = ns
                            .entries
                            .iter()
                            .filter(|e| e.state == Some(turmoil_net::NetstatState::SynReceived))
                            .count();
                        if l.recv_q + half >= l.send_q {
                            // backlog full: the SYN is dropped silently
                            self.timeout_ok = true;
                        }
                    }
                }
            }
            if s.flags.rst && p.pkt.dst == cip() {
                self.refusal_ok = true;
            }
        }
        self.guard.deliver(p.pkt);
        self.run_tasks()
    }

    fn spawn_connect(&mut self) {
        let sh = self.sh.clone();
        let t = self.exec.spawn(0, async move {
            let r = TcpStream::connect(SocketAddr::new(sip(), SPORT)).await;
            let mut g = sh.borrow_mut();
            match r {
                Ok(s) => {
                    g.c_stream = Some(s);
                    g.c_result = Some(Ok(()));
                    g.log.push("connect ok".into());
                }
                Err(e) => {
                    g.c_result = Some(Err(errk(&e)));
                    g.log.push(format!("connect err {}", errk(&e)));
                }
            }
        });
        self.connect_task = Some(t);
    }

    fn spawn_accept(&mut self) {
        let sh = self.sh.clone();
        let l = sh.borrow().listener.clone().unwrap();
        let t = self.exec.spawn(1, async move {
            let r = l.accept().await;
            drop(l);
            let mut g = sh.borrow_mut();
            match r {
                Ok((s, peer)) => {
                    g.log.push(format!("accept {peer}"));
                    g.s_streams.push(Some(s));
                }
                Err(e) => {
                    g.s_acc_err = Some(errk(&e));
                    g.log.push(format!("accept err {}", errk(&e)));
                }
            }
        });
        self.accept_task = Some(t);
    }

    fn listen(&mut self) -> Result<(), Violation> {
        self.cur(1);
        let mut ex = Executor::new();
        let out: Rc<RefCell<Option<std::io::Result<TcpListener>>>> = Rc::new(RefCell::new(None));
        let o2 = out.clone();
        ex.spawn(1, async move {
            let r = TcpListener::bind(SocketAddr::new("0.0.0.0".parse().unwrap(), SPORT)).await;
            *o2.borrow_mut() = Some(r);
        });
        ex.run_until_stalled(10, |_| {});
        let r = out.borrow_mut().take();
        match r {
            Some(Ok(l)) => {
                self.sh.borrow_mut().listener = Some(Rc::new(l));
                Ok(())
            }
            Some(Err(e)) => Err(Violation::new(
                "rebind",
                format!("binding the listener port {SPORT} failed with {} although no listener is bound", errk(&e)),
            )),
            None => Err(Violation::new("rebind", "TcpListener::bind did not complete".into())),
        }
    }

    fn drop_listener(&mut self) {
        self.cur(1);
        if let Some(t) = self.accept_task.take() {
            self.exec.cancel(t);
        }
        let l = self.sh.borrow_mut().listener.take();
        drop(l);
    }

    fn server_stream_idx(&self) -> Option<usize> {
        let sh = self.sh.borrow();
        sh.s_streams.iter().rposition(|s| s.is_some())
    }

    fn try_write(&mut self, who: usize) -> Result<(), Violation> {
        self.cur(who);
        let sh = self.sh.clone();
        let idx = self.server_stream_idx();
        let mut g = sh.borrow_mut();
        let s = if who == 0 { g.c_stream.as_ref() } else { idx.and_then(|i| g.s_streams[i].as_ref()) };
        let r = s.map(|s| s.try_write(&[if who == 0 { 0x11 } else { 0x22 }]));
        let line = format!("write{who} {:?}", r.as_ref().map(|r| r.as_ref().map_err(errk)));
        g.log.push(line);
        if who == 0 {
            g.c_wrote = true;
        } else {
            g.s_wrote = true;
        }
        Ok(())
    }

    fn shutdown(&mut self, who: usize) -> Result<(), Violation> {
        self.cur(who);
        let idx = self.server_stream_idx();
        {
            let mut g = self.sh.borrow_mut();
            let s: Option<&mut TcpStream> = if who == 0 {
                g.c_stream.as_mut()
            } else {
                match idx {
                    Some(i) => g.s_streams[i].as_mut(),
                    None => None,
                }
            };
            if let Some(s) = s {
                // shutdown is synchronous in this stack (queues the FIN); poll it once
                let mut fut = Box::pin(s.shutdown());
                let w = std::task::Waker::noop();
                let mut cx = std::task::Context::from_waker(w);
                let _ = std::future::Future::poll(fut.as_mut(), &mut cx);
            }
        }
        let mut g = self.sh.borrow_mut();
        if who == 0 {
            g.c_shut = true;
        } else {
            g.s_shut = true;
        }
        Ok(())
    }

    fn drop_client_stream(&mut self) {
        self.cur(0);
        let s = self.sh.borrow_mut().c_stream.take();
        drop(s);
        let mut g = self.sh.borrow_mut();
        g.c_result = None;
        g.c_wrote = false;
        g.c_shut = false;
        self.cphase = if self.attempt >= self.cfg.attempts { CPhase::Done } else { CPhase::Idle };
    }

    fn drop_server_stream(&mut self) {
        self.cur(1);
        if let Some(i) = self.server_stream_idx() {
            let s = self.sh.borrow_mut().s_streams[i].take();
            drop(s);
        }
        let mut g = self.sh.borrow_mut();
        g.s_shut = false;
        g.s_wrote = false;
    }

    fn cancel_connect(&mut self) {
        self.cur(0);
        if let Some(t) = self.connect_task.take() {
            self.exec.cancel(t);
        }
        self.sh.borrow_mut().c_result = None;
        self.cphase = if self.attempt >= self.cfg.attempts { CPhase::Done } else { CPhase::Idle };
    }

    pub fn trace_state(&self) -> String {
        let mut out = String::new();
        out.push_str(&format!("    phase={:?} attempt={} log={:?}\n", self.cphase, self.attempt, self.sh.borrow().log));
        for p in &self.wire.pkts {
            out.push_str(&format!("    wire: {} age={}\n", p.key, p.age));
        }
        for (i, ip) in [cip(), sip()].iter().enumerate() {
            out.push_str(&format!("    counts[{}]={:?}\n", i, turmoil_net::verif_counts(*ip)));
            for e in &turmoil_net::netstat(*ip).entries {
                out.push_str(&format!("      {:?} {} -> {:?} {:?} rq={} sq={}\n", e.proto, e.local, e.peer, e.state, e.recv_q, e.send_q));
            }
        }
        out
    }

    fn sign(&self, mut v: Violation) -> Violation {
        v.sig = format!("{}|drops={}", v.clause, self.dropped.join("+"));
        v.scenario = self.cfg.describe();
        v
    }

    /// run `n` fair rounds: deliver everything FIFO, end the round
    fn fair_rounds(&mut self, n: u32) -> Result<(), Violation> {
        let mut idle = 0;
        for _ in 0..n {
            while !self.wire.is_empty() {
                if self.verbose {
                    println!("--- suffix deliver {}", self.wire.pkts[0].key);
                }
                self.deliver(0)?;
            }
            self.end_round()?;
            if self.verbose {
                println!("--- suffix end-round\n{}", self.trace_state());
            }
            if self.wire.is_empty() {
                idle += 1;
                if idle > self.cfg.retx_threshold * (self.cfg.retx_max + 2) {
                    break;
                }
            } else {
                idle = 0;
            }
        }
        Ok(())
    }
}

impl System for LifeSys {
    type Cfg = LifeCfg;

    fn init(cfg: &LifeCfg) -> Self {
        let kc = KernelConfig::default()
            .mtu(1500)
            .send_buf_cap(8)
            .recv_buf_cap(8)
            .default_backlog(cfg.backlog)
            .retx_threshold(cfg.retx_threshold)
            .retx_max(cfg.retx_max);
        let mut net = Net::with_config(kc);
        let c = net.add_host(cip());
        let s = net.add_host(sip());
        let guard = net.enter();
        turmoil_net::verif_set_ephemeral_range(cip(), EPH);
        let mut sys = LifeSys {
            exec: Executor::new(),
            sh: Rc::new(RefCell::new(Sh::default())),
            cfg: cfg.clone(),
            hosts: [c, s],
            wire: Wire::default(),
            drops_left: cfg.drops,
            attempt: 0,
            cphase: CPhase::Idle,
            connect_task: None,
            accept_task: None,
            listener_drops: 0,
            relistens: 0,
            refusal_ok: false,
            timeout_ok: cfg.drops > 0,
            syn_ports: vec![],
            accepted_peers: vec![],
            states_seen: vec![],
            feats: vec![],
            dropped: vec![],
            verbose: false,
            guard,
        };
        if cfg.start_listening {
            sys.listen().expect("initial listen");
        }
        sys
    }

    fn actions(&self, out: &mut Vec<u16>) {
        if self.wire.max_age() < self.cfg.d && self.wire.len() <= self.cfg.w {
            out.push(A_END);
        }
        let sh = self.sh.borrow();
        match self.cphase {
            CPhase::Idle => {
                if self.attempt < self.cfg.attempts {
                    out.push(A_C_CONNECT);
                }
            }
            CPhase::Connecting => out.push(A_C_CANCEL),
            CPhase::Connected => {
                if self.cfg.allow_write && !sh.c_wrote && !sh.c_shut {
                    out.push(A_C_WRITE);
                }
                if !sh.c_shut {
                    out.push(A_C_SHUT);
                }
                out.push(A_C_DROP);
            }
            CPhase::Done => {}
        }
        if sh.listener.is_some() {
            if self.accept_task.is_none() {
                out.push(A_S_ACCEPT);
            }
            if self.cfg.allow_listener_drop && self.listener_drops < 1 {
                out.push(A_S_LDROP);
            }
        } else if self.relistens < 1 {
            out.push(A_S_LISTEN);
        }
        if sh.s_streams.iter().any(|s| s.is_some()) {
            if self.cfg.allow_write && !sh.s_wrote && !sh.s_shut {
                out.push(A_S_WRITE);
            }
            if !sh.s_shut {
                out.push(A_S_SHUT);
            }
            out.push(A_S_DROP);
        }
        drop(sh);
        let pos = self.wire.distinct_positions();
        for &i in &pos {
            out.push(A_DELIVER + i as u16);
        }
        if self.drops_left > 0 {
            for &i in &pos {
                out.push(A_DROP + i as u16);
            }
        }
    }

    fn describe(&self, a: u16) -> String {
        match a {
            A_END => "end-round".into(),
            A_C_CONNECT => "client: connect".into(),
            A_C_CANCEL => "client: cancel pending connect".into(),
            A_C_WRITE => "client: write 1 byte".into(),
            A_C_SHUT => "client: shutdown".into(),
            A_C_DROP => "client: drop stream".into(),
            A_S_ACCEPT => "server: accept".into(),
            A_S_WRITE => "server: write 1 byte".into(),
            A_S_SHUT => "server: shutdown".into(),
            A_S_DROP => "server: drop accepted stream".into(),
            A_S_LDROP => "server: drop listener".into(),
            A_S_LISTEN => "server: bind listener again".into(),
            a if a >= A_DROP => format!("DROP {}", self.wire.pkts[(a - A_DROP) as usize].key),
            a => format!("deliver {}", self.wire.pkts[(a - A_DELIVER) as usize].key),
        }
    }

    fn apply(&mut self, a: u16) -> Result<(), Violation> {
        let name = match a {
            A_C_CONNECT => "connect",
            A_C_CANCEL => "cancel",
            A_C_WRITE => "cwrite",
            A_C_SHUT => "cshut",
            A_C_DROP => "cdrop",
            A_S_ACCEPT => "accept",
            A_S_WRITE => "swrite",
            A_S_SHUT => "sshut",
            A_S_DROP => "sdrop",
            A_S_LDROP => "ldrop",
            A_S_LISTEN => "listen",
            _ => "",
        };
        if !name.is_empty() {
            self.feat_action(name);
        }
        let r = (|| -> Result<(), Violation> {
            match a {
                A_END => self.end_round(),
                A_C_CONNECT => {
                    self.attempt += 1;
                    self.cphase = CPhase::Connecting;
                    self.refusal_ok = false;
                    self.timeout_ok = self.cfg.drops > self.drops_left || self.cfg.drops > 0;
                    self.sh.borrow_mut().c_result = None;
                    self.spawn_connect();
                    self.run_tasks()
                }
                A_C_CANCEL => {
                    self.cancel_connect();
                    self.run_tasks()
                }
                A_C_WRITE => {
                    self.try_write(0)?;
                    self.run_tasks()
                }
                A_C_SHUT => {
                    self.shutdown(0)?;
                    self.run_tasks()
                }
                A_C_DROP => {
                    self.drop_client_stream();
                    self.run_tasks()
                }
                A_S_ACCEPT => {
                    self.spawn_accept();
                    self.run_tasks()
                }
                A_S_WRITE => {
                    self.try_write(1)?;
                    self.run_tasks()
                }
                A_S_SHUT => {
                    self.shutdown(1)?;
                    self.run_tasks()
                }
                A_S_DROP => {
                    self.drop_server_stream();
                    self.run_tasks()
                }
                A_S_LDROP => {
                    self.listener_drops += 1;
                    // unaccepted children are reset: a refusal of the pending connect is justified
                    self.refusal_ok = true;
                    self.drop_listener();
                    self.run_tasks()
                }
                A_S_LISTEN => {
                    self.relistens += 1;
                    // while connections accepted from the old listener still exist
                    // (possibly lingering in a close state, not yet reaped) they hold
                    // the port, and AddrInUse is the documented answer; with an empty
                    // binding table the bind must succeed
                    let bindings = turmoil_net::verif_counts(sip()).1;
                    match self.listen() {
                        Ok(()) => {}
                        Err(v) if bindings > 0 => {
                            self.sh.borrow_mut().log.push(format!("listen failed: {}", v.detail.len()));
                        }
                        Err(v) => return Err(v),
                    }
                    self.run_tasks()
                }
                a if a >= A_DROP => {
                    let p = self.wire.take((a - A_DROP) as usize);
                    self.drops_left -= 1;
                    self.dropped.push(pkt_kind(&p.pkt).to_string());
                    self.run_tasks()
                }
                a => self.deliver((a - A_DELIVER) as usize),
            }
        })();
        self.note_states();
        r.map_err(|v| self.sign(v))
    }

    fn digest(&self) -> u128 {
        let mut d = Digest::new();
        d.add_str(&turmoil_net::verif_dump());
        self.wire.digest_into(&mut d);
        d.add(&self.exec.shape());
        let sh = self.sh.borrow();
        d.add(&sh.log);
        d.add(&(sh.c_stream.is_some(), sh.c_wrote, sh.c_shut, sh.listener.is_some(), sh.s_wrote, sh.s_shut));
        d.add(&sh.s_streams.iter().map(|s| s.is_some()).collect::<Vec<_>>());
        d.add(&(self.drops_left, self.attempt, &self.cphase, self.listener_drops, self.relistens));
        d.add(&(self.refusal_ok, self.timeout_ok, self.connect_task.is_some(), self.accept_task.is_some()));
        d.add(&self.syn_ports);
        d.finish()
    }

    fn features(&self, out: &mut Vec<&'static str>) {
        out.extend(self.states_seen.iter().copied());
        out.extend(self.feats.iter().copied());
    }

    fn finish(mut self) -> (u64, Option<Violation>) {
        let pre = Digest::of64(&self.sh.borrow().log);
        let r = (|| -> Result<(), Violation> {
            // 1. both applications let go of every connection they hold
            if self.connect_task.is_some() {
                self.cancel_connect();
            }
            if self.sh.borrow().c_stream.is_some() {
                self.drop_client_stream();
            }
            while self.server_stream_idx().is_some() {
                self.drop_server_stream();
            }
            self.run_tasks()?;
            // accept whatever is still queued and drop it, as long as a listener exists
            let h = self.cfg.horizon();
            self.fair_rounds(h)?;
            if self.sh.borrow().listener.is_some() {
                for _ in 0..4 {
                    if self.accept_task.is_none() {
                        self.spawn_accept();
                    }
                    self.run_tasks()?;
                    while self.server_stream_idx().is_some() {
                        self.drop_server_stream();
                    }
                }
                if let Some(t) = self.accept_task.take() {
                    self.cur(1);
                    self.exec.cancel(t);
                }
                self.fair_rounds(h)?;
            }
            // 2. reclamation: only the listener (if any) may remain
            let want_s = if self.sh.borrow().listener.is_some() { (1, 1, 0) } else { (0, 0, 0) };
            let got_c = turmoil_net::verif_counts(cip());
            let got_s = turmoil_net::verif_counts(sip());
            if got_c != (0, 0, 0) || got_s != want_s {
                return Err(Violation::new(
                    "leak",
                    format!(
                        "after every connection was closed or dropped and {} fair rounds ran: client (sockets, bindings, connections) = {:?} (want (0, 0, 0)), server = {:?} (want {:?})",
                        h, got_c, got_s, want_s
                    ),
                ));
            }
            // 3. no stale entry swallows later use: re-bind, then two more connections so
            //    that both ephemeral ports (and therefore every earlier 4-tuple) are reused
            if self.sh.borrow().listener.is_none() {
                self.listen()?;
            }
            for round in 0..2 {
                self.sh.borrow_mut().c_result = None;
                self.spawn_connect();
                self.run_tasks_noharvest()?;
                self.spawn_accept();
                self.run_tasks_noharvest()?;
                self.fair_rounds(h)?;
                let res = self.sh.borrow().c_result.clone();
                let accepted = self.server_stream_idx().is_some();
                if res != Some(Ok(())) || !accepted {
                    return Err(Violation::new(
                        "reuse",
                        format!(
                            "follow-up connection {} (reusing an earlier port / 4-tuple) did not establish: connect={:?} accepted={}",
                            round, res, accepted
                        ),
                    ));
                }
                self.connect_task = None;
                self.accept_task = None;
                self.cur(0);
                let s = self.sh.borrow_mut().c_stream.take();
                drop(s);
                while self.server_stream_idx().is_some() {
                    self.drop_server_stream();
                }
                self.fair_rounds(h)?;
            }
            let got_c = turmoil_net::verif_counts(cip());
            let got_s = turmoil_net::verif_counts(sip());
            if got_c != (0, 0, 0) || got_s != (1, 1, 0) {
                return Err(Violation::new(
                    "leak",
                    format!("after the follow-up connections were dropped: client = {:?}, server = {:?} (want (0,0,0) / (1,1,0))", got_c, got_s),
                ));
            }
            Ok(())
        })();
        let outcome = Digest::of64(&(pre, &self.sh.borrow().log));
        (outcome, r.err().map(|v| self.sign(v)))
    }
}

impl LifeSys {
    fn run_tasks_noharvest(&mut self) -> Result<(), Violation> {
        let hosts = self.hosts;
        self.exec.run_until_stalled(10_000, |tag| turmoil_net::set_current(hosts[tag as usize]));
        Ok(())
    }
}
