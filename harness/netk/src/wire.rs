//! The harness is the wire: packets between `egress_all` and `deliver`.

use std::cell::{Cell, RefCell};
use std::future::Future;
use std::net::{IpAddr, SocketAddr};
use std::pin::Pin;
use std::task::{Context, Poll, Waker};

use turmoil_net::{Packet, Transport};

/// A packet in flight plus its age in egress rounds.
#[derive(Clone, Debug)]
pub struct InFlight {
    pub pkt: Packet,
    pub age: u32,
    pub key: String,
}

pub fn pkt_key(p: &Packet) -> String {
    match &p.payload {
        Transport::Tcp(s) => {
            let mut f = String::new();
            if s.flags.syn {
                f.push('S');
            }
            if s.flags.ack {
                f.push('A');
            }
            if s.flags.fin {
                f.push('F');
            }
            if s.flags.rst {
                f.push('R');
            }
            if s.flags.psh {
                f.push('P');
            }
            format!(
                "T {}:{}>{}:{} {} seq={} ack={} wnd={} len={} {:?}",
                p.src,
                s.src_port,
                p.dst,
                s.dst_port,
                f,
                s.seq,
                s.ack,
                s.window,
                s.payload.len(),
                &s.payload[..]
            )
        }
        Transport::Udp(d) => format!(
            "U {}:{}>{}:{} len={} {:?}",
            p.src,
            d.src_port,
            p.dst,
            d.dst_port,
            d.payload.len(),
            &d.payload[..]
        ),
    }
}

/// Short packet kind for signatures / human output: SYN, SYNACK, ACK, DATA, FIN, RST, UDP
pub fn pkt_kind(p: &Packet) -> &'static str {
    match &p.payload {
        Transport::Udp(_) => "UDP",
        Transport::Tcp(s) => {
            if s.flags.rst {
                "RST"
            } else if s.flags.syn && s.flags.ack {
                "SYNACK"
            } else if s.flags.syn {
                "SYN"
            } else if s.flags.fin {
                "FIN"
            } else if !s.payload.is_empty() {
                "DATA"
            } else {
                "ACK"
            }
        }
    }
}

#[derive(Default)]
pub struct Wire {
    pub pkts: Vec<InFlight>,
}

impl Wire {
    /// Add freshly emitted packets (age 0) and keep the wire canonically sorted so that
    /// positions are canonical and identical packets are adjacent.
    pub fn add(&mut self, ps: impl IntoIterator<Item = Packet>) {
        for p in ps {
            let key = pkt_key(&p);
            self.pkts.push(InFlight { pkt: p, age: 0, key });
        }
        self.sort();
    }
    pub fn sort(&mut self) {
        // oldest first, then canonical key
        self.pkts.sort_by(|a, b| b.age.cmp(&a.age).then_with(|| a.key.cmp(&b.key)));
    }
    pub fn age_all(&mut self) {
        for p in &mut self.pkts {
            p.age += 1;
        }
    }
    pub fn max_age(&self) -> u32 {
        self.pkts.iter().map(|p| p.age).max().unwrap_or(0)
    }
    pub fn len(&self) -> usize {
        self.pkts.len()
    }
    pub fn is_empty(&self) -> bool {
        self.pkts.is_empty()
    }
    pub fn take(&mut self, i: usize) -> InFlight {
        self.pkts.remove(i)
    }
    /// positions that are the first of a run of identical (key, age) packets
    pub fn distinct_positions(&self) -> Vec<usize> {
        let mut out = vec![];
        for i in 0..self.pkts.len() {
            if i == 0 || self.pkts[i].key != self.pkts[i - 1].key || self.pkts[i].age != self.pkts[i - 1].age {
                out.push(i);
            }
        }
        out
    }
    pub fn digest_into(&self, d: &mut vx_core::Digest) {
        d.add(&(self.pkts.len() as u32));
        for p in &self.pkts {
            d.add(&p.key);
            d.add(&p.age);
        }
    }
}

/// A token gate: an application policy that acts "once per environment action".
#[derive(Default)]
pub struct Gate {
    tokens: Cell<u32>,
    open: Cell<bool>,
    waker: RefCell<Option<Waker>>,
}

impl Gate {
    pub fn new_open() -> Self {
        let g = Gate::default();
        g.open.set(true);
        g
    }
    pub fn grant(&self) {
        self.tokens.set(1);
        if let Some(w) = self.waker.borrow_mut().take() {
            w.wake();
        }
    }
    pub fn open(&self) {
        self.open.set(true);
        if let Some(w) = self.waker.borrow_mut().take() {
            w.wake();
        }
    }
    pub fn is_open(&self) -> bool {
        self.open.get()
    }
    pub fn tokens(&self) -> u32 {
        self.tokens.get()
    }
    pub fn pass(&self) -> GatePass<'_> {
        GatePass(self)
    }
}

pub struct GatePass<'a>(&'a Gate);
impl Future for GatePass<'_> {
    type Output = ();
    fn poll(self: Pin<&mut Self>, cx: &mut Context<'_>) -> Poll<()> {
        let g = self.0;
        if g.open.get() {
            return Poll::Ready(());
        }
        if g.tokens.get() > 0 {
            g.tokens.set(g.tokens.get() - 1);
            return Poll::Ready(());
        }
        *g.waker.borrow_mut() = Some(cx.waker().clone());
        Poll::Pending
    }
}

pub fn sa(ip: IpAddr, port: u16) -> SocketAddr {
    SocketAddr::new(ip, port)
}

pub fn errk(e: &std::io::Error) -> String {
    match e.raw_os_error() {
        Some(n) => format!("os{n}"),
        None => format!("{:?}", e.kind()),
    }
}
