//! Engine E, rule chains (C19).
//!
//! (i) decision clauses on a hand-driven `Net`/`EnterGuard` (every install point is
//!     reachable there): first non-Pass in installation order decides, guard lifetime,
//!     loopback / own-address traffic is never shown to rules.
//! (ii) timing clauses inside the built-in fixtures on tokio's paused clock.
//!
//! Both are stateless choice trees enumerated completely by `explore_dfs`.

use std::cell::RefCell;
use std::net::{IpAddr, SocketAddr};
use std::rc::Rc;
use std::time::Duration;

use turmoil_net::shim::tokio::net::UdpSocket;
use turmoil_net::{Net, Packet, RuleGuard, Transport, Verdict};
use vx_core::dfs::Exec;
use vx_core::exec::Executor;
use vx_core::{Chooser, Digest, Violation};

const C: &str = "10.0.0.1";
const S1: &str = "10.0.0.2";
const S2: &str = "10.0.0.3";
const PORT: u16 = 9;

fn ip(s: &str) -> IpAddr {
    s.parse().unwrap()
}

/// verdict families a rule can be given (its whole per-packet verdict function)
#[derive(Clone, Copy, Debug, PartialEq, Eq, Hash)]
enum Fam {
    Pass,
    Drop,
    Deliver0,
    DropOdd,
    DeliverToS1,
    DropFromServers,
}
const FAMS: [Fam; 6] = [Fam::Pass, Fam::Drop, Fam::Deliver0, Fam::DropOdd, Fam::DeliverToS1, Fam::DropFromServers];

fn fam_verdict(f: Fam, tag: u8, src: IpAddr, dst: IpAddr) -> Verdict {
    match f {
        Fam::Pass => Verdict::Pass,
        Fam::Drop => Verdict::Drop,
        Fam::Deliver0 => Verdict::Deliver(Duration::ZERO),
        Fam::DropOdd => {
            if tag % 2 == 1 {
                Verdict::Drop
            } else {
                Verdict::Pass
            }
        }
        Fam::DeliverToS1 => {
            if dst == ip(S1) {
                Verdict::Deliver(Duration::ZERO)
            } else {
                Verdict::Pass
            }
        }
        Fam::DropFromServers => {
            if src != ip(C) {
                Verdict::Drop
            } else {
                Verdict::Pass
            }
        }
    }
}

fn tag_of(p: &Packet) -> u8 {
    match &p.payload {
        Transport::Udp(d) => d.payload.first().copied().unwrap_or(0),
        Transport::Tcp(_) => 0,
    }
}

#[derive(Clone, Copy, Debug, PartialEq, Eq)]
enum Install {
    Permanent,
    GuardFromEnter,
    GuardFromTask,
    Forgotten,
}

struct MRule {
    id: usize,
    fam: Fam,
    alive: bool,
}

type CallLog = Rc<RefCell<Vec<(usize, u8)>>>;

fn mk_rule(id: usize, fam: Fam, log: CallLog) -> impl FnMut(&Packet) -> Verdict + 'static {
    move |p: &Packet| {
        let t = tag_of(p);
        log.borrow_mut().push((id, t));
        fam_verdict(fam, t, p.src, p.dst)
    }
}

fn block_on<T: 'static>(host: turmoil_net::HostId, fut: impl std::future::Future<Output = T> + 'static) -> T {
    let out: Rc<RefCell<Option<T>>> = Rc::new(RefCell::new(None));
    let o = out.clone();
    let mut ex = Executor::new();
    ex.spawn(0, async move {
        *o.borrow_mut() = Some(fut.await);
    });
    ex.run_until_stalled(100, |_| turmoil_net::set_current(host));
    let r = out.borrow_mut().take();
    r.expect("future completes without packet exchange")
}

/// (i) decision clauses. `events` = number of events after the permanent prefix.
pub fn decision_scenario(ch: &mut Chooser, events: usize, max_rules: usize) -> Exec {
    let calls: CallLog = Rc::new(RefCell::new(vec![]));
    let mut model: Vec<MRule> = vec![];
    let mut obs: Vec<String> = vec![];
    let mut net = Net::new();
    // setup phase: up to `max_rules` rules exist before the first event, so that short
    // event sequences already reach chains of three rules (remove one, then send).
    // Permanent rules are installed before `enter`.
    const SETUP_FAMS: [Fam; 4] = [Fam::Pass, Fam::Drop, Fam::Deliver0, Fam::DropOdd];
    let n_perm = ch.choose("n_permanent", 3.min(max_rules + 1));
    let n_pre = ch.choose("n_preinstalled", max_rules + 1 - n_perm);
    let events = if events > 2 { (events.saturating_sub(n_perm + n_pre)).max(2) } else { events };
    for _ in 0..n_perm {
        let fam = *ch.of("perm_fam", &SETUP_FAMS);
        let id = model.len();
        net.rule(mk_rule(id, fam, calls.clone()));
        model.push(MRule { id, fam, alive: true });
        obs.push(format!("install#{id} permanent {fam:?}"));
    }
    let hc = net.add_host(ip(C));
    let h1 = net.add_host(ip(S1));
    let h2 = net.add_host(ip(S2));
    let guard = net.enter();
    let hosts = [hc, h1, h2];
    let ips = [ip(C), ip(S1), ip(S2)];
    let mut socks = vec![];
    for (i, h) in hosts.iter().enumerate() {
        let sa = SocketAddr::new("0.0.0.0".parse().unwrap(), PORT);
        let s = block_on(*h, async move { UdpSocket::bind(sa).await }).expect("bind");
        let _ = i;
        socks.push(s);
    }
    let mut guards: Vec<(usize, RuleGuard)> = vec![];
    for _ in 0..n_pre {
        let kinds = [Install::GuardFromEnter, Install::GuardFromTask, Install::Forgotten];
        let kind = *ch.of("pre_kind", &kinds);
        let fam = *ch.of("pre_fam", &SETUP_FAMS);
        let id = model.len();
        let r = mk_rule(id, fam, calls.clone());
        match kind {
            Install::GuardFromEnter => guards.push((id, guard.rule(r))),
            Install::GuardFromTask => {
                let g = block_on(hc, async move { turmoil_net::rule(r) });
                guards.push((id, g));
            }
            _ => guard.rule(r).forget(),
        }
        model.push(MRule { id, fam, alive: true });
        obs.push(format!("install#{id} {kind:?} {fam:?}"));
    }
    let mut tag: u8 = 0;
    let mut violation: Option<Violation> = None;
    let mut feats: Vec<&'static str> = vec![];

    'ev: for _ in 0..events {
        // menu: 0 = send, 1 = install, 2 = remove a live guard
        let mut menu = vec![0u8];
        if model.len() < max_rules {
            menu.push(1);
        }
        if !guards.is_empty() {
            menu.push(2);
        }
        match *ch.of("event", &menu) {
            1 => {
                let kinds = [Install::GuardFromEnter, Install::GuardFromTask, Install::Forgotten];
                let kind = *ch.of("install_kind", &kinds);
                let fam = *ch.of("fam", &FAMS);
                let id = model.len();
                let r = mk_rule(id, fam, calls.clone());
                match kind {
                    Install::GuardFromEnter => guards.push((id, guard.rule(r))),
                    Install::GuardFromTask => {
                        let g = block_on(hc, async move { turmoil_net::rule(r) });
                        guards.push((id, g));
                    }
                    Install::Forgotten => guard.rule(r).forget(),
                    Install::Permanent => unreachable!(),
                }
                model.push(MRule { id, fam, alive: true });
                obs.push(format!("install#{id} {kind:?} {fam:?}"));
            }
            2 => {
                let k = ch.choose("remove_which", guards.len());
                let (id, g) = guards.remove(k);
                if ch.flag("guard_dropped_by_a_contained_unwind") {
                    // the guard goes out of scope because its owner panics; the panic is
                    // caught, the thread lives on: dropped is dropped
                    let _ = vx_core::catch(move || {
                        let _owned = g;
                        panic!("the guard's owner gives up");
                    });
                } else {
                    drop(g);
                }
                model[id].alive = false;
                obs.push(format!("remove#{id}"));
                feats.push("removed");
            }
            _ => {
                // send one tagged datagram
                let routes: [(usize, IpAddr, usize); 5] = [
                    (0, ip(S1), 1),
                    (0, ip(S2), 2),
                    (1, ip(C), 0),
                    (0, "127.0.0.1".parse().unwrap(), 0),
                    (0, ip(C), 0),
                ];
                let (from, dst, to) = *ch.of("route", &routes);
                tag += 1;
                turmoil_net::set_current(hosts[from]);
                let before = calls.borrow().len();
                if let Err(e) = socks[from].try_send_to(&[tag], SocketAddr::new(dst, PORT)) {
                    violation = Some(Violation::new("send", format!("send failed: {e}")));
                    break 'ev;
                }
                // the hand-driven fabric: egress, evaluate, deliver / drop
                let mut out = vec![];
                guard.egress_all(&mut out);
                let local = dst.is_loopback() || dst == ips[from];
                let mut verdicts = vec![];
                for p in out {
                    let v = guard.evaluate(&p);
                    verdicts.push(v);
                    match v {
                        Verdict::Drop => {}
                        _ => guard.deliver(p),
                    }
                }
                // reference evaluation
                let mut want_calls = vec![];
                let mut want_verdict = Verdict::Pass;
                if !local {
                    for r in model.iter().filter(|r| r.alive) {
                        want_calls.push((r.id, tag));
                        let v = fam_verdict(r.fam, tag, ips[from], dst);
                        if v != Verdict::Pass {
                            want_verdict = v;
                            break;
                        }
                    }
                }
                let got_calls: Vec<(usize, u8)> = calls.borrow()[before..].to_vec();
                let want_recv = local || want_verdict != Verdict::Drop;
                turmoil_net::set_current(hosts[to]);
                let mut buf = [0u8; 4];
                let mut got = vec![];
                while let Ok((n, f)) = socks[to].try_recv_from(&mut buf) {
                    got.push((buf[..n].to_vec(), f.ip()));
                }
                obs.push(format!("send tag{tag} {}->{} calls={:?} verdicts={:?} recv={:?}", from, dst, got_calls, verdicts, got));
                if local {
                    feats.push("loopback");
                }
                if got_calls != want_calls {
                    violation = Some(Violation::new(
                        "consulted",
                        format!(
                            "datagram tag{tag} host{from}->{dst}: rules consulted (id, tag) = {:?}, reference chain says {:?} (alive rules in installation order: {:?})",
                            got_calls,
                            want_calls,
                            model.iter().filter(|r| r.alive).map(|r| (r.id, r.fam)).collect::<Vec<_>>()
                        ),
                    ));
                    break 'ev;
                }
                if !local && verdicts != vec![want_verdict] {
                    violation = Some(Violation::new(
                        "verdict",
                        format!("datagram tag{tag} host{from}->{dst}: evaluate returned {:?}, first non-Pass rule says {:?}", verdicts, want_verdict),
                    ));
                    break 'ev;
                }
                let src_seen = if dst.is_loopback() { "127.0.0.1".parse().unwrap() } else { ips[from] };
                let want_got: Vec<(Vec<u8>, IpAddr)> = if want_recv { vec![(vec![tag], src_seen)] } else { vec![] };
                if got != want_got {
                    violation = Some(Violation::new(
                        "delivery",
                        format!("datagram tag{tag} host{from}->{dst}: receiver observed {:?}, expected {:?}", got, want_got),
                    ));
                    break 'ev;
                }
                // nobody else may have received anything
                for (j, s) in socks.iter().enumerate() {
                    if j == to {
                        continue;
                    }
                    turmoil_net::set_current(hosts[j]);
                    if let Ok((n, f)) = s.try_recv_from(&mut buf) {
                        violation = Some(Violation::new(
                            "delivery",
                            format!("datagram tag{tag}: host{j} received {:?} from {f} although it was not the destination", &buf[..n]),
                        ));
                        break 'ev;
                    }
                }
            }
        }
    }
    // teardown in an order that keeps the Net installed while sockets drop
    for (i, s) in socks.drain(..).enumerate() {
        turmoil_net::set_current(hosts[i]);
        drop(s);
    }
    drop(guards);
    drop(guard);
    if let Some(v) = violation.as_mut() {
        v.sig = format!("{}|decision", v.clause);
        v.actions = obs.clone();
    }
    Exec { outcome: Digest::of64(&obs), violation, features: feats }
}

// ---------------------------------------------------------------------------------
// (ii) timing clauses inside the fixtures

#[derive(Clone, Copy, Debug, PartialEq, Eq, Hash)]
enum TV {
    Pass,
    Drop,
    D0,
    DHalf,
    D1,
    D2Half,
}
const TVS: [TV; 6] = [TV::Pass, TV::Drop, TV::D0, TV::DHalf, TV::D1, TV::D2Half];

fn tv_verdict(t: TV) -> Verdict {
    match t {
        TV::Pass => Verdict::Pass,
        TV::Drop => Verdict::Drop,
        TV::D0 => Verdict::Deliver(Duration::ZERO),
        TV::DHalf => Verdict::Deliver(Duration::from_micros(500)),
        TV::D1 => Verdict::Deliver(Duration::from_millis(1)),
        TV::D2Half => Verdict::Deliver(Duration::from_micros(2500)),
    }
}
fn tv_delay_us(t: TV) -> Option<u64> {
    match t {
        TV::Pass | TV::D0 => Some(0),
        TV::Drop => None,
        TV::DHalf => Some(500),
        TV::D1 => Some(1000),
        TV::D2Half => Some(2500),
    }
}

const TICK_US: u64 = 1000;

/// n datagrams client -> server(s); datagram i is sent `gap_i` ticks after the previous
/// one and is given verdict `tv_i` by a task-installed rule.
pub fn timing_scenario(ch: &mut Chooser, n: usize) -> Exec {
    let mut plan: Vec<(u64, TV, usize)> = vec![]; // (gap ticks, verdict, server index)
    for _ in 0..n {
        let gap = ch.choose("gap_ticks", 2) as u64;
        let tv = *ch.of("verdict", &TVS);
        let srv = ch.choose("server", 2);
        plan.push((gap, tv, srv));
    }
    let second_rule = ch.choose("shadow_rule", 2) == 1; // a later rule that would drop everything
    let plan2 = plan.clone();
    let recv_log: Rc<RefCell<Vec<(u8, usize, u64)>>> = Rc::new(RefCell::new(vec![]));
    let send_log: Rc<RefCell<Vec<(u8, u64)>>> = Rc::new(RefCell::new(vec![]));
    let calls: Rc<RefCell<Vec<(u8, u8)>>> = Rc::new(RefCell::new(vec![]));

    let mk_server = |idx: usize, log: Rc<RefCell<Vec<(u8, usize, u64)>>>| async move {
        let s = UdpSocket::bind(("0.0.0.0".parse::<IpAddr>().unwrap(), PORT)).await.unwrap();
        let start = tokio::time::Instant::now();
        let mut buf = [0u8; 4];
        loop {
            let (n, _) = s.recv_from(&mut buf).await.unwrap();
            let at = start.elapsed().as_micros() as u64;
            if n > 0 {
                log.borrow_mut().push((buf[0], idx, at));
            }
        }
    };
    let (rl, sl, cl) = (recv_log.clone(), send_log.clone(), calls.clone());
    let result = vx_core::catch(move || {
        turmoil_net::fixture::ClientServer::new()
            .server(S1, mk_server(0, rl.clone()))
            .server(S2, mk_server(1, rl.clone()))
            .run(C, async move {
                let start = tokio::time::Instant::now();
                let table = plan2.clone();
                let cl1 = cl.clone();
                let _g1 = turmoil_net::rule(move |p: &Packet| {
                    let t = tag_of(p);
                    cl1.borrow_mut().push((1, t));
                    if t >= 1 && (t as usize) <= table.len() {
                        tv_verdict(table[t as usize - 1].1)
                    } else {
                        Verdict::Pass
                    }
                });
                let cl2 = cl.clone();
                let _g2 = if second_rule {
                    Some(turmoil_net::rule(move |p: &Packet| {
                        cl2.borrow_mut().push((2, tag_of(p)));
                        Verdict::Drop
                    }))
                } else {
                    None
                };
                let s = UdpSocket::bind(("0.0.0.0".parse::<IpAddr>().unwrap(), PORT)).await.unwrap();
                for (i, (gap, _tv, srv)) in plan2.iter().enumerate() {
                    if *gap > 0 {
                        tokio::time::sleep(Duration::from_micros(gap * TICK_US)).await;
                    }
                    let dst = if *srv == 0 { S1 } else { S2 };
                    let at = start.elapsed().as_micros() as u64;
                    s.send_to(&[i as u8 + 1], (dst.parse::<IpAddr>().unwrap(), PORT)).await.unwrap();
                    sl.borrow_mut().push((i as u8 + 1, at));
                }
                tokio::time::sleep(Duration::from_millis(8)).await;
            })
    });
    let mut obs: Vec<String> = vec![];
    let mut violation = None;
    let mut feats = vec![];
    match result {
        Err(p) => violation = Some(Violation::new("panic", format!("fixture run panicked: {p}"))),
        Ok(()) => {
            let sends = send_log.borrow().clone();
            let recvs = recv_log.borrow().clone();
            obs.push(format!("plan={plan:?} shadow={second_rule} sends={sends:?} recvs={recvs:?} calls={:?}", calls.borrow()));
            // every datagram: expected arrival window
            let mut expected: Vec<(u8, usize, u64, u64)> = vec![]; // tag, server, lo, hi
            for (i, (_, tv, srv)) in plan.iter().enumerate() {
                let tag = i as u8 + 1;
                let Some(&(_, sent)) = sends.iter().find(|(t, _)| *t == tag) else {
                    violation = Some(Violation::new("send", format!("datagram {tag} was never sent")));
                    break;
                };
                let emit = (sent / TICK_US + 1) * TICK_US;
                // first rule decides unless it passes; then the shadow rule (Drop) decides
                let eff: Option<u64> = match tv {
                    TV::Pass => {
                        if second_rule {
                            None
                        } else {
                            Some(0)
                        }
                    }
                    other => tv_delay_us(*other),
                };
                match eff {
                    None => {
                        feats.push("dropped");
                        if let Some(r) = recvs.iter().find(|r| r.0 == tag) {
                            violation = Some(Violation::new(
                                "dropped-delivered",
                                format!("datagram {tag} was given Drop by the deciding rule but arrived at server{} at {}us", r.1, r.2),
                            ));
                        }
                    }
                    Some(d) => {
                        if d > 0 {
                            feats.push("delayed");
                        }
                        expected.push((tag, *srv, emit + d, emit + d + TICK_US));
                    }
                }
            }
            if violation.is_none() {
                for (tag, srv, lo, hi) in &expected {
                    let got: Vec<_> = recvs.iter().filter(|r| r.0 == *tag).collect();
                    if got.len() != 1 || got[0].1 != *srv {
                        violation = Some(Violation::new(
                            "delivery",
                            format!("datagram {tag}: expected exactly one arrival at server{srv}, observed {got:?}"),
                        ));
                        break;
                    }
                    let at = got[0].2;
                    if at < *lo || at > *hi {
                        violation = Some(Violation::new(
                            "deadline",
                            format!(
                                "datagram {tag}: left its host at {}us with delay {}us, arrived at {}us; allowed window [{}, {}]us",
                                lo - plan[*tag as usize - 1].1.us(),
                                plan[*tag as usize - 1].1.us(),
                                at,
                                lo,
                                hi
                            ),
                        ));
                        break;
                    }
                }
            }
            if violation.is_none() {
                // equal deadlines keep emission order (per destination)
                for a in &expected {
                    for b in &expected {
                        if a.0 < b.0 && a.1 == b.1 && a.2 == b.2 {
                            let pa = recvs.iter().position(|r| r.0 == a.0);
                            let pb = recvs.iter().position(|r| r.0 == b.0);
                            feats.push("equal-deadline");
                            if pa > pb {
                                violation = Some(Violation::new(
                                    "tie-order",
                                    format!("datagrams {} and {} have the same deadline {}us at server{} but arrived in the order {:?}", a.0, b.0, a.2, a.1, recvs),
                                ));
                            }
                        }
                    }
                }
            }
            if violation.is_none() {
                // consulted rules: rule 1 sees every datagram once; rule 2 only those rule 1 passed
                let c = calls.borrow();
                for (i, (_, tv, _)) in plan.iter().enumerate() {
                    let tag = i as u8 + 1;
                    let n1 = c.iter().filter(|x| **x == (1, tag)).count();
                    let n2 = c.iter().filter(|x| **x == (2, tag)).count();
                    let want2 = if second_rule && *tv == TV::Pass { 1 } else { 0 };
                    if n1 != 1 || n2 != want2 {
                        violation = Some(Violation::new(
                            "consulted",
                            format!("datagram {tag}: rule1 consulted {n1}x (want 1), shadow rule consulted {n2}x (want {want2}); delayed packets must not be re-evaluated"),
                        ));
                        break;
                    }
                }
            }
        }
    }
    if let Some(v) = violation.as_mut() {
        v.sig = format!("{}|timing", v.clause);
        v.actions = obs.clone();
    }
    Exec { outcome: Digest::of64(&obs), violation, features: feats }
}

impl TV {
    fn us(self) -> u64 {
        tv_delay_us(self).unwrap_or(0)
    }
}

/// loopback fixture: rules (even drop-everything) never see loopback traffic
pub fn lo_scenario(ch: &mut Chooser) -> Exec {
    let n = 1 + ch.choose("n", 3);
    let fam = *ch.of("fam", &[Fam::Drop, Fam::Deliver0, Fam::Pass]);
    let delay = ch.choose("delay_rule", 2) == 1;
    let calls = Rc::new(RefCell::new(0usize));
    let c2 = calls.clone();
    let got: Rc<RefCell<Vec<(u8, u64)>>> = Rc::new(RefCell::new(vec![]));
    let g2 = got.clone();
    let r = vx_core::catch(move || {
        turmoil_net::fixture::lo(async move {
            let c3 = c2.clone();
            let _g = turmoil_net::rule(move |p: &Packet| {
                *c3.borrow_mut() += 1;
                if delay {
                    Verdict::Deliver(Duration::from_millis(3))
                } else {
                    fam_verdict(fam, tag_of(p), p.src, p.dst)
                }
            });
            let a = UdpSocket::bind("127.0.0.1:9").await.unwrap();
            let b = UdpSocket::bind("127.0.0.1:10").await.unwrap();
            let start = tokio::time::Instant::now();
            for i in 0..n {
                a.send_to(&[i as u8 + 1], "127.0.0.1:10").await.unwrap();
            }
            let mut buf = [0u8; 4];
            for _ in 0..n {
                let r = tokio::time::timeout(Duration::from_millis(6), b.recv_from(&mut buf)).await;
                if let Ok(Ok((_, _))) = r {
                    g2.borrow_mut().push((buf[0], start.elapsed().as_micros() as u64));
                }
            }
        })
    });
    let mut violation = None;
    let obs = format!("n={n} fam={fam:?} delay={delay} got={:?} calls={}", got.borrow(), calls.borrow());
    match r {
        Err(p) => violation = Some(Violation::new("panic", format!("fixture::lo panicked: {p}"))),
        Ok(()) => {
            let want: Vec<u8> = (1..=n as u8).collect();
            let tags: Vec<u8> = got.borrow().iter().map(|x| x.0).collect();
            if *calls.borrow() != 0 {
                violation = Some(Violation::new("loopback-shown", format!("a rule was consulted {} times for loopback traffic", calls.borrow())));
            } else if tags != want || got.borrow().iter().any(|x| x.1 > 2 * TICK_US) {
                violation = Some(Violation::new(
                    "loopback-delivery",
                    format!("loopback datagrams {want:?} must arrive in order without rule-imposed loss/delay; observed {:?}", got.borrow()),
                ));
            }
        }
    }
    if let Some(v) = violation.as_mut() {
        v.sig = format!("{}|lo", v.clause);
        v.actions = vec![obs.clone()];
    }
    Exec { outcome: Digest::of64(&obs), violation, features: vec!["lo"] }
}

/// Identical datagrams (same endpoints, same payload) under a rule that delays every packet by
/// the same amount: packets that compare equal are still distinct packets -- each one is
/// delivered, once, inside its own window, in emission order.
pub fn identical_scenario(ch: &mut Chooser) -> Exec {
    let n = 2 + ch.choose("identical_datagrams", 3);
    let gaps: Vec<u64> = (0..n).map(|_| ch.choose("gap_ticks", 3) as u64).collect();
    let tv = *ch.of("delay", &[TV::DHalf, TV::D1, TV::D2Half]);
    let d_us = tv.us();
    let recv_log: Rc<RefCell<Vec<u64>>> = Rc::new(RefCell::new(vec![]));
    let send_log: Rc<RefCell<Vec<u64>>> = Rc::new(RefCell::new(vec![]));
    let (rl, sl) = (recv_log.clone(), send_log.clone());
    let gaps2 = gaps.clone();
    let result = vx_core::catch(move || {
        turmoil_net::fixture::ClientServer::new()
            .server(S1, async move {
                let s = UdpSocket::bind(("0.0.0.0".parse::<IpAddr>().unwrap(), PORT)).await.unwrap();
                let start = tokio::time::Instant::now();
                let mut buf = [0u8; 4];
                loop {
                    let (n, _) = s.recv_from(&mut buf).await.unwrap();
                    if n == 1 && buf[0] == 9 {
                        rl.borrow_mut().push(start.elapsed().as_micros() as u64);
                    }
                }
            })
            .run(C, async move {
                let start = tokio::time::Instant::now();
                let _g = turmoil_net::rule(move |p: &Packet| if tag_of(p) == 9 { tv_verdict(tv) } else { Verdict::Pass });
                let s = UdpSocket::bind(("0.0.0.0".parse::<IpAddr>().unwrap(), PORT)).await.unwrap();
                for gap in gaps2 {
                    if gap > 0 {
                        tokio::time::sleep(Duration::from_micros(gap * TICK_US)).await;
                    }
                    sl.borrow_mut().push(start.elapsed().as_micros() as u64);
                    s.send_to(&[9], (S1.parse::<IpAddr>().unwrap(), PORT)).await.unwrap();
                }
                tokio::time::sleep(Duration::from_millis(10)).await;
            })
    });
    let sends = send_log.borrow().clone();
    let recvs = recv_log.borrow().clone();
    let obs = format!("n={n} gaps={gaps:?} delay={d_us}us sends={sends:?} recvs={recvs:?}");
    let mut violation = None;
    match result {
        Err(p) => violation = Some(Violation::new("panic", format!("fixture run panicked: {p}"))),
        Ok(()) => {
            if recvs.len() != sends.len() {
                violation = Some(Violation::new(
                    "identical-datagrams",
                    format!("{} identical datagrams were sent under Deliver({d_us}us) and none was given Drop; {} arrived (send times {sends:?}, arrival times {recvs:?})", sends.len(), recvs.len()),
                ));
            } else {
                // k-th arrival belongs to the k-th emission (equal delays keep emission order)
                for (k, (s, r)) in sends.iter().zip(recvs.iter()).enumerate() {
                    let emit = (s / TICK_US + 1) * TICK_US;
                    if *r < emit + d_us || *r > emit + d_us + TICK_US {
                        violation = Some(Violation::new(
                            "deadline",
                            format!("identical datagram #{k}: left its host at {emit}us with delay {d_us}us, arrived at {r}us; allowed window [{}, {}]us", emit + d_us, emit + d_us + TICK_US),
                        ));
                        break;
                    }
                }
            }
        }
    }
    if let Some(v) = violation.as_mut() {
        v.sig = format!("identical|{}", v.clause);
        v.scenario = "c19-identical-datagrams".into();
        v.actions = vec![obs.clone()];
    }
    Exec { outcome: Digest::of64(&obs), violation, features: vec![] }
}
