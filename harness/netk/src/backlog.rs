//! C13, backlog clause: several connects at once against a listener with backlog B that
//! accepts only when the explorer says so. Every delivery order of the handshake packets
//! is explored; on every state the number of connections the listener holds unaccepted
//! (accept queue + half-open children, read from netstat) must not exceed B; after a fair
//! suffix every connect has resolved, and no more than B + (accepts performed) succeeded.

use std::cell::RefCell;
use std::net::{IpAddr, SocketAddr};
use std::rc::Rc;

use turmoil_net::shim::tokio::net::{TcpListener, TcpStream};
use turmoil_net::{EnterGuard, HostId, KernelConfig, Net};
use vx_core::exec::Executor;
use vx_core::{Digest, System, Violation};

use crate::wire::{errk, Wire};

#[derive(Clone, Debug)]
pub struct BkCfg {
    pub name: String,
    pub backlog: usize,
    pub connects: usize,
    pub accepts: usize,
    pub d: u32,
    pub w: usize,
    pub max_depth: usize,
}

impl BkCfg {
    pub fn describe(&self) -> String {
        format!("{} backlog={} simultaneous_connects={} accepts_allowed={} d={} W={} depth={}", self.name, self.backlog, self.connects, self.accepts, self.d, self.w, self.max_depth)
    }
}

fn cip() -> IpAddr {
    "10.0.0.1".parse().unwrap()
}
fn sip() -> IpAddr {
    "10.0.0.2".parse().unwrap()
}
const SPORT: u16 = 80;

#[derive(Default)]
struct Sh {
    results: Vec<Option<Result<(), String>>>,
    keep: Vec<TcpStream>,
    listener: Option<Rc<TcpListener>>,
    accepted: Vec<TcpStream>,
}

pub struct BacklogSys {
    exec: Executor,
    sh: Rc<RefCell<Sh>>,
    cfg: BkCfg,
    hosts: [HostId; 2],
    wire: Wire,
    accepts_done: usize,
    accept_task: Option<usize>,
    peak: usize,
    guard: EnterGuard,
}

pub const A_END: u16 = 0;
pub const A_ACCEPT: u16 = 1;
pub const A_DELIVER: u16 = 100;

impl BacklogSys {
    fn run_tasks(&mut self) -> Result<(), Violation> {
        let hosts = self.hosts;
        let polls = self.exec.run_until_stalled(10_000, |tag| turmoil_net::set_current(hosts[tag as usize]));
        if polls >= 10_000 {
            return Err(Violation::new("livelock", "tasks keep waking without quiescing".into()));
        }
        if let Some(t) = self.accept_task {
            if self.exec.is_done(t) {
                self.accept_task = None;
                self.accepts_done += 1;
            }
        }
        self.check()
    }

    /// unaccepted connections held by the listener: accept queue + half-open children
    fn held(&self) -> (usize, usize) {
        let ns = turmoil_net::netstat(sip());
        let q = ns.entries.iter().find(|e| e.state == Some(turmoil_net::NetstatState::Listen)).map(|l| l.recv_q).unwrap_or(0);
        let half = ns.entries.iter().filter(|e| e.state == Some(turmoil_net::NetstatState::SynReceived)).count();
        (q, half)
    }

    fn check(&mut self) -> Result<(), Violation> {
        let (q, half) = self.held();
        self.peak = self.peak.max(q + half);
        if q + half > self.cfg.backlog {
            return Err(Violation::new(
                "backlog",
                format!(
                    "the listener (backlog {}) holds {} established-but-unaccepted and {} half-open connections at once: a connection request must only be taken while the backlog has room",
                    self.cfg.backlog, q, half
                ),
            ));
        }
        Ok(())
    }

    fn end_round(&mut self) -> Result<(), Violation> {
        self.wire.age_all();
        let mut out = vec![];
        self.guard.egress_all(&mut out);
        self.wire.add(out);
        self.run_tasks()
    }

    fn deliver(&mut self, i: usize) -> Result<(), Violation> {
        let p = self.wire.take(i);
        self.guard.deliver(p.pkt);
        self.run_tasks()
    }

    fn accept(&mut self) {
        let sh = self.sh.clone();
        let l = sh.borrow().listener.clone();
        if let Some(l) = l {
            let t = self.exec.spawn(1, async move {
                if let Ok((s, _)) = l.accept().await {
                    sh.borrow_mut().accepted.push(s);
                }
            });
            self.accept_task = Some(t);
        }
    }
}

impl System for BacklogSys {
    type Cfg = BkCfg;

    fn init(cfg: &BkCfg) -> Self {
        let kc = KernelConfig::default().default_backlog(cfg.backlog).retx_threshold(2).retx_max(3);
        let mut net = Net::with_config(kc);
        let c = net.add_host(cip());
        let s = net.add_host(sip());
        let guard = net.enter();
        let mut sys = BacklogSys {
            exec: Executor::new(),
            sh: Rc::new(RefCell::new(Sh::default())),
            cfg: cfg.clone(),
            hosts: [c, s],
            wire: Wire::default(),
            accepts_done: 0,
            accept_task: None,
            peak: 0,
            guard,
        };
        // listener
        turmoil_net::set_current(s);
        {
            let mut ex = Executor::new();
            let sh = sys.sh.clone();
            ex.spawn(1, async move {
                if let Ok(l) = TcpListener::bind(SocketAddr::new("0.0.0.0".parse().unwrap(), SPORT)).await {
                    sh.borrow_mut().listener = Some(Rc::new(l));
                }
            });
            ex.run_until_stalled(10, |_| {});
        }
        // all connects start at once
        sys.sh.borrow_mut().results = vec![None; cfg.connects];
        for i in 0..cfg.connects {
            let sh = sys.sh.clone();
            sys.exec.spawn(0, async move {
                let r = TcpStream::connect(SocketAddr::new(sip(), SPORT)).await;
                let mut g = sh.borrow_mut();
                match r {
                    Ok(st) => {
                        g.keep.push(st);
                        g.results[i] = Some(Ok(()));
                    }
                    Err(e) => g.results[i] = Some(Err(errk(&e))),
                }
            });
        }
        let _ = sys.run_tasks();
        sys
    }

    fn actions(&self, out: &mut Vec<u16>) {
        if self.wire.max_age() < self.cfg.d && self.wire.len() <= self.cfg.w {
            out.push(A_END);
        }
        if self.accept_task.is_none() && self.accepts_done < self.cfg.accepts {
            out.push(A_ACCEPT);
        }
        for i in self.wire.distinct_positions() {
            out.push(A_DELIVER + i as u16);
        }
    }

    fn describe(&self, a: u16) -> String {
        match a {
            A_END => "end-round".into(),
            A_ACCEPT => "server calls accept".into(),
            x => format!("deliver {}", self.wire.pkts.get((x - A_DELIVER) as usize).map(|p| p.key.clone()).unwrap_or_default()),
        }
    }

    fn apply(&mut self, a: u16) -> Result<(), Violation> {
        match a {
            A_END => self.end_round(),
            A_ACCEPT => {
                self.accept();
                self.run_tasks()
            }
            x => self.deliver((x - A_DELIVER) as usize),
        }
    }

    fn digest(&self) -> u128 {
        let mut d = Digest::new();
        d.add_str(&turmoil_net::verif_dump());
        self.wire.digest_into(&mut d);
        d.add(&self.exec.shape());
        let sh = self.sh.borrow();
        d.add(&sh.results);
        d.add(&(sh.accepted.len(), self.accepts_done, self.accept_task.is_some()));
        d.finish()
    }

    fn features(&self, out: &mut Vec<&'static str>) {
        if self.peak >= self.cfg.backlog {
            out.push("backlog-full");
        }
        if self.accepts_done > 0 {
            out.push("accepted");
        }
    }

    fn finish(mut self) -> (u64, Option<Violation>) {
        let r = (|| -> Result<(), Violation> {
            // fair suffix: FIFO delivery, no loss, until every connect has resolved
            for _ in 0..40 {
                while !self.wire.is_empty() {
                    self.deliver(0)?;
                }
                self.end_round()?;
                if self.sh.borrow().results.iter().all(|r| r.is_some()) && self.wire.is_empty() {
                    break;
                }
            }
            let sh = self.sh.borrow();
            let ok = sh.results.iter().filter(|r| matches!(r, Some(Ok(())))).count();
            if sh.results.iter().any(|r| r.is_none()) {
                return Err(Violation::new("connect-hangs", format!("after 40 fair rounds a connect is still pending: {:?}", sh.results)));
            }
            if ok > self.cfg.backlog + self.accepts_done {
                return Err(Violation::new(
                    "backlog",
                    format!("{ok} connects succeeded against a listener with backlog {} that accepted {} connections", self.cfg.backlog, self.accepts_done),
                ));
            }
            if ok < self.cfg.backlog.min(self.cfg.connects) {
                return Err(Violation::new(
                    "connect-result",
                    format!("only {ok} of {} simultaneous connects succeeded although the backlog ({}) had room and nothing was lost: {:?}", self.cfg.connects, self.cfg.backlog, sh.results),
                ));
            }
            Ok(())
        })();
        let o = Digest::of64(&self.sh.borrow().results);
        (o, r.err())
    }
}
