//! C06, bounded delay without loss: a FIFO wire with a fixed one-way latency of L egress
//! rounds (no reordering, no drops), a writer that appends chunks on a schedule while
//! earlier data is still in flight, and a prompt reader. Whenever the round trip stays
//! below `retx_threshold * (retx_max + 1)` rounds the connection must not be aborted and
//! every byte, then EOF, must arrive. Spurious go-back-N retransmissions (RTT longer than
//! the retransmit threshold) re-chop the stream at other boundaries than the first
//! transmission used; this is where overlapping segments come from.

use std::future::Future;
use std::cell::RefCell;
use std::collections::VecDeque;
use std::net::{IpAddr, SocketAddr};
use std::rc::Rc;

use tokio::io::{AsyncReadExt, AsyncWriteExt};
use turmoil_net::shim::tokio::net::{TcpListener, TcpStream};
use turmoil_net::{KernelConfig, Net};
use vx_core::dfs::Exec;
use vx_core::exec::Executor;
use vx_core::{Chooser, Digest, Violation};

use crate::wire::errk;

pub fn scenario(ch: &mut Chooser, thorough: bool) -> Exec {
    let lat: u32 = 1 + ch.choose("one_way_latency_rounds_minus_1", if thorough { 10 } else { 8 }) as u32;
    let (thr, max) = *ch.of("retx(threshold,max)", &[(2u32, 4u32), (3, 5), (2, 3)]);
    let mss_mtu = *ch.of("mtu", &[42u32, 44, 1500]);
    let chunk = *ch.of("chunk_bytes", &[1usize, 3, 64]);
    let gap: u32 = *ch.of("rounds_between_writes", &[1u32, 2, 5, 12]);
    let nchunks = 4usize;
    let caps = *ch.of("send_recv_caps", &[(64usize, 64usize), (512, 512), (4, 64)]);
    if 2 * lat >= thr * (max + 1) {
        // outside "bounded delay": retransmit exhaustion would be legitimate
        return Exec { outcome: 1, violation: None, features: vec!["skipped-unbounded-delay"] };
    }
    let kc = KernelConfig::default().mtu(mss_mtu).send_buf_cap(caps.0).recv_buf_cap(caps.1).retx_threshold(thr).retx_max(max);
    let mut net = Net::with_config(kc);
    let (cip, sip): (IpAddr, IpAddr) = ("10.0.0.1".parse().unwrap(), "10.0.0.2".parse().unwrap());
    let c = net.add_host(cip);
    let s = net.add_host(sip);
    let hosts = [c, s];
    let guard = net.enter();
    let round: Rc<RefCell<u32>> = Rc::new(RefCell::new(0));
    #[derive(Default)]
    struct Log {
        wrote: usize,
        werr: Option<String>,
        read: Vec<u8>,
        eof: bool,
        rerr: Option<String>,
        conn: Option<String>,
    }
    let log: Rc<RefCell<Log>> = Rc::new(RefCell::new(Log::default()));
    let mut exec = Executor::new();
    {
        let log = log.clone();
        exec.spawn(1, async move {
            let Ok(l) = TcpListener::bind(SocketAddr::new(sip, 80)).await else { return };
            let Ok((mut st, _)) = l.accept().await else { return };
            let mut buf = [0u8; 128];
            loop {
                match st.read(&mut buf).await {
                    Ok(0) => {
                        log.borrow_mut().eof = true;
                        break;
                    }
                    Ok(n) => log.borrow_mut().read.extend_from_slice(&buf[..n]),
                    Err(e) => {
                        log.borrow_mut().rerr = Some(errk(&e));
                        break;
                    }
                }
            }
            std::future::pending::<()>().await;
        });
    }
    {
        let (log, round) = (log.clone(), round.clone());
        exec.spawn(0, async move {
            let mut st = match TcpStream::connect(SocketAddr::new(sip, 80)).await {
                Ok(s) => s,
                Err(e) => {
                    log.borrow_mut().conn = Some(errk(&e));
                    return;
                }
            };
            let start = *round.borrow();
            for i in 0..nchunks {
                // wait for this chunk's slot
                let due = start + gap * i as u32;
                std::future::poll_fn(|cx| {
                    if *round.borrow() >= due {
                        std::task::Poll::Ready(())
                    } else {
                        cx.waker().wake_by_ref();
                        std::task::Poll::Pending
                    }
                })
                .await;
                let data: Vec<u8> = (0..chunk).map(|k| ((i * chunk + k) % 251) as u8).collect();
                match st.write_all(&data).await {
                    Ok(()) => log.borrow_mut().wrote += chunk,
                    Err(e) => {
                        log.borrow_mut().werr = Some(errk(&e));
                        return;
                    }
                }
            }
            if let Err(e) = st.shutdown().await {
                log.borrow_mut().werr = Some(format!("shutdown {}", errk(&e)));
            }
            std::future::pending::<()>().await;
        });
    }
    // the wire: (round at which the packet is handed over, packet), FIFO
    let mut wire: VecDeque<(u32, turmoil_net::Packet)> = VecDeque::new();
    // a window of min(send cap, recv cap) bytes moves per round trip
    let per_rtt = caps.0.min(caps.1).max(1) as u32;
    let rtts = (nchunks * chunk) as u32 / per_rtt + nchunks as u32 + 8;
    let horizon = (2 * lat + 2) * rtts + gap * nchunks as u32 + thr * (max + 2) + 40;
    let mut violation: Option<Violation> = None;
    let mut retransmissions = 0u32;
    let mut seen: std::collections::BTreeSet<(IpAddr, u32, usize)> = Default::default();
    for r in 0..horizon {
        *round.borrow_mut() = r;
        while wire.front().map(|(t, _)| *t <= r).unwrap_or(false) {
            let (_, p) = wire.pop_front().unwrap();
            guard.deliver(p);
        }
        let polls = exec.run_until_stalled(2000, |tag| turmoil_net::set_current(hosts[tag as usize]));
        let _ = polls;
        let mut out = vec![];
        guard.egress_all(&mut out);
        for p in out {
            if let turmoil_net::Transport::Tcp(sg) = &p.payload {
                if !sg.payload.is_empty() && !seen.insert((p.src, sg.seq, sg.payload.len())) {
                    retransmissions += 1;
                }
            }
            if std::env::var_os("VX_TRACE").is_some() {
                eprintln!("round {r}: emit {}", crate::wire::pkt_key(&p));
            }
            wire.push_back((r + lat, p));
        }
        let l = log.borrow();
        if l.eof && l.read.len() == nchunks * chunk {
            break;
        }
        if l.werr.is_some() || l.rerr.is_some() || l.conn.is_some() {
            break;
        }
    }
    let l = log.borrow();
    let total = nchunks * chunk;
    let want: Vec<u8> = (0..total).map(|k| (k % 251) as u8).collect();
    if !want.starts_with(&l.read) {
        violation = Some(Violation::new("prefix", format!("the reader got {:?}, not a prefix of the {} bytes written", &l.read[..l.read.len().min(16)], total)));
    } else if l.conn.is_some() || l.werr.is_some() || l.rerr.is_some() {
        violation = Some(Violation::new(
            "aborted",
            format!(
                "no packet was lost and the round trip ({} rounds) is below retx_threshold x (retx_max + 1) = {}: connect {:?}, write error {:?} after {} of {total} bytes, read error {:?} after {} bytes",
                2 * lat,
                thr * (max + 1),
                l.conn,
                l.werr,
                l.wrote,
                l.rerr,
                l.read.len()
            ),
        ));
    } else if l.read.len() != total || !l.eof {
        violation = Some(Violation::new(
            "stall",
            format!("no packet was lost, round trip {} rounds: after {horizon} rounds the reader has {} of {total} bytes, EOF seen: {}", 2 * lat, l.read.len(), l.eof),
        ));
    }
    drop(l);
    drop(exec);
    drop(guard);
    let obs = format!("lat={lat} retx=({thr},{max}) mtu={mss_mtu} chunk={chunk} gap={gap} caps={caps:?} retransmissions={retransmissions}");
    let mut feats = vec![];
    if retransmissions > 0 {
        feats.push("spurious-retransmission");
    }
    if let Some(v) = violation.as_mut() {
        v.sig = format!("fixed-latency|{}", v.clause);
        v.scenario = format!("c06-fixedlat tier={} {obs}", if thorough { "thorough" } else { "quick" });
        v.actions = vec![obs.clone()];
    }
    Exec { outcome: Digest::of64(&obs), violation, features: feats }
}

/// Both directions at once, one side busy: side B streams a reply larger than A's receive
/// cap plus B's own send cap can hold and shuts down; A (the busy side) reads nothing for a
/// while, then writes a small request and shuts down, stays busy for longer than any
/// retransmit budget, and only then reads to EOF; B reads the request to EOF all along.
/// FIFO wire with a fixed latency, nothing lost: nobody may give up, both byte streams and
/// both EOFs arrive.
pub fn bidir_scenario(ch: &mut Chooser, thorough: bool) -> Exec {
    let lat: u32 = 1 + ch.choose("one_way_latency_rounds_minus_1", 3) as u32;
    let (thr, max) = *ch.of("retx(threshold,max)", &[(2u32, 4u32), (3, 5)]);
    let mtu = *ch.of("mtu", &[42u32, 1500]);
    let caps = *ch.of("send_recv_caps", &[(4usize, 4usize), (8, 4), (4, 8), (64, 64)]);
    let reply = *ch.of("reply_bytes", if thorough { &[3usize, 12, 40, 200][..] } else { &[12usize, 40][..] });
    let req = *ch.of("request_bytes", &[1usize, 5]);
    let busy1: u32 = *ch.of("busy_rounds_before_the_request", &[0u32, 5, 15]);
    let busy2: u32 = *ch.of("busy_rounds_after_the_request", &[0u32, 12, 30]);
    let busy_is_acceptor = ch.flag("the_busy_side_is_the_accepting_one");
    if 2 * lat >= thr * (max + 1) {
        return Exec { outcome: 1, violation: None, features: vec!["skipped-unbounded-delay"] };
    }
    let kc = KernelConfig::default().mtu(mtu).send_buf_cap(caps.0).recv_buf_cap(caps.1).retx_threshold(thr).retx_max(max);
    let mut net = Net::with_config(kc);
    let (cip, sip): (IpAddr, IpAddr) = ("10.0.0.1".parse().unwrap(), "10.0.0.2".parse().unwrap());
    let c = net.add_host(cip);
    let s = net.add_host(sip);
    let hosts = [c, s];
    let guard = net.enter();
    let round: Rc<RefCell<u32>> = Rc::new(RefCell::new(0));
    #[derive(Default)]
    struct Log {
        /// [busy side, streaming side]
        read: [Vec<u8>; 2],
        eof: [bool; 2],
        err: Vec<String>,
        done: [bool; 2],
    }
    let log: Rc<RefCell<Log>> = Rc::new(RefCell::new(Log::default()));
    async fn wait_rounds(round: &Rc<RefCell<u32>>, n: u32) {
        let until = *round.borrow() + n;
        std::future::poll_fn(|cx| {
            if *round.borrow() >= until {
                std::task::Poll::Ready(())
            } else {
                cx.waker().wake_by_ref();
                std::task::Poll::Pending
            }
        })
        .await;
    }
    let pat_reply = |k: usize| (k % 241) as u8;
    let pat_req = |k: usize| (200 + k % 50) as u8;
    // the busy side
    let busy = {
        let (log, round) = (log.clone(), round.clone());
        move |mut st: TcpStream| async move {
            wait_rounds(&round, busy1).await;
            let data: Vec<u8> = (0..req).map(pat_req).collect();
            if let Err(e) = st.write_all(&data).await {
                log.borrow_mut().err.push(format!("busy side: write of the request: {}", errk(&e)));
            }
            if let Err(e) = st.shutdown().await {
                log.borrow_mut().err.push(format!("busy side: shutdown: {}", errk(&e)));
            }
            wait_rounds(&round, busy2).await;
            let mut buf = [0u8; 64];
            loop {
                match st.read(&mut buf).await {
                    Ok(0) => {
                        log.borrow_mut().eof[0] = true;
                        break;
                    }
                    Ok(n) => log.borrow_mut().read[0].extend_from_slice(&buf[..n]),
                    Err(e) => {
                        log.borrow_mut().err.push(format!("busy side: read: {}", errk(&e)));
                        break;
                    }
                }
            }
            log.borrow_mut().done[0] = true;
            std::future::pending::<()>().await;
        }
    };
    // the streaming side
    let streaming = {
        let log = log.clone();
        move |st: TcpStream| async move {
            let (mut rd, mut wr) = st.into_split();
            let l1 = log.clone();
            let w = async move {
                let data: Vec<u8> = (0..reply).map(pat_reply).collect();
                if let Err(e) = wr.write_all(&data).await {
                    l1.borrow_mut().err.push(format!("streaming side: write of the reply: {}", errk(&e)));
                }
                if let Err(e) = wr.shutdown().await {
                    l1.borrow_mut().err.push(format!("streaming side: shutdown: {}", errk(&e)));
                }
                wr
            };
            let l2 = log.clone();
            let r = async move {
                let mut buf = [0u8; 64];
                loop {
                    match rd.read(&mut buf).await {
                        Ok(0) => {
                            l2.borrow_mut().eof[1] = true;
                            break;
                        }
                        Ok(n) => l2.borrow_mut().read[1].extend_from_slice(&buf[..n]),
                        Err(e) => {
                            l2.borrow_mut().err.push(format!("streaming side: read: {}", errk(&e)));
                            break;
                        }
                    }
                }
                rd
            };
            let (_w, _r) = tokio::join!(w, r);
            log.borrow_mut().done[1] = true;
            std::future::pending::<()>().await;
        }
    };
    let mut exec = Executor::new();
    {
        let log = log.clone();
        let (busy, streaming) = (busy.clone(), streaming.clone());
        exec.spawn(1, async move {
            let Ok(l) = TcpListener::bind(SocketAddr::new(sip, 80)).await else { return };
            let st = match l.accept().await {
                Ok((st, _)) => st,
                Err(e) => {
                    log.borrow_mut().err.push(format!("accept: {}", errk(&e)));
                    return;
                }
            };
            if busy_is_acceptor {
                busy(st).await
            } else {
                streaming(st).await
            }
        });
    }
    {
        let log = log.clone();
        exec.spawn(0, async move {
            let st = match TcpStream::connect(SocketAddr::new(sip, 80)).await {
                Ok(s) => s,
                Err(e) => {
                    log.borrow_mut().err.push(format!("connect: {}", errk(&e)));
                    return;
                }
            };
            if busy_is_acceptor {
                streaming(st).await
            } else {
                busy(st).await
            }
        });
    }
    let mut wire: VecDeque<(u32, turmoil_net::Packet)> = VecDeque::new();
    let per_rtt = caps.0.min(caps.1).max(1) as u32;
    let horizon = busy1 + busy2 + (2 * lat + 2) * (reply as u32 / per_rtt + 12) + thr * (max + 2) + 40;
    for r in 0..horizon {
        *round.borrow_mut() = r;
        while wire.front().map(|(t, _)| *t <= r).unwrap_or(false) {
            let (_, p) = wire.pop_front().unwrap();
            guard.deliver(p);
        }
        exec.run_until_stalled(4000, |tag| turmoil_net::set_current(hosts[tag as usize]));
        let mut out = vec![];
        guard.egress_all(&mut out);
        for p in out {
            if std::env::var_os("VX_TRACE").is_some() {
                eprintln!("round {r}: emit {}", crate::wire::pkt_key(&p));
            }
            wire.push_back((r + lat, p));
        }
        let l = log.borrow();
        if (l.done[0] && l.done[1]) || !l.err.is_empty() {
            break;
        }
    }
    let l = log.borrow();
    let want_reply: Vec<u8> = (0..reply).map(pat_reply).collect();
    let want_req: Vec<u8> = (0..req).map(pat_req).collect();
    let mut violation: Option<Violation> = None;
    if !want_reply.starts_with(&l.read[0]) || !want_req.starts_with(&l.read[1]) {
        violation = Some(Violation::new("prefix", format!("busy side read {:?}, streaming side read {:?}: not prefixes of what was written", &l.read[0][..l.read[0].len().min(16)], l.read[1])));
    } else if !l.err.is_empty() {
        violation = Some(Violation::new(
            "aborted",
            format!("no packet was lost and the round trip ({} rounds) is below retx_threshold x (retx_max + 1) = {}: {:?}", 2 * lat, thr * (max + 1), l.err),
        ));
    } else if l.read[0].len() != reply || l.read[1].len() != req || !l.eof[0] || !l.eof[1] {
        violation = Some(Violation::new(
            "stall",
            format!(
                "no packet was lost, round trip {} rounds: after {horizon} rounds the busy side has {} of {reply} reply bytes (EOF {}), the streaming side {} of {req} request bytes (EOF {})",
                2 * lat,
                l.read[0].len(),
                l.eof[0],
                l.read[1].len(),
                l.eof[1]
            ),
        ));
    }
    drop(l);
    drop(exec);
    drop(guard);
    let obs = format!("lat={lat} retx=({thr},{max}) mtu={mtu} caps={caps:?} reply={reply} req={req} busy=({busy1},{busy2}) busy_is_acceptor={busy_is_acceptor}");
    if let Some(v) = violation.as_mut() {
        v.sig = format!("fixed-latency-bidir|{}", v.clause);
        v.scenario = format!("c06-bidir tier={} {obs}", if thorough { "thorough" } else { "quick" });
        v.actions = vec![obs.clone()];
    }
    Exec { outcome: Digest::of64(&obs), violation, features: vec![] }
}

/// C13, two loss episodes on one connection, each within the budget of the segment it hits:
/// the first `k` copies of the SYN-ACK are lost, and later the first `j` copies of the first
/// segment the accepting side sends after the handshake (its data or its FIN). FIFO wire,
/// one round of latency, nothing else lost. Both sides must see the other's bytes and EOF
/// without an error, and once both have closed, every socket-table entry except the
/// listener is reclaimed within a bounded number of rounds.
pub fn lossy_phases_scenario(ch: &mut Chooser, _thorough: bool) -> Exec {
    let (thr, max) = *ch.of("retx(threshold,max)", &[(2u32, 8u32), (3, 6), (2, 4)]);
    let k: u32 = ch.choose("syn_ack_copies_lost", (max + 1) as usize) as u32;
    let j: u32 = ch.choose("copies_of_the_acceptor's_first_segment_lost", (max + 1) as usize) as u32;
    // each episode stays within "bounded loss": the copy that gets through is acknowledged
    // (round trip 2 rounds plus slack) before the segment's retransmit budget runs out
    if [k, j].iter().any(|x| (x + 1) * thr + 4 >= (max + 1) * thr) {
        return Exec { outcome: 1, violation: None, features: vec!["skipped-outside-bounded-loss"] };
    }
    let s_data: usize = *ch.of("acceptor_writes_bytes_before_closing", &[0usize, 3]);
    let client_closes_first = ch.flag("connector_shuts_down_before_reading");
    let kc = KernelConfig::default().mtu(1500).retx_threshold(thr).retx_max(max);
    let mut net = Net::with_config(kc);
    let (cip, sip): (IpAddr, IpAddr) = ("10.0.0.1".parse().unwrap(), "10.0.0.2".parse().unwrap());
    let c = net.add_host(cip);
    let s = net.add_host(sip);
    let hosts = [c, s];
    let guard = net.enter();
    #[derive(Default)]
    struct Log {
        c_read: Vec<u8>,
        c_eof: bool,
        s_eof: bool,
        err: Vec<String>,
        done: [bool; 2],
    }
    let log: Rc<RefCell<Log>> = Rc::new(RefCell::new(Log::default()));
    let mut exec = Executor::new();
    {
        let log = log.clone();
        exec.spawn(1, async move {
            let Ok(l) = TcpListener::bind(SocketAddr::new(sip, 80)).await else { return };
            let mut st = match l.accept().await {
                Ok((st, _)) => st,
                Err(e) => {
                    log.borrow_mut().err.push(format!("accept: {}", errk(&e)));
                    return;
                }
            };
            if s_data > 0 {
                let data: Vec<u8> = (0..s_data).map(|i| 40 + i as u8).collect();
                if let Err(e) = st.write_all(&data).await {
                    log.borrow_mut().err.push(format!("acceptor: write: {}", errk(&e)));
                }
            }
            if let Err(e) = st.shutdown().await {
                log.borrow_mut().err.push(format!("acceptor: shutdown: {}", errk(&e)));
            }
            let mut buf = [0u8; 16];
            loop {
                match st.read(&mut buf).await {
                    Ok(0) => {
                        log.borrow_mut().s_eof = true;
                        break;
                    }
                    Ok(_) => {}
                    Err(e) => {
                        log.borrow_mut().err.push(format!("acceptor: read: {}", errk(&e)));
                        break;
                    }
                }
            }
            drop(st);
            log.borrow_mut().done[1] = true;
            // the listener stays
            std::future::pending::<()>().await;
            drop(l);
        });
    }
    {
        let log = log.clone();
        exec.spawn(0, async move {
            let mut st = match TcpStream::connect(SocketAddr::new(sip, 80)).await {
                Ok(s) => s,
                Err(e) => {
                    log.borrow_mut().err.push(format!("connect: {}", errk(&e)));
                    return;
                }
            };
            if client_closes_first {
                if let Err(e) = st.shutdown().await {
                    log.borrow_mut().err.push(format!("connector: shutdown: {}", errk(&e)));
                }
            }
            let mut buf = [0u8; 16];
            loop {
                match st.read(&mut buf).await {
                    Ok(0) => {
                        log.borrow_mut().c_eof = true;
                        break;
                    }
                    Ok(n) => log.borrow_mut().c_read.extend_from_slice(&buf[..n]),
                    Err(e) => {
                        log.borrow_mut().err.push(format!("connector: read: {}", errk(&e)));
                        break;
                    }
                }
            }
            if !client_closes_first {
                if let Err(e) = st.shutdown().await {
                    log.borrow_mut().err.push(format!("connector: shutdown: {}", errk(&e)));
                }
            }
            drop(st);
            log.borrow_mut().done[0] = true;
        });
    }
    let mut wire: VecDeque<(u32, turmoil_net::Packet)> = VecDeque::new();
    let (mut lost_synack, mut lost_first) = (0u32, 0u32);
    let mut first_seq: Option<u32> = None;
    let budget = thr * (max + 2);
    let horizon = 4 * budget + 60;
    let mut closed_at: Option<u32> = None;
    let mut reclaimed_at: Option<u32> = None;
    let mut dropped: Vec<String> = vec![];
    for r in 0..horizon {
        while wire.front().map(|(t, _)| *t <= r).unwrap_or(false) {
            let (_, p) = wire.pop_front().unwrap();
            guard.deliver(p);
        }
        exec.run_until_stalled(4000, |tag| turmoil_net::set_current(hosts[tag as usize]));
        let mut out = vec![];
        guard.egress_all(&mut out);
        for p in out {
            let mut lose = false;
            if let turmoil_net::Transport::Tcp(sg) = &p.payload {
                if p.src == sip {
                    if sg.flags.syn && sg.flags.ack {
                        if lost_synack < k {
                            lost_synack += 1;
                            lose = true;
                        }
                    } else if !sg.flags.rst && (!sg.payload.is_empty() || sg.flags.fin) {
                        let f = *first_seq.get_or_insert(sg.seq);
                        if f == sg.seq && lost_first < j {
                            lost_first += 1;
                            lose = true;
                        }
                    }
                }
            }
            if lose {
                dropped.push(crate::wire::pkt_key(&p));
            } else {
                wire.push_back((r + 1, p));
            }
        }
        let l = log.borrow();
        if l.done[0] && l.done[1] && closed_at.is_none() {
            closed_at = Some(r);
        }
        if closed_at.is_some() && reclaimed_at.is_none() {
            let (cc, sc) = (turmoil_net::verif_counts(cip), turmoil_net::verif_counts(sip));
            if cc.0 == 0 && sc.0 == 1 {
                reclaimed_at = Some(r);
                break;
            }
        }
        if !l.err.is_empty() && wire.is_empty() && r > 3 * budget {
            break;
        }
    }
    let l = log.borrow();
    let want: Vec<u8> = (0..s_data).map(|i| 40 + i as u8).collect();
    let mut violation: Option<Violation> = None;
    let losses = format!("{k} SYN-ACK copies and {j} copies of the acceptor's first segment were lost (retransmit budget {max} per segment), nothing else");
    if !l.err.is_empty() {
        violation = Some(Violation::new("aborted", format!("{losses}: {:?}", l.err)));
    } else if l.c_read != want || !l.c_eof || !l.s_eof {
        violation = Some(Violation::new(
            "stall",
            format!("{losses}: after {horizon} rounds the connector read {:?} of {:?} (EOF {}), the acceptor saw EOF: {}", l.c_read, want, l.c_eof, l.s_eof),
        ));
    } else if reclaimed_at.is_none() {
        violation = Some(Violation::new(
            "not-reclaimed",
            format!(
                "{losses}: both sides closed in round {:?}; {horizon} rounds later the socket tables hold (sockets, bindings, connections) connector {:?}, acceptor {:?} (expected nothing but the listener)",
                closed_at,
                turmoil_net::verif_counts(cip),
                turmoil_net::verif_counts(sip)
            ),
        ));
    }
    drop(l);
    drop(exec);
    drop(guard);
    let obs = format!("retx=({thr},{max}) k={k} j={j} s_data={s_data} client_closes_first={client_closes_first} dropped={dropped:?} closed_at={closed_at:?} reclaimed_at={reclaimed_at:?}");
    if let Some(v) = violation.as_mut() {
        v.sig = format!("lossy-phases|{}", v.clause);
        v.scenario = format!("c13-lossy-phases {obs}");
        v.actions = vec![obs.clone()];
    }
    Exec { outcome: Digest::of64(&obs), violation, features: vec![] }
}

/// C13, one side goes away while the other keeps writing: the connector drops its stream
/// (without reading) after `a_wait` rounds; the acceptor writes `n` bytes in one call
/// (blocking on its send buffer if need be), then drops. No loss, FIFO wire, one round of
/// latency. After both have dropped, everything but the listener has to be reclaimed within
/// a bounded number of rounds, whatever the write ran into (an error is fine, a hang is not).
pub fn orphan_scenario(ch: &mut Chooser, _thorough: bool) -> Exec {
    let caps = *ch.of("send_recv_caps", &[(2usize, 2usize), (8, 4), (4, 8), (64, 64)]);
    let n: usize = *ch.of("acceptor_writes_bytes", &[1usize, 3, 10, 40]);
    let a_wait: u32 = *ch.of("connector_drops_after_rounds", &[0u32, 2, 6]);
    let b_wait: u32 = *ch.of("acceptor_starts_writing_after_rounds", &[0u32, 4]);
    let kc = KernelConfig::default().mtu(42).send_buf_cap(caps.0).recv_buf_cap(caps.1);
    let mut net = Net::with_config(kc);
    let (cip, sip): (IpAddr, IpAddr) = ("10.0.0.1".parse().unwrap(), "10.0.0.2".parse().unwrap());
    let c = net.add_host(cip);
    let s = net.add_host(sip);
    let hosts = [c, s];
    let guard = net.enter();
    let round: Rc<RefCell<u32>> = Rc::new(RefCell::new(0));
    #[derive(Default)]
    struct Log {
        done: [bool; 2],
        notes: Vec<String>,
    }
    let log: Rc<RefCell<Log>> = Rc::new(RefCell::new(Log::default()));
    async fn wait_rounds(round: &Rc<RefCell<u32>>, n: u32) {
        let until = *round.borrow() + n;
        std::future::poll_fn(|cx| {
            if *round.borrow() >= until {
                std::task::Poll::Ready(())
            } else {
                cx.waker().wake_by_ref();
                std::task::Poll::Pending
            }
        })
        .await;
    }
    let mut exec = Executor::new();
    {
        let (log, round) = (log.clone(), round.clone());
        exec.spawn(1, async move {
            let Ok(l) = TcpListener::bind(SocketAddr::new(sip, 80)).await else { return };
            let Ok((mut st, _)) = l.accept().await else { return };
            wait_rounds(&round, b_wait).await;
            let data: Vec<u8> = (0..n).map(|i| i as u8).collect();
            let r = st.write_all(&data).await;
            log.borrow_mut().notes.push(format!("acceptor write_all({n}) -> {:?}", r.map_err(|e| errk(&e))));
            drop(st);
            log.borrow_mut().done[1] = true;
            std::future::pending::<()>().await;
            drop(l);
        });
    }
    {
        let (log, round) = (log.clone(), round.clone());
        exec.spawn(0, async move {
            let st = match TcpStream::connect(SocketAddr::new(sip, 80)).await {
                Ok(s) => s,
                Err(e) => {
                    log.borrow_mut().notes.push(format!("connect: {}", errk(&e)));
                    log.borrow_mut().done[0] = true;
                    return;
                }
            };
            wait_rounds(&round, a_wait).await;
            drop(st);
            log.borrow_mut().done[0] = true;
        });
    }
    let mut wire: VecDeque<(u32, turmoil_net::Packet)> = VecDeque::new();
    let horizon = 400u32;
    let mut closed_at: Option<u32> = None;
    let mut reclaimed_at: Option<u32> = None;
    for r in 0..horizon {
        *round.borrow_mut() = r;
        while wire.front().map(|(t, _)| *t <= r).unwrap_or(false) {
            let (_, p) = wire.pop_front().unwrap();
            guard.deliver(p);
        }
        exec.run_until_stalled(4000, |tag| turmoil_net::set_current(hosts[tag as usize]));
        let mut out = vec![];
        guard.egress_all(&mut out);
        for p in out {
            if std::env::var_os("VX_TRACE").is_some() {
                eprintln!("round {r}: emit {}", crate::wire::pkt_key(&p));
            }
            wire.push_back((r + 1, p));
        }
        let l = log.borrow();
        if l.done[0] && l.done[1] && closed_at.is_none() {
            closed_at = Some(r);
        }
        if closed_at.is_some() {
            let (cc, sc) = (turmoil_net::verif_counts(cip), turmoil_net::verif_counts(sip));
            if cc.0 == 0 && sc.0 == 1 {
                reclaimed_at = Some(r);
                break;
            }
        }
    }
    let l = log.borrow();
    let mut violation: Option<Violation> = None;
    if !(l.done[0] && l.done[1]) {
        violation = Some(Violation::new(
            "stall",
            format!("the connector dropped its stream, the acceptor's write_all({n}) neither completed nor failed within {horizon} rounds (caps {caps:?}); notes {:?}", l.notes),
        ));
    } else if reclaimed_at.is_none() {
        violation = Some(Violation::new(
            "not-reclaimed",
            format!(
                "both sides dropped the connection by round {:?}; {horizon} rounds into the run the socket tables hold (sockets, bindings, connections) connector {:?}, acceptor {:?}, expected nothing but the listener; notes {:?}",
                closed_at,
                turmoil_net::verif_counts(cip),
                turmoil_net::verif_counts(sip),
                l.notes
            ),
        ));
    }
    drop(l);
    drop(exec);
    drop(guard);
    let obs = format!("caps={caps:?} n={n} a_wait={a_wait} b_wait={b_wait} closed_at={closed_at:?} reclaimed_at={reclaimed_at:?}");
    if let Some(v) = violation.as_mut() {
        v.sig = format!("orphan|{}", v.clause);
        v.scenario = format!("c13-orphan {obs}");
        v.actions = vec![obs.clone()];
    }
    Exec { outcome: Digest::of64(&obs), violation, features: vec![] }
}

/// C13 / C17 on a dual-stack host: the server owns an IPv4 and an IPv6 address and listens on
/// the same port with two wildcard listeners, `0.0.0.0:80` and `[::]:80`. A client connects
/// through one family; while its handshake is half done (SYN delivered, SYN-ACK not yet) or
/// before it starts, the server closes one of the two listeners. Closing the listener of the
/// *other* family must not disturb the connection: the connect succeeds and the remaining
/// listener hands it out. Closing the listener the SYN reached may refuse or reset it.
pub fn dualstack_scenario(ch: &mut Chooser, _thorough: bool) -> Exec {
    let client_v6 = ch.flag("client_connects_over_ipv6");
    let close_v6 = ch.flag("the_ipv6_listener_is_closed");
    let when = ch.choose("listener_closed(before the SYN|SYN delivered, SYN-ACK in flight|after the handshake, before accept)", 3);
    let mut net = Net::with_config(KernelConfig::default());
    let (c4, c6): (IpAddr, IpAddr) = ("10.0.0.1".parse().unwrap(), "fd00::1".parse().unwrap());
    let (s4, s6): (IpAddr, IpAddr) = ("10.0.0.2".parse().unwrap(), "fd00::2".parse().unwrap());
    let c = net.add_host(vec![c4, c6]);
    let s = net.add_host(vec![s4, s6]);
    let hosts = [c, s];
    let guard = net.enter();
    #[derive(Default)]
    struct Log {
        connect: Option<Result<SocketAddr, String>>,
        accepted: Vec<(bool, SocketAddr)>,
        binds: Vec<String>,
        close_now: bool,
        closed: bool,
        accept_gate: bool,
    }
    let log: Rc<RefCell<Log>> = Rc::new(RefCell::new(Log::default()));
    let mut exec = Executor::new();
    {
        let log = log.clone();
        exec.spawn(1, async move {
            let l4 = TcpListener::bind(SocketAddr::new("0.0.0.0".parse().unwrap(), 80)).await;
            let l6 = TcpListener::bind(SocketAddr::new("::".parse().unwrap(), 80)).await;
            log.borrow_mut().binds.push(format!("0.0.0.0:80 {:?}, [::]:80 {:?}", l4.as_ref().map(|_| ()).map_err(|e| errk(e)), l6.as_ref().map(|_| ()).map_err(|e| errk(e))));
            let (Ok(l4), Ok(l6)) = (l4, l6) else { return };
            let (mut l4, mut l6) = (Some(l4), Some(l6));
            let mut keep = vec![];
            loop {
                if log.borrow().close_now && !log.borrow().closed {
                    if close_v6 {
                        l6 = None;
                    } else {
                        l4 = None;
                    }
                    log.borrow_mut().closed = true;
                }
                if log.borrow().accept_gate {
                    for (is6, l) in [(false, &l4), (true, &l6)] {
                        if let Some(l) = l {
                            let w = std::task::Waker::noop();
                            let mut cx = std::task::Context::from_waker(w);
                            if let std::task::Poll::Ready(Ok((st, peer))) = l.poll_accept(&mut cx) {
                                log.borrow_mut().accepted.push((is6, peer));
                                keep.push(st);
                            }
                        }
                    }
                }
                // polled once per round by the driver
                let mut first = true;
                std::future::poll_fn(|cx| {
                    if first {
                        first = false;
                        cx.waker().wake_by_ref();
                        std::task::Poll::Pending
                    } else {
                        std::task::Poll::Ready(())
                    }
                })
                .await;
            }
        });
    }
    let started: Rc<RefCell<bool>> = Rc::new(RefCell::new(false));
    {
        let (log, started) = (log.clone(), started.clone());
        exec.spawn(0, async move {
            std::future::poll_fn(|cx| {
                if *started.borrow() {
                    std::task::Poll::Ready(())
                } else {
                    cx.waker().wake_by_ref();
                    std::task::Poll::Pending
                }
            })
            .await;
            let dst = SocketAddr::new(if client_v6 { s6 } else { s4 }, 80);
            match TcpStream::connect(dst).await {
                Ok(st) => {
                    log.borrow_mut().connect = Some(Ok(st.local_addr().unwrap()));
                    std::future::pending::<()>().await;
                    drop(st);
                }
                Err(e) => log.borrow_mut().connect = Some(Err(errk(&e))),
            }
        });
    }
    // rounds: 0 setup; `when`==0: close in round 1, connect starts in round 2;
    // `when`==1: connect starts in round 1, its SYN is delivered in round 2 and the listener is
    // closed in that same round before the SYN-ACK is put on the wire; `when`==2: close once
    // the client is connected, accept only afterwards
    let mut wire: VecDeque<turmoil_net::Packet> = VecDeque::new();
    let mut obs: Vec<String> = vec![];
    for r in 0..40u32 {
        if when == 0 {
            if r == 1 {
                log.borrow_mut().close_now = true;
            }
            if r == 2 {
                *started.borrow_mut() = true;
            }
            log.borrow_mut().accept_gate = true;
        } else if when == 1 {
            if r == 1 {
                *started.borrow_mut() = true;
            }
            let closed = log.borrow().closed;
            log.borrow_mut().accept_gate = closed;
        } else {
            if r == 1 {
                *started.borrow_mut() = true;
            }
            if log.borrow().connect.is_some() {
                log.borrow_mut().close_now = true;
            }
            let closed = log.borrow().closed;
            log.borrow_mut().accept_gate = closed;
        }
        // deliver what was put on the wire in the previous round
        let batch: Vec<_> = wire.drain(..).collect();
        let mut syn_seen = false;
        for p in batch {
            if let turmoil_net::Transport::Tcp(sg) = &p.payload {
                if sg.flags.syn && !sg.flags.ack {
                    syn_seen = true;
                }
            }
            guard.deliver(p);
        }
        if when == 1 && syn_seen {
            // the SYN has just reached the server: close before anything else happens
            log.borrow_mut().close_now = true;
        }
        exec.run_until_stalled(4000, |tag| turmoil_net::set_current(hosts[tag as usize]));
        let mut out = vec![];
        guard.egress_all(&mut out);
        for p in out {
            obs.push(format!("round {r}: {}", crate::wire::pkt_key(&p)));
            wire.push_back(p);
        }
    }
    let l = log.borrow();
    let same_family = client_v6 == close_v6;
    let mut violation: Option<Violation> = None;
    let what = format!(
        "client connects over {}, the {} wildcard listener is closed {}",
        if client_v6 { "IPv6" } else { "IPv4" },
        if close_v6 { "[::]:80" } else { "0.0.0.0:80" },
        ["before the SYN", "while the handshake is half done", "after the handshake, before accept"][when]
    );
    if l.binds.iter().any(|b| b.contains("Err")) {
        // the two wildcard binds exclude each other in this stack: nothing to judge
    } else if !same_family {
        let ok = matches!(&l.connect, Some(Ok(_))) && l.accepted.len() == 1 && l.accepted[0].0 == client_v6 && Some(l.accepted[0].1) == l.connect.clone().and_then(|c| c.ok());
        if !ok {
            violation = Some(Violation::new(
                "other-family-listener-close",
                format!("{what}: connect returned {:?}, accepted (via IPv6 listener?, peer) {:?}; the listener of the other family is untouched, so the connect must succeed and be handed out by it exactly once", l.connect, l.accepted),
            ));
        }
    } else {
        // the listener the SYN reaches is closed: no success may be reported without an accept
        // on a live listener, and nothing may be accepted by the other family's listener
        if l.accepted.iter().any(|a| a.0 != client_v6) {
            violation = Some(Violation::new("misrouted-syn", format!("{what}: the connection was accepted by the listener of the other family: {:?}", l.accepted)));
        } else if l.connect.is_none() {
            violation = Some(Violation::new("hang", format!("{what}: the connect neither succeeded nor failed within 40 rounds")));
        }
    }
    drop(l);
    drop(exec);
    drop(guard);
    let o = format!("client_v6={client_v6} close_v6={close_v6} when={when} log: connect={:?} accepted={:?} binds={:?}", log.borrow().connect, log.borrow().accepted, log.borrow().binds);
    if let Some(v) = violation.as_mut() {
        v.sig = format!("dual-stack|{}", v.clause);
        v.scenario = format!("c13-dualstack {o}");
        obs.push(o.clone());
        v.actions = obs.clone();
    }
    Exec { outcome: Digest::of64(&o), violation, features: vec![] }
}

/// C13, graceful close by drop with bytes still in flight: the connector writes `n` bytes and
/// drops its stream `w` rounds later (0 = at once, the bytes are unacknowledged or not even
/// sent yet); the acceptor reads to end-of-file and drops. Fixed latency, no loss. The
/// acceptor must get every byte and then EOF (the dropping side had nothing unread, so its
/// close is a FIN behind the data), and afterwards only the listener is left.
pub fn drop_after_write_scenario(ch: &mut Chooser, _thorough: bool) -> Exec {
    let lat: u32 = 1 + ch.choose("one_way_latency_rounds_minus_1", 3) as u32;
    let caps = *ch.of("send_recv_caps", &[(4usize, 4usize), (64, 64), (512, 8)]);
    let mtu = *ch.of("mtu", &[42u32, 1500]);
    let n: usize = *ch.of("bytes_written_before_the_drop", &[1usize, 3, 40]);
    let w: u32 = *ch.of("rounds_between_write_and_drop", &[0u32, 1, 3]);
    let kc = KernelConfig::default().mtu(mtu).send_buf_cap(caps.0).recv_buf_cap(caps.1);
    let mut net = Net::with_config(kc);
    let (cip, sip): (IpAddr, IpAddr) = ("10.0.0.1".parse().unwrap(), "10.0.0.2".parse().unwrap());
    let c = net.add_host(cip);
    let s = net.add_host(sip);
    let hosts = [c, s];
    let guard = net.enter();
    let round: Rc<RefCell<u32>> = Rc::new(RefCell::new(0));
    #[derive(Default)]
    struct Log {
        read: Vec<u8>,
        eof: bool,
        err: Vec<String>,
        done: [bool; 2],
    }
    let log: Rc<RefCell<Log>> = Rc::new(RefCell::new(Log::default()));
    let mut exec = Executor::new();
    {
        let log = log.clone();
        exec.spawn(1, async move {
            let Ok(l) = TcpListener::bind(SocketAddr::new(sip, 80)).await else { return };
            let Ok((mut st, _)) = l.accept().await else { return };
            let mut buf = [0u8; 64];
            loop {
                match st.read(&mut buf).await {
                    Ok(0) => {
                        log.borrow_mut().eof = true;
                        break;
                    }
                    Ok(k) => log.borrow_mut().read.extend_from_slice(&buf[..k]),
                    Err(e) => {
                        log.borrow_mut().err.push(format!("acceptor: read: {}", errk(&e)));
                        break;
                    }
                }
            }
            drop(st);
            log.borrow_mut().done[1] = true;
            std::future::pending::<()>().await;
            drop(l);
        });
    }
    {
        let (log, round) = (log.clone(), round.clone());
        exec.spawn(0, async move {
            let mut st = match TcpStream::connect(SocketAddr::new(sip, 80)).await {
                Ok(s) => s,
                Err(e) => {
                    log.borrow_mut().err.push(format!("connect: {}", errk(&e)));
                    return;
                }
            };
            let data: Vec<u8> = (0..n).map(|i| (i % 200) as u8 + 1).collect();
            if let Err(e) = st.write_all(&data).await {
                log.borrow_mut().err.push(format!("connector: write: {}", errk(&e)));
            }
            let until = *round.borrow() + w;
            std::future::poll_fn(|cx| {
                if *round.borrow() >= until {
                    std::task::Poll::Ready(())
                } else {
                    cx.waker().wake_by_ref();
                    std::task::Poll::Pending
                }
            })
            .await;
            drop(st);
            log.borrow_mut().done[0] = true;
        });
    }
    let mut wire: VecDeque<(u32, turmoil_net::Packet)> = VecDeque::new();
    let horizon = 300u32;
    let mut reclaimed_at: Option<u32> = None;
    for r in 0..horizon {
        *round.borrow_mut() = r;
        while wire.front().map(|(t, _)| *t <= r).unwrap_or(false) {
            let (_, p) = wire.pop_front().unwrap();
            guard.deliver(p);
        }
        exec.run_until_stalled(4000, |tag| turmoil_net::set_current(hosts[tag as usize]));
        let mut out = vec![];
        guard.egress_all(&mut out);
        for p in out {
            wire.push_back((r + lat, p));
        }
        let l = log.borrow();
        if l.done[0] && l.done[1] {
            let (cc, sc) = (turmoil_net::verif_counts(cip), turmoil_net::verif_counts(sip));
            if cc.0 == 0 && sc.0 == 1 {
                reclaimed_at = Some(r);
                break;
            }
        }
    }
    let l = log.borrow();
    let want: Vec<u8> = (0..n).map(|i| (i % 200) as u8 + 1).collect();
    let what = format!("the connector wrote {n} bytes and dropped its stream {w} rounds later (latency {lat}, caps {caps:?}, mtu {mtu})");
    let mut violation: Option<Violation> = None;
    if !l.err.is_empty() {
        violation = Some(Violation::new("aborted", format!("{what}: {:?}", l.err)));
    } else if l.read != want || !l.eof {
        violation = Some(Violation::new("stall", format!("{what}: after {horizon} rounds the acceptor has {} of {n} bytes, EOF seen: {}", l.read.len(), l.eof)));
    } else if reclaimed_at.is_none() {
        violation = Some(Violation::new(
            "not-reclaimed",
            format!("{what}: both sides are done, yet {horizon} rounds into the run the tables hold connector {:?}, acceptor {:?} (sockets, bindings, connections)", turmoil_net::verif_counts(cip), turmoil_net::verif_counts(sip)),
        ));
    }
    drop(l);
    drop(exec);
    drop(guard);
    let obs = format!("lat={lat} caps={caps:?} mtu={mtu} n={n} w={w} reclaimed_at={reclaimed_at:?}");
    if let Some(v) = violation.as_mut() {
        v.sig = format!("drop-after-write|{}", v.clause);
        v.scenario = format!("c13-drop-after-write {obs}");
        v.actions = vec![obs.clone()];
    }
    Exec { outcome: Digest::of64(&obs), violation, features: vec![] }
}

/// C06, request / reply with the replying side gone at once: the connector writes a request
/// of `q` bytes and then reads to end-of-file; the acceptor reads the request, writes a reply
/// of `n` bytes and drops its stream immediately (the reply is still queued, partly or wholly,
/// so the socket lingers without an owner until it is delivered). Fixed latency, no loss, the
/// round trip below the retransmit budget -- but possibly above the retransmit threshold, so
/// the request is retransmitted although it has arrived, and the duplicate reaches the
/// lingering socket. The connector must get the whole reply and then EOF, without an error.
pub fn reply_then_drop_scenario(ch: &mut Chooser, _thorough: bool) -> Exec {
    let lat: u32 = 1 + ch.choose("one_way_latency_rounds_minus_1", 3) as u32;
    let thr: u32 = *ch.of("retx_threshold", &[1u32, 2, 3]);
    let max: u32 = 8;
    let caps = *ch.of("send_recv_caps", &[(64usize, 8usize), (4, 4), (512, 512)]);
    let mtu = *ch.of("mtu", &[42u32, 1500]);
    let q: usize = *ch.of("request_bytes", &[1usize, 6]);
    let n: usize = *ch.of("reply_bytes", &[1usize, 12, 100]);
    // the acceptor waits this many rounds between reading the request and writing the reply
    let think: u32 = *ch.of("rounds_before_the_reply", &[0u32, 2]);
    if 2 * lat + 2 >= thr * (max + 1) {
        return Exec { outcome: 0, violation: None, features: vec!["skipped-round-trip-beyond-budget"] };
    }
    let kc = KernelConfig::default().mtu(mtu).send_buf_cap(caps.0).recv_buf_cap(caps.1).retx_threshold(thr).retx_max(max);
    let mut net = Net::with_config(kc);
    let (cip, sip): (IpAddr, IpAddr) = ("10.0.0.1".parse().unwrap(), "10.0.0.2".parse().unwrap());
    let c = net.add_host(cip);
    let s = net.add_host(sip);
    let hosts = [c, s];
    let guard = net.enter();
    let round: Rc<RefCell<u32>> = Rc::new(RefCell::new(0));
    #[derive(Default)]
    struct Log {
        read: Vec<u8>,
        eof: bool,
        err: Vec<String>,
        done: [bool; 2],
    }
    let log: Rc<RefCell<Log>> = Rc::new(RefCell::new(Log::default()));
    let mut exec = Executor::new();
    {
        let (log, round) = (log.clone(), round.clone());
        exec.spawn(1, async move {
            let Ok(l) = TcpListener::bind(SocketAddr::new(sip, 80)).await else { return };
            let Ok((mut st, _)) = l.accept().await else { return };
            let mut got = 0usize;
            let mut buf = [0u8; 16];
            while got < q {
                match st.read(&mut buf[..(q - got).min(16)]).await {
                    Ok(0) => {
                        log.borrow_mut().err.push("acceptor: end-of-file inside the request".into());
                        return;
                    }
                    Ok(k) => got += k,
                    Err(e) => {
                        log.borrow_mut().err.push(format!("acceptor: read: {}", errk(&e)));
                        return;
                    }
                }
            }
            let until = *round.borrow() + think;
            std::future::poll_fn(|cx| {
                if *round.borrow() >= until {
                    std::task::Poll::Ready(())
                } else {
                    cx.waker().wake_by_ref();
                    std::task::Poll::Pending
                }
            })
            .await;
            let data: Vec<u8> = (0..n).map(|i| (i % 200) as u8 + 1).collect();
            if let Err(e) = st.write_all(&data).await {
                log.borrow_mut().err.push(format!("acceptor: write: {}", errk(&e)));
            }
            drop(st);
            log.borrow_mut().done[1] = true;
            std::future::pending::<()>().await;
            drop(l);
        });
    }
    {
        let log = log.clone();
        exec.spawn(0, async move {
            let mut st = match TcpStream::connect(SocketAddr::new(sip, 80)).await {
                Ok(s) => s,
                Err(e) => {
                    log.borrow_mut().err.push(format!("connect: {}", errk(&e)));
                    return;
                }
            };
            let req: Vec<u8> = (0..q).map(|i| 0xA0 + i as u8).collect();
            if let Err(e) = st.write_all(&req).await {
                log.borrow_mut().err.push(format!("connector: write: {}", errk(&e)));
            }
            let mut buf = [0u8; 32];
            loop {
                match st.read(&mut buf).await {
                    Ok(0) => {
                        log.borrow_mut().eof = true;
                        break;
                    }
                    Ok(k) => log.borrow_mut().read.extend_from_slice(&buf[..k]),
                    Err(e) => {
                        log.borrow_mut().err.push(format!("connector: read: {}", errk(&e)));
                        break;
                    }
                }
            }
            drop(st);
            log.borrow_mut().done[0] = true;
        });
    }
    let mut wire: VecDeque<(u32, turmoil_net::Packet)> = VecDeque::new();
    let horizon = 400u32;
    let mut finished_at: Option<u32> = None;
    for r in 0..horizon {
        *round.borrow_mut() = r;
        while wire.front().map(|(t, _)| *t <= r).unwrap_or(false) {
            let (_, p) = wire.pop_front().unwrap();
            guard.deliver(p);
        }
        exec.run_until_stalled(4000, |tag| turmoil_net::set_current(hosts[tag as usize]));
        let mut out = vec![];
        guard.egress_all(&mut out);
        for p in out {
            wire.push_back((r + lat, p));
        }
        let l = log.borrow();
        if l.done[0] && l.done[1] && wire.is_empty() {
            finished_at = Some(r);
            break;
        }
        if !l.err.is_empty() {
            break;
        }
    }
    let l = log.borrow();
    let want: Vec<u8> = (0..n).map(|i| (i % 200) as u8 + 1).collect();
    let what = format!(
        "request of {q} bytes, reply of {n} bytes written {think} rounds after the request was read, replying stream dropped at once (latency {lat}, retx_threshold {thr}, retx_max {max}, caps {caps:?}, mtu {mtu}; no packet lost, round trip {} rounds < budget {})",
        2 * lat,
        thr * (max + 1)
    );
    let mut violation: Option<Violation> = None;
    if !l.err.is_empty() {
        violation = Some(Violation::new("aborted", format!("{what}: {:?} after {} of {n} reply bytes", l.err, l.read.len())));
    } else if l.read.len() > want.len() || l.read[..] != want[..l.read.len()] {
        violation = Some(Violation::new("prefix", format!("{what}: the connector read {:?}", l.read)));
    } else if l.read != want || !l.eof {
        violation = Some(Violation::new("stall", format!("{what}: after {horizon} rounds the connector has {} of {n} reply bytes, EOF seen: {}", l.read.len(), l.eof)));
    }
    drop(l);
    drop(exec);
    drop(guard);
    let obs = format!("lat={lat} thr={thr} caps={caps:?} mtu={mtu} q={q} n={n} think={think} finished_at={finished_at:?}");
    if let Some(v) = violation.as_mut() {
        v.sig = format!("reply-then-drop|{}", v.clause);
        v.scenario = format!("c06-reply-then-drop {obs}");
        v.actions = vec![obs.clone()];
    }
    Exec { outcome: Digest::of64(&obs), violation, features: vec![] }
}

/// polls the inner future once, then leaves it alone until `round` has reached `until`
struct LazyAfterFirstPoll<F> {
    inner: std::pin::Pin<Box<F>>,
    polled_once: bool,
    round: Rc<RefCell<u32>>,
    wait: u32,
    until: u32,
}

impl<F: std::future::Future> std::future::Future for LazyAfterFirstPoll<F> {
    type Output = F::Output;
    fn poll(mut self: std::pin::Pin<&mut Self>, cx: &mut std::task::Context<'_>) -> std::task::Poll<F::Output> {
        let now = *self.round.borrow();
        if self.polled_once && now < self.until {
            cx.waker().wake_by_ref();
            return std::task::Poll::Pending;
        }
        if !self.polled_once {
            self.polled_once = true;
            self.until = now + self.wait;
        }
        match self.inner.as_mut().poll(cx) {
            std::task::Poll::Ready(x) => std::task::Poll::Ready(x),
            std::task::Poll::Pending => {
                cx.waker().wake_by_ref();
                std::task::Poll::Pending
            }
        }
    }
}

/// C13, a connect future that is not polled between the SYN-ACK and whatever the acceptor
/// does next: the acceptor accepts, optionally writes `n` bytes, and closes at once
/// (shutdown or drop); the connector polls its connect once (the SYN leaves), is busy with
/// something else for `w` rounds and only then awaits the connect. A listener was reachable
/// and had room, so the connect must succeed; the stream then yields the acceptor's bytes and
/// end-of-file, and afterwards only the listener is left.
pub fn lazy_connect_scenario(ch: &mut Chooser, _thorough: bool) -> Exec {
    let lat: u32 = 1 + ch.choose("one_way_latency_rounds_minus_1", 2) as u32;
    let n: usize = *ch.of("bytes_written_by_the_acceptor", &[0usize, 3]);
    let w: u32 = *ch.of("rounds_the_connector_is_busy", &[0u32, 2, 6, 12]);
    let kc = KernelConfig::default().mtu(1500);
    let mut net = Net::with_config(kc);
    let (cip, sip): (IpAddr, IpAddr) = ("10.0.0.1".parse().unwrap(), "10.0.0.2".parse().unwrap());
    let c = net.add_host(cip);
    let s = net.add_host(sip);
    let hosts = [c, s];
    let guard = net.enter();
    let round: Rc<RefCell<u32>> = Rc::new(RefCell::new(0));
    #[derive(Default)]
    struct Log {
        connect: Option<String>,
        read: Vec<u8>,
        eof: bool,
        err: Vec<String>,
        done: [bool; 2],
    }
    let log: Rc<RefCell<Log>> = Rc::new(RefCell::new(Log::default()));
    let mut exec = Executor::new();
    {
        let log = log.clone();
        exec.spawn(1, async move {
            let Ok(l) = TcpListener::bind(SocketAddr::new(sip, 80)).await else { return };
            let Ok((mut st, _)) = l.accept().await else { return };
            if n > 0 {
                let data: Vec<u8> = (0..n).map(|i| i as u8 + 1).collect();
                if let Err(e) = st.write_all(&data).await {
                    log.borrow_mut().err.push(format!("acceptor: write: {}", errk(&e)));
                }
            }
            drop(st);
            log.borrow_mut().done[1] = true;
            std::future::pending::<()>().await;
            drop(l);
        });
    }
    {
        let (log, round) = (log.clone(), round.clone());
        exec.spawn(0, async move {
            let fut = LazyAfterFirstPoll { inner: Box::pin(TcpStream::connect(SocketAddr::new(sip, 80))), polled_once: false, round: round.clone(), wait: w, until: 0 };
            let mut st = match fut.await {
                Ok(s) => {
                    log.borrow_mut().connect = Some("ok".into());
                    s
                }
                Err(e) => {
                    log.borrow_mut().connect = Some(errk(&e));
                    log.borrow_mut().done[0] = true;
                    return;
                }
            };
            let mut buf = [0u8; 16];
            loop {
                match st.read(&mut buf).await {
                    Ok(0) => {
                        log.borrow_mut().eof = true;
                        break;
                    }
                    Ok(k) => log.borrow_mut().read.extend_from_slice(&buf[..k]),
                    Err(e) => {
                        log.borrow_mut().err.push(format!("connector: read: {}", errk(&e)));
                        break;
                    }
                }
            }
            drop(st);
            log.borrow_mut().done[0] = true;
        });
    }
    let mut wire: VecDeque<(u32, turmoil_net::Packet)> = VecDeque::new();
    let horizon = 200u32;
    let mut reclaimed_at: Option<u32> = None;
    for r in 0..horizon {
        *round.borrow_mut() = r;
        while wire.front().map(|(t, _)| *t <= r).unwrap_or(false) {
            let (_, p) = wire.pop_front().unwrap();
            guard.deliver(p);
        }
        exec.run_until_stalled(4000, |tag| turmoil_net::set_current(hosts[tag as usize]));
        let mut out = vec![];
        guard.egress_all(&mut out);
        for p in out {
            wire.push_back((r + lat, p));
        }
        let l = log.borrow();
        if l.done[0] && l.done[1] {
            let (cc, sc) = (turmoil_net::verif_counts(cip), turmoil_net::verif_counts(sip));
            if cc.0 == 0 && sc.0 == 1 {
                reclaimed_at = Some(r);
                break;
            }
        }
    }
    let l = log.borrow();
    let want: Vec<u8> = (0..n).map(|i| i as u8 + 1).collect();
    let what = format!("the acceptor accepts, writes {n} bytes and drops the stream at once; the connector polls its connect once and awaits it {w} rounds later (latency {lat})");
    let mut violation: Option<Violation> = None;
    if l.connect.as_deref() != Some("ok") {
        violation = Some(Violation::new("connect", format!("{what}: a listener was reachable with backlog room and accepted the connection, connect returned {:?}", l.connect)));
    } else if !l.err.is_empty() {
        violation = Some(Violation::new("aborted", format!("{what}: {:?}", l.err)));
    } else if l.read != want || !l.eof {
        violation = Some(Violation::new("stall", format!("{what}: after {horizon} rounds the connector has {:?} (want {:?}), EOF seen: {}", l.read, want, l.eof)));
    } else if reclaimed_at.is_none() {
        violation = Some(Violation::new(
            "not-reclaimed",
            format!("{what}: both sides are done, yet {horizon} rounds into the run the tables hold connector {:?}, acceptor {:?} (sockets, bindings, connections)", turmoil_net::verif_counts(cip), turmoil_net::verif_counts(sip)),
        ));
    }
    drop(l);
    drop(exec);
    drop(guard);
    let obs = format!("lat={lat} n={n} w={w} reclaimed_at={reclaimed_at:?}");
    if let Some(v) = violation.as_mut() {
        v.sig = format!("lazy-connect|{}", v.clause);
        v.scenario = format!("c13-lazy-connect {obs}");
        v.actions = vec![obs.clone()];
    }
    Exec { outcome: Digest::of64(&obs), violation, features: vec![] }
}

/// C06, both directions with one side streaming until told to stop: the acceptor writes one
/// chunk per round until it has read a one-byte "stop" from the connector, then shuts down; the
/// connector sends the stop byte at once and reads to end-of-file. The k-th data-bearing packet
/// from the connector (the stop byte or one of its retransmissions) is lost `losses` times.
/// The acceptor's stream of segments keeps arriving at the connector meanwhile -- every one of
/// them carries an ACK, none acknowledges the stop byte -- so the stop byte has to be
/// retransmitted on its own clock. Within the retransmit budget the exchange must finish.
pub fn stream_until_stop_scenario(ch: &mut Chooser, _thorough: bool) -> Exec {
    let lat: u32 = 1 + ch.choose("one_way_latency_rounds_minus_1", 2) as u32;
    let thr: u32 = *ch.of("retx_threshold", &[2u32, 3]);
    let max: u32 = 6;
    let losses: u32 = 1 + ch.choose("stop_byte_lost_times_minus_1", 2) as u32;
    let chunk: usize = *ch.of("chunk_bytes", &[1usize, 40]);
    let kc = KernelConfig::default().mtu(1500).retx_threshold(thr).retx_max(max);
    let mut net = Net::with_config(kc);
    let (cip, sip): (IpAddr, IpAddr) = ("10.0.0.1".parse().unwrap(), "10.0.0.2".parse().unwrap());
    let c = net.add_host(cip);
    let s = net.add_host(sip);
    let hosts = [c, s];
    let guard = net.enter();
    let round: Rc<RefCell<u32>> = Rc::new(RefCell::new(0));
    #[derive(Default)]
    struct Log {
        read: usize,
        eof: bool,
        written: usize,
        stop_seen: bool,
        err: Vec<String>,
        done: [bool; 2],
    }
    let log: Rc<RefCell<Log>> = Rc::new(RefCell::new(Log::default()));
    let mut exec = Executor::new();
    {
        let (log, round) = (log.clone(), round.clone());
        exec.spawn(1, async move {
            let Ok(l) = TcpListener::bind(SocketAddr::new(sip, 80)).await else { return };
            let Ok((st, _)) = l.accept().await else { return };
            let (mut rd, mut wr) = st.into_split();
            // reader task half: polled inline through a select-free loop (one round = one chunk)
            let mut stop = [0u8; 1];
            let mut read_fut = Box::pin(async move {
                let r = rd.read(&mut stop).await;
                (r, rd)
            });
            loop {
                // has the stop byte arrived?
                let w = std::task::Waker::noop();
                let mut cx = std::task::Context::from_waker(w);
                if let std::task::Poll::Ready((r, _rd)) = read_fut.as_mut().poll(&mut cx) {
                    match r {
                        Ok(1) => log.borrow_mut().stop_seen = true,
                        Ok(n) => log.borrow_mut().err.push(format!("acceptor: read returned {n} before the stop byte")),
                        Err(e) => log.borrow_mut().err.push(format!("acceptor: read: {}", errk(&e))),
                    }
                    break;
                }
                let data = vec![0x5au8; chunk];
                if let Err(e) = wr.write_all(&data).await {
                    log.borrow_mut().err.push(format!("acceptor: write: {}", errk(&e)));
                    break;
                }
                log.borrow_mut().written += chunk;
                // next round
                let until = *round.borrow() + 1;
                std::future::poll_fn(|cx| {
                    if *round.borrow() >= until {
                        std::task::Poll::Ready(())
                    } else {
                        cx.waker().wake_by_ref();
                        std::task::Poll::Pending
                    }
                })
                .await;
            }
            let _ = wr.shutdown().await;
            drop(wr);
            log.borrow_mut().done[1] = true;
            std::future::pending::<()>().await;
            drop(l);
        });
    }
    {
        let log = log.clone();
        exec.spawn(0, async move {
            let mut st = match TcpStream::connect(SocketAddr::new(sip, 80)).await {
                Ok(s) => s,
                Err(e) => {
                    log.borrow_mut().err.push(format!("connect: {}", errk(&e)));
                    return;
                }
            };
            if let Err(e) = st.write_all(&[0x53]).await {
                log.borrow_mut().err.push(format!("connector: write: {}", errk(&e)));
            }
            let mut buf = [0u8; 256];
            loop {
                match st.read(&mut buf).await {
                    Ok(0) => {
                        log.borrow_mut().eof = true;
                        break;
                    }
                    Ok(k) => log.borrow_mut().read += k,
                    Err(e) => {
                        log.borrow_mut().err.push(format!("connector: read: {}", errk(&e)));
                        break;
                    }
                }
            }
            log.borrow_mut().done[0] = true;
            std::future::pending::<()>().await;
            drop(st);
        });
    }
    let mut wire: VecDeque<(u32, turmoil_net::Packet)> = VecDeque::new();
    let horizon = 400u32;
    let mut lost = 0u32;
    let mut finished_at = None;
    for r in 0..horizon {
        *round.borrow_mut() = r;
        while wire.front().map(|(t, _)| *t <= r).unwrap_or(false) {
            let (_, p) = wire.pop_front().unwrap();
            guard.deliver(p);
        }
        exec.run_until_stalled(4000, |tag| turmoil_net::set_current(hosts[tag as usize]));
        let mut out = vec![];
        guard.egress_all(&mut out);
        for p in out {
            // the connector's data-bearing packets carry the stop byte
            let from_connector_with_data = p.src == cip && matches!(&p.payload, turmoil_net::Transport::Tcp(seg) if !seg.payload.is_empty());
            if from_connector_with_data && lost < losses {
                lost += 1;
                continue;
            }
            wire.push_back((r + lat, p));
        }
        let l = log.borrow();
        if (l.done[0] && l.done[1]) || !l.err.is_empty() {
            finished_at = Some(r);
            break;
        }
    }
    let l = log.borrow();
    let what = format!(
        "the acceptor streams {chunk}-byte chunks until it reads the connector's stop byte; that byte is lost {losses} time(s) (latency {lat}, retx_threshold {thr}, retx_max {max}: {losses} losses are within the budget)"
    );
    let mut violation: Option<Violation> = None;
    if !l.err.is_empty() {
        violation = Some(Violation::new("aborted", format!("{what}: {:?}", l.err)));
    } else if !(l.done[0] && l.done[1]) {
        violation = Some(Violation::new(
            "stall",
            format!("{what}: after {horizon} rounds the acceptor has{} seen the stop byte and written {} bytes, the connector has read {} bytes, EOF seen: {}", if l.stop_seen { "" } else { " not" }, l.written, l.read, l.eof),
        ));
    } else if l.read != l.written {
        violation = Some(Violation::new("prefix", format!("{what}: the acceptor wrote {} bytes before shutting down, the connector read {} and then EOF", l.written, l.read)));
    }
    drop(l);
    drop(exec);
    drop(guard);
    let obs = format!("lat={lat} thr={thr} losses={losses} chunk={chunk} finished_at={finished_at:?}");
    if let Some(v) = violation.as_mut() {
        v.sig = format!("stream-until-stop|{}", v.clause);
        v.scenario = format!("c06-stream-until-stop {obs}");
        v.actions = vec![obs.clone()];
    }
    Exec { outcome: Digest::of64(&obs), violation, features: vec![] }
}

/// C06, a single lost packet around the close handshake while one side still has unread data:
/// the connector writes `n` bytes, shuts down, reads to end-of-file and drops its stream; the
/// acceptor shuts down its own write side `w1` rounds after accepting -- without having read --
/// and reads to end-of-file only `w2` rounds later. The k-th packet the connector emits is
/// lost (k ranges over everything it sends: SYN, data, FIN, the ACK of the acceptor's FIN).
/// One loss is within every retransmit budget: the acceptor must read all `n` bytes and then
/// EOF, the connector must see EOF, and neither may get an error.
pub fn close_with_unread_scenario(ch: &mut Chooser, _thorough: bool) -> Exec {
    let lat: u32 = 1 + ch.choose("one_way_latency_rounds_minus_1", 2) as u32;
    let lose_k: usize = ch.choose("lost_packet_index_among_the_connectors_packets", 8);
    let w1: u32 = *ch.of("acceptor_shuts_down_after_rounds", &[0u32, 4]);
    let w2: u32 = *ch.of("acceptor_reads_after_further_rounds", &[0u32, 10, 30]);
    let n: usize = 4;
    let (thr, max) = (3u32, 6u32);
    let kc = KernelConfig::default().mtu(1500).retx_threshold(thr).retx_max(max);
    let mut net = Net::with_config(kc);
    let (cip, sip): (IpAddr, IpAddr) = ("10.0.0.1".parse().unwrap(), "10.0.0.2".parse().unwrap());
    let c = net.add_host(cip);
    let s = net.add_host(sip);
    let hosts = [c, s];
    let guard = net.enter();
    let round: Rc<RefCell<u32>> = Rc::new(RefCell::new(0));
    #[derive(Default)]
    struct Log {
        s_read: Vec<u8>,
        s_eof: bool,
        c_eof: bool,
        err: Vec<String>,
        done: [bool; 2],
    }
    let log: Rc<RefCell<Log>> = Rc::new(RefCell::new(Log::default()));
    let wait = |round: Rc<RefCell<u32>>, k: u32| {
        let until = *round.borrow() + k;
        std::future::poll_fn(move |cx| {
            if *round.borrow() >= until {
                std::task::Poll::Ready(())
            } else {
                cx.waker().wake_by_ref();
                std::task::Poll::Pending
            }
        })
    };
    let mut exec = Executor::new();
    {
        let (log, round) = (log.clone(), round.clone());
        exec.spawn(1, async move {
            let Ok(l) = TcpListener::bind(SocketAddr::new(sip, 80)).await else { return };
            let Ok((mut st, _)) = l.accept().await else { return };
            wait(round.clone(), w1).await;
            if let Err(e) = st.shutdown().await {
                log.borrow_mut().err.push(format!("acceptor: shutdown: {}", errk(&e)));
            }
            wait(round.clone(), w2).await;
            let mut buf = [0u8; 16];
            loop {
                match st.read(&mut buf).await {
                    Ok(0) => {
                        log.borrow_mut().s_eof = true;
                        break;
                    }
                    Ok(k) => log.borrow_mut().s_read.extend_from_slice(&buf[..k]),
                    Err(e) => {
                        log.borrow_mut().err.push(format!("acceptor: read: {}", errk(&e)));
                        break;
                    }
                }
            }
            drop(st);
            log.borrow_mut().done[1] = true;
            std::future::pending::<()>().await;
            drop(l);
        });
    }
    {
        let log = log.clone();
        exec.spawn(0, async move {
            let mut st = match TcpStream::connect(SocketAddr::new(sip, 80)).await {
                Ok(s) => s,
                Err(e) => {
                    log.borrow_mut().err.push(format!("connect: {}", errk(&e)));
                    log.borrow_mut().done[0] = true;
                    return;
                }
            };
            let data: Vec<u8> = (0..n).map(|i| i as u8 + 1).collect();
            if let Err(e) = st.write_all(&data).await {
                log.borrow_mut().err.push(format!("connector: write: {}", errk(&e)));
            }
            if let Err(e) = st.shutdown().await {
                log.borrow_mut().err.push(format!("connector: shutdown: {}", errk(&e)));
            }
            let mut buf = [0u8; 16];
            loop {
                match st.read(&mut buf).await {
                    Ok(0) => {
                        log.borrow_mut().c_eof = true;
                        break;
                    }
                    Ok(_) => log.borrow_mut().err.push("connector: read data although the acceptor never wrote".into()),
                    Err(e) => {
                        log.borrow_mut().err.push(format!("connector: read: {}", errk(&e)));
                        break;
                    }
                }
            }
            drop(st);
            log.borrow_mut().done[0] = true;
        });
    }
    let mut wire: VecDeque<(u32, turmoil_net::Packet)> = VecDeque::new();
    let horizon = 300u32;
    let mut sent_by_connector = 0usize;
    let mut lost_desc = String::from("none (the connector sent fewer packets)");
    let mut finished_at = None;
    for r in 0..horizon {
        *round.borrow_mut() = r;
        while wire.front().map(|(t, _)| *t <= r).unwrap_or(false) {
            let (_, p) = wire.pop_front().unwrap();
            guard.deliver(p);
        }
        exec.run_until_stalled(4000, |tag| turmoil_net::set_current(hosts[tag as usize]));
        let mut out = vec![];
        guard.egress_all(&mut out);
        for p in out {
            if std::env::var("VX_TRACE").is_ok() {
                if let turmoil_net::Transport::Tcp(sg) = &p.payload {
                    eprintln!("round {r}: {} -> {} syn={} ack={} fin={} rst={} seq={:#x} ackno={:#x} len={}", p.src, p.dst, sg.flags.syn, sg.flags.ack, sg.flags.fin, sg.flags.rst, sg.seq, sg.ack, sg.payload.len());
                }
            }
            if p.src == cip {
                let idx = sent_by_connector;
                sent_by_connector += 1;
                if idx == lose_k {
                    lost_desc = match &p.payload {
                        turmoil_net::Transport::Tcp(sg) => format!("#{idx} (syn={} fin={} rst={} payload {} bytes)", sg.flags.syn, sg.flags.fin, sg.flags.rst, sg.payload.len()),
                        _ => format!("#{idx}"),
                    };
                    continue;
                }
            }
            wire.push_back((r + lat, p));
        }
        let l = log.borrow();
        if l.done[0] && l.done[1] {
            finished_at = Some(r);
            break;
        }
    }
    let l = log.borrow();
    let want: Vec<u8> = (0..n).map(|i| i as u8 + 1).collect();
    let what = format!(
        "the connector writes {n} bytes, shuts down, reads to EOF and drops; the acceptor shuts down after {w1} rounds without reading and reads {w2} rounds later; lost: the connector's packet {lost_desc} (latency {lat}, retx_threshold {thr}, retx_max {max})"
    );
    let mut violation: Option<Violation> = None;
    if !l.err.is_empty() {
        violation = Some(Violation::new("aborted", format!("{what}: {:?}; the acceptor had read {:?}", l.err, l.s_read)));
    } else if l.s_read != want || !l.s_eof || !l.c_eof {
        violation = Some(Violation::new(
            "stall",
            format!("{what}: after {horizon} rounds the acceptor has read {:?} (EOF {}), the connector has seen EOF: {}", l.s_read, l.s_eof, l.c_eof),
        ));
    }
    drop(l);
    drop(exec);
    drop(guard);
    let obs = format!("lat={lat} lose_k={lose_k} w1={w1} w2={w2} lost={lost_desc} finished_at={finished_at:?}");
    if let Some(v) = violation.as_mut() {
        // which packet was lost is part of the signature: the final ACK of the close handshake is
        // one defect (no TIME_WAIT), anything else would be another
        let kind = if lost_desc.contains("syn=false fin=false rst=false payload 0") { "pure-ack-lost" } else { "other-packet-lost" };
        v.sig = format!("close-with-unread|{}|{kind}", v.clause);
        v.scenario = format!("c06-close-with-unread {obs}");
        v.actions = vec![obs.clone()];
    }
    Exec { outcome: Digest::of64(&obs), violation, features: vec![] }
}

/// C13, an abortive close whose RST may be lost: the connector writes `n` bytes and drops its
/// stream (a clean close on its side: it lingers until the close handshake is through); the
/// acceptor never reads and drops its stream `w` rounds later -- with unread bytes, so its close
/// is a reset -- and keeps its listener. The k-th packet the acceptor emits is lost. Both sides
/// have dropped the connection: within a bounded number of rounds neither host holds a socket,
/// binding or connection entry for it any more (the listener stays).
pub fn lost_rst_scenario(ch: &mut Chooser, _thorough: bool) -> Exec {
    let lat: u32 = 1 + ch.choose("one_way_latency_rounds_minus_1", 2) as u32;
    let n: usize = *ch.of("bytes_written_by_the_connector", &[1usize, 6]);
    let w: u32 = *ch.of("rounds_before_the_acceptor_drops", &[0u32, 3, 8]);
    let lose_k: usize = ch.choose("lost_packet_index_among_the_acceptors_packets", 6);
    let kc = KernelConfig::default().mtu(1500);
    let mut net = Net::with_config(kc);
    let (cip, sip): (IpAddr, IpAddr) = ("10.0.0.1".parse().unwrap(), "10.0.0.2".parse().unwrap());
    let c = net.add_host(cip);
    let s = net.add_host(sip);
    let hosts = [c, s];
    let guard = net.enter();
    let round: Rc<RefCell<u32>> = Rc::new(RefCell::new(0));
    let done: Rc<RefCell<[bool; 2]>> = Rc::new(RefCell::new([false; 2]));
    let notes: Rc<RefCell<Vec<String>>> = Rc::new(RefCell::new(vec![]));
    let mut exec = Executor::new();
    {
        let (done, round) = (done.clone(), round.clone());
        exec.spawn(1, async move {
            let Ok(l) = TcpListener::bind(SocketAddr::new(sip, 80)).await else { return };
            let Ok((st, _)) = l.accept().await else { return };
            let until = *round.borrow() + w;
            std::future::poll_fn(|cx| {
                if *round.borrow() >= until {
                    std::task::Poll::Ready(())
                } else {
                    cx.waker().wake_by_ref();
                    std::task::Poll::Pending
                }
            })
            .await;
            drop(st);
            done.borrow_mut()[1] = true;
            std::future::pending::<()>().await;
            drop(l);
        });
    }
    {
        let (done, notes) = (done.clone(), notes.clone());
        exec.spawn(0, async move {
            let mut st = match TcpStream::connect(SocketAddr::new(sip, 80)).await {
                Ok(s) => s,
                Err(e) => {
                    notes.borrow_mut().push(format!("connect: {}", errk(&e)));
                    done.borrow_mut()[0] = true;
                    return;
                }
            };
            let data: Vec<u8> = (0..n).map(|i| i as u8 + 1).collect();
            if let Err(e) = st.write_all(&data).await {
                notes.borrow_mut().push(format!("connector: write: {}", errk(&e)));
            }
            drop(st);
            done.borrow_mut()[0] = true;
        });
    }
    let mut wire: VecDeque<(u32, turmoil_net::Packet)> = VecDeque::new();
    let horizon = 400u32;
    let mut sent_by_acceptor = 0usize;
    let mut lost_desc = String::from("none (the acceptor sent fewer packets)");
    let mut reclaimed_at: Option<u32> = None;
    for r in 0..horizon {
        *round.borrow_mut() = r;
        while wire.front().map(|(t, _)| *t <= r).unwrap_or(false) {
            let (_, p) = wire.pop_front().unwrap();
            guard.deliver(p);
        }
        exec.run_until_stalled(4000, |tag| turmoil_net::set_current(hosts[tag as usize]));
        let mut out = vec![];
        guard.egress_all(&mut out);
        for p in out {
            if p.src == sip {
                let idx = sent_by_acceptor;
                sent_by_acceptor += 1;
                if idx == lose_k {
                    lost_desc = match &p.payload {
                        turmoil_net::Transport::Tcp(sg) => format!("#{idx} (syn={} fin={} rst={} payload {} bytes)", sg.flags.syn, sg.flags.fin, sg.flags.rst, sg.payload.len()),
                        _ => format!("#{idx}"),
                    };
                    continue;
                }
            }
            wire.push_back((r + lat, p));
        }
        let d = *done.borrow();
        if d[0] && d[1] {
            let (cc, sc) = (turmoil_net::verif_counts(cip), turmoil_net::verif_counts(sip));
            if cc == (0, 0, 0) && sc == (1, 1, 0) {
                reclaimed_at = Some(r);
                break;
            }
        }
    }
    let what = format!("the connector writes {n} bytes and drops its stream, the acceptor never reads and drops its stream {w} rounds after accepting (a reset: it had unread bytes); lost: the acceptor's packet {lost_desc} (latency {lat})");
    let mut violation: Option<Violation> = None;
    if reclaimed_at.is_none() {
        violation = Some(Violation::new(
            "not-reclaimed",
            format!(
                "{what}: both sides have dropped the connection, yet {horizon} rounds into the run the tables hold connector {:?} (want (0, 0, 0)), acceptor {:?} (want the listener alone: (1, 1, 0)) (sockets, bindings, connections); notes {:?}",
                turmoil_net::verif_counts(cip),
                turmoil_net::verif_counts(sip),
                notes.borrow()
            ),
        ));
    }
    drop(exec);
    drop(guard);
    let obs = format!("lat={lat} n={n} w={w} lose_k={lose_k} lost={lost_desc} reclaimed_at={reclaimed_at:?}");
    if let Some(v) = violation.as_mut() {
        let kind = if lost_desc.contains("rst=true") { "rst-lost" } else { "other-packet-lost" };
        v.sig = format!("lost-rst|{}|{kind}", v.clause);
        v.scenario = format!("c13-lost-rst {obs}");
        v.actions = vec![obs.clone()];
    }
    Exec { outcome: Digest::of64(&obs), violation, features: vec![] }
}
