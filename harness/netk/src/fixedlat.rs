//! C06, bounded delay without loss: a FIFO wire with a fixed one-way latency of L egress
//! rounds (no reordering, no drops), a writer that appends chunks on a schedule while
//! earlier data is still in flight, and a prompt reader. Whenever the round trip stays
//! below `retx_threshold * (retx_max + 1)` rounds the connection must not be aborted and
//! every byte, then EOF, must arrive. Spurious go-back-N retransmissions (RTT longer than
//! the retransmit threshold) re-chop the stream at other boundaries than the first
//! transmission used; this is where overlapping segments come from.

use std::cell::RefCell;
use std::collections::VecDeque;
use std::net::{IpAddr, SocketAddr};
use std::rc::Rc;

use tokio::io::{AsyncReadExt, AsyncWriteExt};
use turmoil_net::shim::tokio::net::{TcpListener, TcpStream};
use turmoil_net::{KernelConfig, Net};
use vx_core::dfs::Exec;
use vx_core::exec::Executor;
use vx_core::{Chooser, Digest, Violation};

use crate::wire::errk;

pub fn scenario(ch: &mut Chooser, thorough: bool) -> Exec {
    let lat: u32 = 1 + ch.choose("one_way_latency_rounds_minus_1", if thorough { 10 } else { 8 }) as u32;
    let (thr, max) = *ch.of("retx(threshold,max)", &[(2u32, 4u32), (3, 5), (2, 3)]);
    let mss_mtu = *ch.of("mtu", &[42u32, 44, 1500]);
    let chunk = *ch.of("chunk_bytes", &[1usize, 3, 64]);
    let gap: u32 = *ch.of("rounds_between_writes", &[1u32, 2, 5, 12]);
    let nchunks = 4usize;
    let caps = *ch.of("send_recv_caps", &[(64usize, 64usize), (512, 512), (4, 64)]);
    if 2 * lat >= thr * (max + 1) {
        // outside "bounded delay": retransmit exhaustion would be legitimate
        return Exec { outcome: 1, violation: None, features: vec!["skipped-unbounded-delay"] };
    }
    let kc = KernelConfig::default().mtu(mss_mtu).send_buf_cap(caps.0).recv_buf_cap(caps.1).retx_threshold(thr).retx_max(max);
    let mut net = Net::with_config(kc);
    let (cip, sip): (IpAddr, IpAddr) = ("10.0.0.1".parse().unwrap(), "10.0.0.2".parse().unwrap());
    let c = net.add_host(cip);
    let s = net.add_host(sip);
    let hosts = [c, s];
    let guard = net.enter();
    let round: Rc<RefCell<u32>> = Rc::new(RefCell::new(0));
    #[derive(Default)]
    struct Log {
        wrote: usize,
        werr: Option<String>,
        read: Vec<u8>,
        eof: bool,
        rerr: Option<String>,
        conn: Option<String>,
    }
    let log: Rc<RefCell<Log>> = Rc::new(RefCell::new(Log::default()));
    let mut exec = Executor::new();
    {
        let log = log.clone();
        exec.spawn(1, async move {
            let Ok(l) = TcpListener::bind(SocketAddr::new(sip, 80)).await else { return };
            let Ok((mut st, _)) = l.accept().await else { return };
            let mut buf = [0u8; 128];
            loop {
                match st.read(&mut buf).await {
                    Ok(0) => {
                        log.borrow_mut().eof = true;
                        break;
                    }
                    Ok(n) => log.borrow_mut().read.extend_from_slice(&buf[..n]),
                    Err(e) => {
                        log.borrow_mut().rerr = Some(errk(&e));
                        break;
                    }
                }
            }
            std::future::pending::<()>().await;
        });
    }
    {
        let (log, round) = (log.clone(), round.clone());
        exec.spawn(0, async move {
            let mut st = match TcpStream::connect(SocketAddr::new(sip, 80)).await {
                Ok(s) => s,
                Err(e) => {
                    log.borrow_mut().conn = Some(errk(&e));
                    return;
                }
            };
            let start = *round.borrow();
            for i in 0..nchunks {
                // wait for this chunk's slot
                let due = start + gap * i as u32;
                std::future::poll_fn(|cx| {
                    if *round.borrow() >= due {
                        std::task::Poll::Ready(())
                    } else {
                        cx.waker().wake_by_ref();
                        std::task::Poll::Pending
                    }
                })
                .await;
                let data: Vec<u8> = (0..chunk).map(|k| ((i * chunk + k) % 251) as u8).collect();
                match st.write_all(&data).await {
                    Ok(()) => log.borrow_mut().wrote += chunk,
                    Err(e) => {
                        log.borrow_mut().werr = Some(errk(&e));
                        return;
                    }
                }
            }
            if let Err(e) = st.shutdown().await {
                log.borrow_mut().werr = Some(format!("shutdown {}", errk(&e)));
            }
            std::future::pending::<()>().await;
        });
    }
    // the wire: (round at which the packet is handed over, packet), FIFO
    let mut wire: VecDeque<(u32, turmoil_net::Packet)> = VecDeque::new();
    // a window of min(send cap, recv cap) bytes moves per round trip
    let per_rtt = caps.0.min(caps.1).max(1) as u32;
    let rtts = (nchunks * chunk) as u32 / per_rtt + nchunks as u32 + 8;
    let horizon = (2 * lat + 2) * rtts + gap * nchunks as u32 + thr * (max + 2) + 40;
    let mut violation: Option<Violation> = None;
    let mut retransmissions = 0u32;
    let mut seen: std::collections::BTreeSet<(IpAddr, u32, usize)> = Default::default();
    for r in 0..horizon {
        *round.borrow_mut() = r;
        while wire.front().map(|(t, _)| *t <= r).unwrap_or(false) {
            let (_, p) = wire.pop_front().unwrap();
            guard.deliver(p);
        }
        let polls = exec.run_until_stalled(2000, |tag| turmoil_net::set_current(hosts[tag as usize]));
        let _ = polls;
        let mut out = vec![];
        guard.egress_all(&mut out);
        for p in out {
            if let turmoil_net::Transport::Tcp(sg) = &p.payload {
                if !sg.payload.is_empty() && !seen.insert((p.src, sg.seq, sg.payload.len())) {
                    retransmissions += 1;
                }
            }
            if std::env::var_os("VX_TRACE").is_some() {
                eprintln!("round {r}: emit {}", crate::wire::pkt_key(&p));
            }
            wire.push_back((r + lat, p));
        }
        let l = log.borrow();
        if l.eof && l.read.len() == nchunks * chunk {
            break;
        }
        if l.werr.is_some() || l.rerr.is_some() || l.conn.is_some() {
            break;
        }
    }
    let l = log.borrow();
    let total = nchunks * chunk;
    let want: Vec<u8> = (0..total).map(|k| (k % 251) as u8).collect();
    if !want.starts_with(&l.read) {
        violation = Some(Violation::new("prefix", format!("the reader got {:?}, not a prefix of the {} bytes written", &l.read[..l.read.len().min(16)], total)));
    } else if l.conn.is_some() || l.werr.is_some() || l.rerr.is_some() {
        violation = Some(Violation::new(
            "aborted",
            format!(
                "no packet was lost and the round trip ({} rounds) is below retx_threshold x (retx_max + 1) = {}: connect {:?}, write error {:?} after {} of {total} bytes, read error {:?} after {} bytes",
                2 * lat,
                thr * (max + 1),
                l.conn,
                l.werr,
                l.wrote,
                l.rerr,
                l.read.len()
            ),
        ));
    } else if l.read.len() != total || !l.eof {
        violation = Some(Violation::new(
            "stall",
            format!("no packet was lost, round trip {} rounds: after {horizon} rounds the reader has {} of {total} bytes, EOF seen: {}", 2 * lat, l.read.len(), l.eof),
        ));
    }
    drop(l);
    drop(exec);
    drop(guard);
    let obs = format!("lat={lat} retx=({thr},{max}) mtu={mss_mtu} chunk={chunk} gap={gap} caps={caps:?} retransmissions={retransmissions}");
    let mut feats = vec![];
    if retransmissions > 0 {
        feats.push("spurious-retransmission");
    }
    if let Some(v) = violation.as_mut() {
        v.sig = format!("fixed-latency|{}", v.clause);
        v.scenario = format!("c06-fixedlat tier={} {obs}", if thorough { "thorough" } else { "quick" });
        v.actions = vec![obs.clone()];
    }
    Exec { outcome: Digest::of64(&obs), violation, features: feats }
}
