//! Engine E, socket table (C17): histories of bind / listen / udp-connect / tcp-connect /
//! close on two hosts (H1 owns two addresses), checked step by step against a
//! reference socket table, followed — from every state — by a probe sweep: one tagged
//! UDP datagram and one TCP connect from every host to every (address, port).

use std::cell::RefCell;
use std::net::{IpAddr, SocketAddr};
use std::rc::Rc;

use turmoil_net::shim::tokio::net::{TcpListener, TcpStream, UdpSocket};
use turmoil_net::{EnterGuard, HostId, KernelConfig, Net};
use vx_core::exec::Executor;
use vx_core::{Digest, System, Violation};

use crate::wire::errk;

#[derive(Clone, Debug)]
pub struct SockCfg {
    pub name: String,
    pub v6: bool,
    pub depth: usize,
    /// which letter families are enabled
    pub udp: bool,
    pub tcp: bool,
    pub ports: Vec<u16>,
    pub h2_binds: bool,
}

impl SockCfg {
    pub fn describe(&self) -> String {
        format!(
            "{} v6={} depth={} udp={} tcp={} ports={:?} h2_binds={}",
            self.name, self.v6, self.depth, self.udp, self.tcp, self.ports, self.h2_binds
        )
    }
}

const P: u16 = 80;
const Q: u16 = 81;
const PROBE_PORT: u16 = 7;
const EPH: std::ops::RangeInclusive<u16> = 50000..=50002;

#[derive(Clone, Copy, Debug, PartialEq, Eq, Hash)]
enum AddrSel {
    Wild,
    Lo,
    A1,
    A2,
    B1,
    Unknown,
}

struct Addrs {
    wild: IpAddr,
    lo: IpAddr,
    a1: IpAddr,
    a2: IpAddr,
    b1: IpAddr,
    unknown: IpAddr,
}

fn addrs(v6: bool) -> Addrs {
    if v6 {
        Addrs {
            wild: "::".parse().unwrap(),
            lo: "::1".parse().unwrap(),
            a1: "fd00::1".parse().unwrap(),
            a2: "fd00:1::1".parse().unwrap(),
            b1: "fd00::2".parse().unwrap(),
            unknown: "fd00::99".parse().unwrap(),
        }
    } else {
        Addrs {
            wild: "0.0.0.0".parse().unwrap(),
            lo: "127.0.0.1".parse().unwrap(),
            a1: "10.0.0.1".parse().unwrap(),
            a2: "10.0.1.1".parse().unwrap(),
            b1: "10.0.0.2".parse().unwrap(),
            unknown: "10.9.9.9".parse().unwrap(),
        }
    }
}

impl Addrs {
    fn get(&self, s: AddrSel) -> IpAddr {
        match s {
            AddrSel::Wild => self.wild,
            AddrSel::Lo => self.lo,
            AddrSel::A1 => self.a1,
            AddrSel::A2 => self.a2,
            AddrSel::B1 => self.b1,
            AddrSel::Unknown => self.unknown,
        }
    }
    fn host_addrs(&self, h: usize) -> Vec<IpAddr> {
        if h == 0 {
            vec![self.a1, self.a2]
        } else {
            vec![self.b1]
        }
    }
    /// which host receives a packet sent by host `from` to `ip`
    fn owner(&self, from: usize, ip: IpAddr) -> Option<usize> {
        if ip.is_loopback() {
            return Some(from);
        }
        (0..2).find(|&h| self.host_addrs(h).contains(&ip))
    }
    /// source address host `h` uses towards `dst`
    fn src_for(&self, h: usize, dst: IpAddr) -> IpAddr {
        if dst.is_loopback() {
            self.lo
        } else {
            self.host_addrs(h)[0]
        }
    }
}

#[derive(Clone, Copy, Debug, PartialEq, Eq, Hash)]
enum Kind {
    Udp,
    Listener,
    Conn,
}

#[derive(Clone, Debug, Hash)]
struct MSock {
    host: usize,
    kind: Kind,
    addr: IpAddr,
    port: u16,
    peer: Option<SocketAddr>,
    held: bool,
    alive: bool,
    pair: Option<usize>,
    probe: bool,
}

enum Handle {
    Udp(UdpSocket),
    Listener(TcpListener),
    Stream(TcpStream),
    None,
}

#[derive(Clone, Copy, Debug)]
enum Letter {
    BindUdp(usize, AddrSel, u16),
    Listen(usize, AddrSel, u16),
    UdpConnect(usize, usize), // k-th held udp socket, peer = probe socket of host
    TcpConnect(usize, AddrSel, u16),
    /// connect that is given up (future dropped) right after its SYN has been delivered
    TcpConnectAbandon(usize, AddrSel, u16),
    /// connect whose SYN is delivered, after which the listener it reached is closed before
    /// anything else moves (the half-open child has to go with it)
    TcpConnectListenerCloses(usize, AddrSel, u16),
    Close(usize), // k-th held (non-probe) object
}

pub struct SockSys {
    handles: Vec<Handle>,
    model: Vec<MSock>,
    cfg: SockCfg,
    a: Addrs,
    hosts: [HostId; 2],
    letters: Vec<Letter>,
    steps: usize,
    log: Vec<String>,
    pub verbose: bool,
    guard: EnterGuard,
}

fn block<T: 'static>(host: HostId, fut: impl std::future::Future<Output = T> + 'static) -> Option<T> {
    // run a future that is expected to complete without any packet exchange
    let out: Rc<RefCell<Option<T>>> = Rc::new(RefCell::new(None));
    let o = out.clone();
    let mut ex = Executor::new();
    ex.spawn(0, async move {
        let r = fut.await;
        *o.borrow_mut() = Some(r);
    });
    ex.run_until_stalled(100, |_| turmoil_net::set_current(host));
    let r = out.borrow_mut().take();
    r
}

impl SockSys {
    fn cur(&self, h: usize) {
        turmoil_net::set_current(self.hosts[h]);
    }

    fn pump(&mut self, ex: &mut Executor, rounds: usize) {
        let hosts = self.hosts;
        let mut quiet = 0;
        for _ in 0..rounds {
            ex.run_until_stalled(1000, |t| turmoil_net::set_current(hosts[t as usize]));
            let mut out = vec![];
            self.guard.egress_all(&mut out);
            if out.is_empty() {
                quiet += 1;
                if quiet >= 4 {
                    break;
                }
            } else {
                quiet = 0;
            }
            for p in out {
                if self.verbose {
                    println!("      pkt {}", crate::wire::pkt_key(&p));
                }
                self.guard.deliver(p);
            }
            ex.run_until_stalled(1000, |t| turmoil_net::set_current(hosts[t as usize]));
        }
    }

    fn class_conflict(&self, host: usize, udp: bool, addr: IpAddr, port: u16) -> bool {
        self.model.iter().any(|s| {
            s.alive
                && s.host == host
                && (s.kind == Kind::Udp) == udp
                && s.port == port
                && (s.addr == addr || s.addr.is_unspecified() || addr.is_unspecified())
        })
    }

    fn eph_free(&self, host: usize, udp: bool) -> Vec<u16> {
        EPH.filter(|p| !self.model.iter().any(|s| s.alive && s.host == host && (s.kind == Kind::Udp) == udp && s.port == *p))
            .collect()
    }

    fn held_ids(&self) -> Vec<usize> {
        (0..self.model.len()).filter(|&i| self.model[i].held && !self.model[i].probe).collect()
    }

    fn find_listener(&self, host: usize, ip: IpAddr, port: u16) -> Option<usize> {
        let exact = (0..self.model.len()).find(|&i| {
            let s = &self.model[i];
            s.alive && s.host == host && s.kind == Kind::Listener && s.port == port && s.addr == ip
        });
        exact.or_else(|| {
            (0..self.model.len()).find(|&i| {
                let s = &self.model[i];
                s.alive && s.host == host && s.kind == Kind::Listener && s.port == port && s.addr.is_unspecified()
            })
        })
    }

    fn expect(&self, what: &str, got: String, want: String) -> Result<(), Violation> {
        if got != want {
            return Err(Violation::new(
                "model-divergence",
                format!("{what}: implementation returned {got}, reference socket table says {want}"),
            )
            .with_sig(format!("model-divergence|{}", what.split(' ').next().unwrap_or(""))));
        }
        Ok(())
    }

    fn do_bind(&mut self, host: usize, sel: AddrSel, port: u16, udp: bool) -> Result<(), Violation> {
        let ip = self.a.get(sel);
        let local = ip.is_unspecified() || ip.is_loopback() || self.a.host_addrs(host).contains(&ip);
        let sa = SocketAddr::new(ip, port);
        let hid = self.hosts[host];
        let res: Result<(Handle, SocketAddr), String> = if udp {
            match block(hid, async move { UdpSocket::bind(sa).await }).unwrap() {
                Ok(s) => {
                    self.cur(host);
                    let la = s.local_addr().unwrap();
                    Ok((Handle::Udp(s), la))
                }
                Err(e) => Err(errk(&e)),
            }
        } else {
            match block(hid, async move { TcpListener::bind(sa).await }).unwrap() {
                Ok(s) => {
                    self.cur(host);
                    let la = s.local_addr().unwrap();
                    Ok((Handle::Listener(s), la))
                }
                Err(e) => Err(errk(&e)),
            }
        };
        let what = format!("bind {} host{} {}:{}", if udp { "udp" } else { "tcp-listen" }, host, ip, port);
        // reference
        let want: Result<Option<u16>, &str> = if !local {
            Err("AddrNotAvailable")
        } else if port == 0 {
            let free = self.eph_free(host, udp);
            if free.is_empty() {
                Err("AddrInUse")
            } else {
                Ok(None)
            }
        } else if self.class_conflict(host, udp, ip, port) {
            Err("AddrInUse")
        } else {
            Ok(Some(port))
        };
        match (res, want) {
            (Err(g), Err(w)) => {
                self.expect(&what, g.clone(), w.to_string())?;
                self.log.push(format!("{what} -> {g}"));
            }
            (Ok((h, la)), Ok(wp)) => {
                let okport = match wp {
                    Some(p) => la.port() == p,
                    None => {
                        EPH.contains(&la.port()) && !self.class_conflict(host, udp, self.a.wild, la.port())
                    }
                };
                if la.ip() != ip || !okport {
                    return Err(Violation::new(
                        "ephemeral",
                        format!("{what}: local_addr is {la}; expected address {ip} and {}", match wp {
                            Some(p) => format!("port {p}"),
                            None => format!("an ephemeral port in {:?} not in use at any local address (free: {:?})", EPH, self.eph_free(host, udp)),
                        }),
                    ));
                }
                self.log.push(format!("{what} -> ok {la}"));
                self.handles.push(h);
                self.model.push(MSock {
                    host,
                    kind: if udp { Kind::Udp } else { Kind::Listener },
                    addr: ip,
                    port: la.port(),
                    peer: None,
                    held: true,
                    alive: true,
                    pair: None,
                    probe: false,
                });
            }
            (Ok((h, la)), Err(w)) => {
                drop(h);
                return self.expect(&what, format!("Ok({la})"), w.to_string());
            }
            (Err(g), Ok(_)) => return self.expect(&what, g, "Ok".into()),
        }
        Ok(())
    }

    /// TCP connect from `host` to (ip, port) with automatic accept; returns Ok(Some((client id,
    /// server id))) when established and kept.
    fn do_connect(&mut self, host: usize, ip: IpAddr, port: u16, keep: bool) -> Result<(), Violation> {
        let what = format!("tcp-connect host{} -> {}:{}", host, ip, port);
        let dst_host = self.a.owner(host, ip);
        let src_ip = self.a.src_for(host, ip);
        let free = self.eph_free(host, false);
        let listener = dst_host.and_then(|dh| self.find_listener(dh, ip, port));
        let want: Result<(), &str> = if free.is_empty() {
            Err("AddrInUse")
        } else if dst_host.is_none() {
            Err("TimedOut")
        } else if listener.is_none() {
            Err("ConnectionRefused")
        } else {
            Ok(())
        };
        let out: Rc<RefCell<Option<std::io::Result<TcpStream>>>> = Rc::new(RefCell::new(None));
        let o = out.clone();
        let mut ex = Executor::new();
        let sa = SocketAddr::new(ip, port);
        ex.spawn(host as u32, async move {
            let r = TcpStream::connect(sa).await;
            *o.borrow_mut() = Some(r);
        });
        self.pump(&mut ex, 12);
        let r = out.borrow_mut().take();
        let Some(r) = r else {
            self.cur(host);
            drop(ex);
            return Err(Violation::new("hang", format!("{what}: connect neither succeeded nor failed within 12 egress rounds (expected {want:?})")));
        };
        match (r, want) {
            (Err(e), Err(w)) => {
                self.expect(&what, errk(&e), w.to_string())?;
                self.log.push(format!("{what} -> {}", errk(&e)));
                // every held listener must have an empty accept queue
                self.check_no_stray_accept(&what, None)?;
            }
            (Err(e), Ok(())) => return self.expect(&what, errk(&e), "Ok".into()),
            (Ok(s), Err(w)) => {
                self.cur(host);
                let la = s.local_addr();
                drop(s);
                return self.expect(&what, format!("Ok(local {la:?})"), w.to_string());
            }
            (Ok(s), Ok(())) => {
                self.cur(host);
                let la = s.local_addr().unwrap();
                let pa = s.peer_addr().unwrap();
                if la.ip() != src_ip || !free.contains(&la.port()) || pa != sa {
                    drop(s);
                    return Err(Violation::new(
                        "ephemeral",
                        format!("{what}: stream local={la} peer={pa}; expected local {src_ip}:<one of {free:?}>, peer {sa}"),
                    ));
                }
                let lid = listener.unwrap();
                let dh = dst_host.unwrap();
                // exactly the selected listener yields the child
                let child = self.check_no_stray_accept(&what, Some((lid, la)))?;
                let child = child.expect("checked");
                self.cur(dh);
                let cl = child.local_addr().unwrap();
                let cp = child.peer_addr().unwrap();
                if cl != SocketAddr::new(ip, port) || cp != la {
                    return Err(Violation::new("addr", format!("{what}: accepted stream local={cl} peer={cp}, expected local {ip}:{port} peer {la}")));
                }
                self.log.push(format!("{what} -> ok {la}"));
                if keep {
                    let ci = self.model.len();
                    self.handles.push(Handle::Stream(s));
                    self.model.push(MSock { host, kind: Kind::Conn, addr: la.ip(), port: la.port(), peer: Some(sa), held: true, alive: true, pair: Some(ci + 1), probe: false });
                    self.handles.push(Handle::Stream(child));
                    self.model.push(MSock { host: dh, kind: Kind::Conn, addr: ip, port, peer: Some(la), held: true, alive: true, pair: Some(ci), probe: false });
                } else {
                    self.cur(host);
                    drop(s);
                    self.cur(dh);
                    drop(child);
                    let mut ex = Executor::new();
                    self.pump(&mut ex, 12);
                }
            }
        }
        Ok(())
    }

    /// Poll accept (without parking) on every held listener. `want` = (model id of the
    /// listener that must yield exactly one stream, expected peer). Everything else must
    /// be empty.
    fn check_no_stray_accept(&mut self, what: &str, want: Option<(usize, SocketAddr)>) -> Result<Option<TcpStream>, Violation> {
        let mut got = None;
        for i in 0..self.model.len() {
            if self.model[i].kind != Kind::Listener || !self.model[i].held {
                continue;
            }
            let host = self.model[i].host;
            self.cur(host);
            let Handle::Listener(l) = &self.handles[i] else { continue };
            let w = std::task::Waker::noop();
            let mut cx = std::task::Context::from_waker(w);
            loop {
                match l.poll_accept(&mut cx) {
                    std::task::Poll::Ready(Ok((s, peer))) => {
                        let expected = want.map(|(lid, p)| lid == i && p == peer).unwrap_or(false);
                        if !expected || got.is_some() {
                            let desc = format!("{}:{}", self.model[i].addr, self.model[i].port);
                            drop(s);
                            return Err(Violation::new(
                                "misrouted-syn",
                                format!("{what}: listener {desc} on host{host} accepted a connection from {peer} that the reference table routes {}", match want {
                                    Some((lid, p)) => format!("to listener {}:{} (peer {p})", self.model[lid].addr, self.model[lid].port),
                                    None => "nowhere".into(),
                                }),
                            ));
                        }
                        got = Some(s);
                    }
                    std::task::Poll::Ready(Err(e)) => {
                        return Err(Violation::new("accept-error", format!("{what}: accept failed {}", errk(&e))));
                    }
                    std::task::Poll::Pending => break,
                }
            }
        }
        if want.is_some() && got.is_none() {
            return Err(Violation::new("lost-connection", format!("{what}: connect succeeded but the selected listener has nothing to accept")));
        }
        Ok(got)
    }

    fn do_close(&mut self, id: usize) -> Result<(), Violation> {
        let host = self.model[id].host;
        self.cur(host);
        let h = std::mem::replace(&mut self.handles[id], Handle::None);
        drop(h);
        self.model[id].held = false;
        match self.model[id].kind {
            Kind::Udp | Kind::Listener => self.model[id].alive = false,
            Kind::Conn => {
                let p = self.model[id].pair.unwrap();
                if !self.model[p].held {
                    self.model[id].alive = false;
                    self.model[p].alive = false;
                }
            }
        }
        self.log.push(format!("close #{id}"));
        let mut ex = Executor::new();
        self.pump(&mut ex, 12);
        Ok(())
    }

    fn apply_letter(&mut self, l: Letter) -> Result<(), Violation> {
        match l {
            Letter::BindUdp(h, a, p) => self.do_bind(h, a, p, true),
            Letter::Listen(h, a, p) => self.do_bind(h, a, p, false),
            Letter::UdpConnect(k, ph) => {
                let ids: Vec<usize> = self.held_ids().into_iter().filter(|&i| self.model[i].kind == Kind::Udp).collect();
                let id = ids[k];
                let host = self.model[id].host;
                // peer: the probe socket of host `ph`, as that host's datagrams will appear
                let peer_ip = if ph == host { self.a.lo } else { self.a.host_addrs(ph)[0] };
                let peer = SocketAddr::new(peer_ip, PROBE_PORT);
                self.cur(host);
                let Handle::Udp(s) = std::mem::replace(&mut self.handles[id], Handle::None) else { unreachable!() };
                let hid = self.hosts[host];
                let (s, r) = block(hid, async move {
                    let r = s.connect(peer).await;
                    (s, r)
                })
                .unwrap();
                self.handles[id] = Handle::Udp(s);
                if let Err(e) = r {
                    return self.expect("udp-connect", errk(&e), "Ok".into());
                }
                self.model[id].peer = Some(peer);
                self.log.push(format!("udp-connect #{id} -> {peer}"));
                Ok(())
            }
            Letter::TcpConnect(h, a, p) => {
                let ip = self.a.get(a);
                self.do_connect(h, ip, p, true)
            }
            Letter::TcpConnectAbandon(h, a, p) => {
                let ip = self.a.get(a);
                self.do_connect_abandon(h, ip, p)
            }
            Letter::TcpConnectListenerCloses(h, a, p) => {
                let ip = self.a.get(a);
                self.do_connect_listener_closes(h, ip, p)
            }
            Letter::Close(k) => {
                let id = self.held_ids()[k];
                self.do_close(id)
            }
        }
    }

    /// The SYN of a connect is handed to the destination host, then the listener it matched
    /// (if any, and if the history still holds it) is closed before the handshake goes on.
    /// Whatever the connect returns, the tables must hold exactly the model's live sockets
    /// afterwards and nothing may be waiting in any accept queue.
    fn do_connect_listener_closes(&mut self, host: usize, ip: IpAddr, port: u16) -> Result<(), Violation> {
        let what = format!("tcp-connect host{} -> {}:{}, listener closed after the SYN", host, ip, port);
        let hosts = self.hosts;
        let lid = self.a.owner(host, ip).and_then(|dh| self.find_listener(dh, ip, port)).filter(|&l| self.model[l].held);
        let mut ex = Executor::new();
        let sa = SocketAddr::new(ip, port);
        let out: Rc<RefCell<Option<std::io::Result<TcpStream>>>> = Rc::new(RefCell::new(None));
        let o = out.clone();
        ex.spawn(host as u32, async move {
            let r = TcpStream::connect(sa).await;
            *o.borrow_mut() = Some(r);
        });
        ex.run_until_stalled(1000, |t| turmoil_net::set_current(hosts[t as usize]));
        let mut pk = vec![];
        self.guard.egress_all(&mut pk);
        for p in pk {
            self.guard.deliver(p);
        }
        if let Some(l) = lid {
            let lh = self.model[l].host;
            self.cur(lh);
            let h = std::mem::replace(&mut self.handles[l], Handle::None);
            drop(h);
            self.model[l].held = false;
            self.model[l].alive = false;
        }
        self.pump(&mut ex, 16);
        // the connecting end goes away as well, whatever became of it
        self.cur(host);
        let r = out.borrow_mut().take();
        drop(r);
        drop(ex);
        let mut ex = Executor::new();
        self.pump(&mut ex, 12);
        self.log.push(format!("{what} (listener closed: {})", lid.is_some()));
        self.check_no_stray_accept(&what, None)?;
        Ok(())
    }

    /// A connect whose future is dropped as soon as its SYN has been handed to the
    /// destination host: whatever the handshake had created on either side must go away
    /// again (the step-wise table-size invariant and the accept sweep see to that).
    fn do_connect_abandon(&mut self, host: usize, ip: IpAddr, port: u16) -> Result<(), Violation> {
        let what = format!("abandoned tcp-connect host{} -> {}:{}", host, ip, port);
        let hosts = self.hosts;
        let mut ex = Executor::new();
        let sa = SocketAddr::new(ip, port);
        ex.spawn(host as u32, async move {
            let _ = TcpStream::connect(sa).await;
        });
        ex.run_until_stalled(1000, |t| turmoil_net::set_current(hosts[t as usize]));
        let mut out = vec![];
        self.guard.egress_all(&mut out);
        for p in out {
            self.guard.deliver(p);
        }
        self.cur(host);
        drop(ex);
        let mut ex = Executor::new();
        self.pump(&mut ex, 12);
        self.log.push(format!("{what} -> given up after the SYN"));
        self.check_no_stray_accept(&what, None)?;
        Ok(())
    }

    fn all_letters(&self) -> Vec<Letter> {
        let mut v = vec![];
        let bind_addrs = [AddrSel::Wild, AddrSel::Lo, AddrSel::A1, AddrSel::A2, AddrSel::B1];
        let mut ports = self.cfg.ports.clone();
        ports.push(0);
        if self.cfg.udp {
            for &a in &bind_addrs {
                for &p in &ports {
                    v.push(Letter::BindUdp(0, a, p));
                }
            }
            if self.cfg.h2_binds {
                v.push(Letter::BindUdp(1, AddrSel::Wild, self.cfg.ports[0]));
                v.push(Letter::BindUdp(1, AddrSel::B1, self.cfg.ports[0]));
            }
        }
        if self.cfg.tcp {
            for &a in &bind_addrs {
                for &p in &ports {
                    v.push(Letter::Listen(0, a, p));
                }
            }
            if self.cfg.h2_binds {
                v.push(Letter::Listen(1, AddrSel::Wild, self.cfg.ports[0]));
            }
            for &a in &[AddrSel::Lo, AddrSel::A1, AddrSel::A2] {
                v.push(Letter::TcpConnect(0, a, self.cfg.ports[0]));
            }
            v.push(Letter::TcpConnect(1, AddrSel::A2, self.cfg.ports[0]));
            v.push(Letter::TcpConnectAbandon(1, AddrSel::A2, self.cfg.ports[0]));
            v.push(Letter::TcpConnectListenerCloses(1, AddrSel::A2, self.cfg.ports[0]));
            if self.cfg.h2_binds {
                v.push(Letter::TcpConnect(0, AddrSel::B1, self.cfg.ports[0]));
            }
        }
        v
    }

    pub fn trace_state(&self) -> String {
        let mut s = format!("    log: {:?}\n", self.log);
        for (i, m) in self.model.iter().enumerate() {
            s.push_str(&format!("    model #{i}: {m:?}\n"));
        }
        s
    }

    /// drain every held UDP socket: exactly socket `want` (if any) observes [tag] from `src`
    fn drain_expect(&mut self, what: &str, tag: u8, want: Option<usize>, src: SocketAddr) -> Result<(), Violation> {
        // drain every held udp socket
        for i in 0..self.model.len() {
            if self.model[i].kind != Kind::Udp || !self.model[i].held {
                continue;
            }
            self.cur(self.model[i].host);
            let Handle::Udp(s) = &self.handles[i] else { continue };
            let mut buf = [0u8; 4];
            let mut seen = vec![];
            while let Ok((n, f)) = s.try_recv_from(&mut buf) {
                seen.push((buf[..n].to_vec(), f));
            }
            let expect_here = want == Some(i);
            let ok = if expect_here { seen == vec![(vec![tag], src)] } else { seen.is_empty() };
            if !ok {
                return Err(Violation::new(
                    "misrouted-datagram",
                    format!(
                        "{what} (source {src}): socket #{i} {}:{} on host{} (peer {:?}) observed {:?}; the reference table delivers it to {}",
                        self.model[i].addr, self.model[i].port, self.model[i].host, self.model[i].peer, seen,
                        want.map(|w| format!("socket #{w} {}:{} on host{}", self.model[w].addr, self.model[w].port, self.model[w].host)).unwrap_or("no socket".into())
                    ),
                ));
            }
        }
        Ok(())
    }

    fn probe_sweep(&mut self) -> Result<(), Violation> {
        let dsts = [AddrSel::A1, AddrSel::A2, AddrSel::B1, AddrSel::Lo, AddrSel::Unknown];
        let mut tag: u8 = 0;
        // --- UDP (the unspecified address is a destination nobody owns either)
        let udp_dsts = [AddrSel::A1, AddrSel::A2, AddrSel::B1, AddrSel::Lo, AddrSel::Unknown, AddrSel::Wild];
        for from in 0..2usize {
            let pid = from; // probe sockets are model entries 0 and 1
            for &d in &udp_dsts {
                for &port in &[P, Q] {
                    tag += 1;
                    let ip = self.a.get(d);
                    let what = format!("udp-probe#{tag} host{from} -> {ip}:{port}");
                    self.cur(from);
                    let Handle::Udp(ps) = &self.handles[pid] else { unreachable!() };
                    let r = ps.try_send_to(&[tag], SocketAddr::new(ip, port));
                    if let Err(e) = r {
                        if d == AddrSel::Wild {
                            // refusing to send to the unspecified address is fine
                            continue;
                        }
                        return Err(Violation::new("probe-send", format!("{what}: send failed {}", errk(&e))));
                    }
                    let mut ex = Executor::new();
                    self.pump(&mut ex, 6);
                    // expected receiver
                    let src = SocketAddr::new(self.a.src_for(from, ip), PROBE_PORT);
                    let want: Option<usize> = self.a.owner(from, ip).and_then(|h| {
                        let exact = (0..self.model.len()).find(|&i| {
                            let s = &self.model[i];
                            s.alive && s.host == h && s.kind == Kind::Udp && s.port == port && s.addr == ip
                        });
                        let pick = exact.or_else(|| {
                            (0..self.model.len()).find(|&i| {
                                let s = &self.model[i];
                                s.alive && s.host == h && s.kind == Kind::Udp && s.port == port && s.addr.is_unspecified()
                            })
                        });
                        pick.filter(|&i| self.model[i].peer.map(|p| p == src).unwrap_or(true))
                    });
                    self.drain_expect(&what, tag, want, src)?;
                }
            }
        }
        // --- UDP from every held, unconnected socket of the history to the probe sockets:
        // the datagram must carry the sender's own binding as its source (the address the
        // socket is bound to; for a wildcard bind the address the host uses towards the
        // destination) and reach the probe socket of the destination's owner only
        for i in 0..self.model.len() {
            let m = self.model[i].clone();
            if m.kind != Kind::Udp || !m.held || !m.alive || m.probe || m.peer.is_some() {
                continue;
            }
            let mut dests = vec![self.a.lo];
            if !m.addr.is_loopback() {
                dests.push(self.a.host_addrs(1 - m.host)[0]);
            }
            for ip in dests {
                tag += 1;
                let what = format!("udp-probe#{tag} from held socket #{i} {}:{} on host{} -> {ip}:{PROBE_PORT}", m.addr, m.port, m.host);
                self.cur(m.host);
                let Handle::Udp(s) = &self.handles[i] else { continue };
                if let Err(e) = s.try_send_to(&[tag], SocketAddr::new(ip, PROBE_PORT)) {
                    return Err(Violation::new("probe-send", format!("{what}: send failed {}", errk(&e))));
                }
                let mut ex = Executor::new();
                self.pump(&mut ex, 6);
                let src_ip = if m.addr.is_unspecified() { self.a.src_for(m.host, ip) } else { m.addr };
                let src = SocketAddr::new(src_ip, m.port);
                let want = self.a.owner(m.host, ip); // probe sockets are model entries 0 and 1
                self.drain_expect(&what, tag, want, src)?;
            }
        }
        // --- TCP
        for from in 0..2usize {
            for &d in &dsts {
                for &port in &[P, Q] {
                    let ip = self.a.get(d);
                    self.do_connect(from, ip, port, false).map_err(|mut v| {
                        v.detail = format!("[probe] {}", v.detail);
                        v
                    })?;
                }
            }
        }
        Ok(())
    }
}

impl System for SockSys {
    type Cfg = SockCfg;

    fn init(cfg: &SockCfg) -> Self {
        let a = addrs(cfg.v6);
        let kc = KernelConfig::default().retx_threshold(2).retx_max(1);
        let mut net = Net::with_config(kc);
        let h1 = net.add_host(vec![a.a1, a.a2]);
        let h2 = net.add_host(a.b1);
        let guard = net.enter();
        turmoil_net::verif_set_ephemeral_range(a.a1, EPH);
        turmoil_net::verif_set_ephemeral_range(a.b1, EPH);
        let mut s = SockSys {
            handles: vec![],
            model: vec![],
            cfg: cfg.clone(),
            a,
            hosts: [h1, h2],
            letters: vec![],
            steps: 0,
            log: vec![],
            verbose: false,
            guard,
        };
        // probe sockets: wildcard:7 on each host
        for h in 0..2 {
            let sa = SocketAddr::new(s.a.wild, PROBE_PORT);
            let sock = block(s.hosts[h], async move { UdpSocket::bind(sa).await }).unwrap().expect("probe bind");
            s.handles.push(Handle::Udp(sock));
            s.model.push(MSock { host: h, kind: Kind::Udp, addr: s.a.wild, port: PROBE_PORT, peer: None, held: true, alive: true, pair: None, probe: true });
        }
        s.letters = s.all_letters();
        s
    }

    fn actions(&self, out: &mut Vec<u16>) {
        if self.steps >= self.cfg.depth {
            return;
        }
        for i in 0..self.letters.len() {
            out.push(i as u16);
        }
        let held = self.held_ids();
        let n_udp = held.iter().filter(|&&i| self.model[i].kind == Kind::Udp && self.model[i].peer.is_none()).count();
        // udp-connect applies to the k-th held unconnected... keep it simple: k-th held udp socket
        let udp_ids: Vec<usize> = held.iter().copied().filter(|&i| self.model[i].kind == Kind::Udp).collect();
        let _ = n_udp;
        for k in 0..udp_ids.len().min(2) {
            for ph in 0..2 {
                out.push(1000 + (k * 2 + ph) as u16);
            }
        }
        for k in 0..held.len().min(4) {
            out.push(2000 + k as u16);
        }
    }

    fn describe(&self, a: u16) -> String {
        match a {
            a if a >= 2000 => format!("close held#{}", a - 2000),
            a if a >= 1000 => format!("udp-connect udp#{} to probe socket of host{}", (a - 1000) / 2, (a - 1000) % 2),
            a => {
                let l = self.letters[a as usize];
                match l {
                    Letter::BindUdp(h, s, p) => format!("host{h}: UdpSocket::bind({}:{p})", self.a.get(s)),
                    Letter::Listen(h, s, p) => format!("host{h}: TcpListener::bind({}:{p})", self.a.get(s)),
                    Letter::TcpConnect(h, s, p) => format!("host{h}: TcpStream::connect({}:{p}) + accept", self.a.get(s)),
                    Letter::TcpConnectListenerCloses(h, s, p) => format!("host{h}: TcpStream::connect({}:{p}), SYN delivered, then the listener it reached is closed", self.a.get(s)),
                    Letter::TcpConnectAbandon(h, s, p) => format!("host{h}: TcpStream::connect({}:{p}) dropped once its SYN is delivered", self.a.get(s)),
                    _ => format!("{l:?}"),
                }
            }
        }
    }

    fn apply(&mut self, a: u16) -> Result<(), Violation> {
        self.steps += 1;
        let l = match a {
            a if a >= 2000 => Letter::Close((a - 2000) as usize),
            a if a >= 1000 => Letter::UdpConnect(((a - 1000) / 2) as usize, ((a - 1000) % 2) as usize),
            a => self.letters[a as usize],
        };
        let r = self.apply_letter(l);
        // after every step: the table must hold exactly the model's live sockets
        let r = r.and_then(|()| {
            for h in 0..2 {
                let want = self.model.iter().filter(|s| s.alive && s.host == h).count();
                let ip = self.a.host_addrs(h)[0];
                let got = turmoil_net::verif_counts(ip);
                if got.0 != want {
                    return Err(Violation::new(
                        "table-size",
                        format!("host{h}: socket table holds {} entries, reference table {}", got.0, want),
                    ));
                }
            }
            Ok(())
        });
        r.map_err(|mut v| {
            v.scenario = self.cfg.describe();
            if v.sig == v.clause {
                v.sig = format!("{}|{}", v.clause, self.cfg.name);
            }
            v
        })
    }

    fn digest(&self) -> u128 {
        let mut d = Digest::new();
        d.add_str(&turmoil_net::verif_dump());
        d.add(&self.model);
        d.add(&self.steps);
        d.finish()
    }

    fn finish(mut self) -> (u64, Option<Violation>) {
        let pre = self.log.clone();
        let r = self.probe_sweep();
        let outcome = Digest::of64(&(&pre, &self.log));
        (
            outcome,
            r.err().map(|mut v| {
                v.scenario = self.cfg.describe();
                if v.sig == v.clause {
                    v.sig = format!("{}|{}", v.clause, self.cfg.name);
                }
                v
            }),
        )
    }
}

impl Drop for SockSys {
    fn drop(&mut self) {
        // each handle must be dropped with its own host current
        for i in 0..self.handles.len() {
            let h = self.model.get(i).map(|m| m.host).unwrap_or(0);
            turmoil_net::set_current(self.hosts[h]);
            let x = std::mem::replace(&mut self.handles[i], Handle::None);
            drop(x);
        }
    }
}
