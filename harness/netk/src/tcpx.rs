//! Engine E, data-transfer graph (C06, C16): a client and a server application
//! (deterministic policies) over the real turmoil-net stack; the harness is the wire
//! and the only source of choices: end-round / deliver(i) / drop(i).

use std::cell::RefCell;
use std::collections::HashMap;
use std::net::{IpAddr, SocketAddr};
use std::rc::Rc;

use tokio::io::{AsyncReadExt, AsyncWriteExt};
use turmoil_net::shim::tokio::net::{TcpListener, TcpStream};
use turmoil_net::{EnterGuard, HostId, KernelConfig, Net, Packet, Transport};
use vx_core::exec::Executor;
use vx_core::{Digest, System, Violation};

use crate::wire::{errk, pkt_kind, Gate, Wire};

#[derive(Clone, Copy, Debug, PartialEq, Eq)]
pub enum Topo {
    TwoHosts,
    Loopback,
    OwnAddr,
}

#[derive(Clone, Copy, Debug, PartialEq, Eq)]
pub enum Mode {
    /// client writes, shuts down, then reads to EOF; server reads to EOF, then writes
    /// `s_bytes`, then drops (half-close)
    Sequential,
    /// both directions at once (owned split halves, two concurrent loops per side)
    Concurrent,
    /// client writes then drops the stream without shutdown; server reads to EOF
    DropClose,
    /// the accepting side speaks first: server writes `s_bytes` and shuts down, then reads
    /// to EOF; the client only reads until EOF and shuts down afterwards (until then the
    /// handshake ACK is the only packet it ever sent)
    ServerSpeaksFirst,
}

#[derive(Clone, Copy, Debug, PartialEq, Eq)]
pub enum Pace {
    Eager,
    /// one operation per environment action
    Stepped,
    /// does nothing until released (an extra environment choice, or the fair suffix)
    Late,
}

#[derive(Clone, Debug)]
pub struct TcpCfg {
    pub name: String,
    pub v6: bool,
    pub topo: Topo,
    pub mtu: u32,
    pub loopback_mtu: u32,
    pub send_cap: usize,
    pub recv_cap: usize,
    pub retx_threshold: u32,
    pub retx_max: u32,
    pub c_chunks: Vec<usize>,
    pub s_bytes: usize,
    pub mode: Mode,
    pub reader_buf: usize,
    pub reader: Pace,
    pub writer: Pace,
    /// delay bound (rounds), wire bound (packets), drop budget
    pub d: u32,
    pub w: usize,
    pub drops: u32,
    /// judge the delivery/no-stall half (requires the bounded-loss precondition)
    pub liveness: bool,
    /// C16 invariants (caps, MSS, window) checked on every state / packet
    pub check_caps: bool,
    /// Sequential mode: after reading to EOF the server stays silent until an explicit
    /// environment action (nothing of it acknowledges the client's FIN again by itself)
    pub server_reply_late: bool,
}

impl TcpCfg {
    pub fn base(name: &str) -> TcpCfg {
        TcpCfg {
            name: name.into(),
            v6: false,
            topo: Topo::TwoHosts,
            mtu: 41,
            loopback_mtu: 65536,
            send_cap: 2,
            recv_cap: 64,
            retx_threshold: 2,
            retx_max: 4,
            c_chunks: vec![4],
            s_bytes: 0,
            mode: Mode::Sequential,
            reader_buf: 8,
            reader: Pace::Eager,
            writer: Pace::Eager,
            d: 1,
            w: 3,
            drops: 1,
            liveness: true,
            check_caps: true,
            server_reply_late: false,
        }
    }
    pub fn total(&self) -> usize {
        self.c_chunks.iter().sum()
    }
    /// Sufficient condition for "no legitimate retransmit exhaustion": the earliest
    /// copy/ACK pair that is not hit by a drop completes before the abort round.
    pub fn bounded_loss_ok(&self) -> bool {
        // one implicit loss is budgeted on top of the D explicit drops: a data
        // segment that overtakes the handshake ACK completes the handshake on the
        // server but its payload is discarded (recovered by retransmission)
        (self.drops + 1) * self.retx_threshold + 2 * self.d + 2 < (self.retx_max + 1) * self.retx_threshold
            && self.drops < self.retx_max
    }
    pub fn horizon(&self) -> u32 {
        self.retx_threshold * (self.retx_max + 2) + 8 + (self.total() + self.s_bytes) as u32 * 2
    }
    pub fn describe(&self) -> String {
        format!(
            "{} topo={:?} v6={} mtu={} lomtu={} snd={} rcv={} T={} max={} chunks={:?} sbytes={} mode={:?} rbuf={} reader={:?} writer={:?} d={} W={} D={} live={}",
            self.name, self.topo, self.v6, self.mtu, self.loopback_mtu, self.send_cap, self.recv_cap,
            self.retx_threshold, self.retx_max, self.c_chunks, self.s_bytes, self.mode, self.reader_buf,
            self.reader, self.writer, self.d, self.w, self.drops, self.liveness
        )
    }
    fn ips(&self) -> (IpAddr, IpAddr) {
        if self.v6 {
            ("fd00::1".parse().unwrap(), "fd00::2".parse().unwrap())
        } else {
            ("10.0.0.1".parse().unwrap(), "10.0.0.2".parse().unwrap())
        }
    }
    fn header(&self) -> u32 {
        if self.v6 {
            60
        } else {
            40
        }
    }
}

pub fn pat_c(i: usize) -> u8 {
    (i as u8).wrapping_add(1)
}
pub fn pat_s(i: usize) -> u8 {
    0x80u8.wrapping_add(i as u8)
}

#[derive(Default, Debug, Clone, Hash)]
pub struct Log {
    pub c_conn: Option<Result<(), String>>,
    pub c_wrote: usize,
    pub c_werr: Option<String>,
    pub c_shut: Option<Result<(), String>>,
    pub c_closed_wr: bool,
    pub c_read: Vec<u8>,
    pub c_eof: bool,
    pub c_rerr: Option<String>,
    pub s_acc: Option<Result<(), String>>,
    pub s_read: Vec<u8>,
    pub s_eof: bool,
    pub s_rerr: Option<String>,
    pub s_wrote: usize,
    pub s_werr: Option<String>,
    pub s_closed_wr: bool,
    pub c_done: bool,
    pub s_done: bool,
    pub addr_ok: Option<bool>,
}

pub struct Shared {
    pub log: RefCell<Log>,
    pub rgate: Gate,
    pub wgate: Gate,
    /// the server's reply (Sequential mode) waits for this gate when `server_reply_late`
    pub sgate: Gate,
}

async fn write_pattern<W: AsyncWriteExt + Unpin>(
    w: &mut W,
    chunks: &[usize],
    pat: fn(usize) -> u8,
    gate: &Gate,
    mut on: impl FnMut(Result<usize, String>),
) -> bool {
    let mut off = 0;
    for &c in chunks {
        gate.pass().await;
        let data: Vec<u8> = (off..off + c).map(pat).collect();
        let mut sent = 0;
        while sent < c {
            match w.write(&data[sent..]).await {
                Ok(0) => {
                    on(Err("WriteZero".into()));
                    return false;
                }
                Ok(n) => {
                    sent += n;
                    on(Ok(n));
                }
                Err(e) => {
                    on(Err(errk(&e)));
                    return false;
                }
            }
        }
        off += c;
    }
    true
}

async fn read_all<R: AsyncReadExt + Unpin>(
    r: &mut R,
    bufsz: usize,
    gate: &Gate,
    mut on: impl FnMut(Result<&[u8], String>),
) {
    let mut buf = vec![0u8; bufsz.max(1)];
    loop {
        gate.pass().await;
        match r.read(&mut buf[..bufsz]).await {
            Ok(0) => {
                on(Ok(&[]));
                return;
            }
            Ok(n) => on(Ok(&buf[..n])),
            Err(e) => {
                on(Err(errk(&e)));
                return;
            }
        }
    }
}

async fn client(sh: Rc<Shared>, cfg: TcpCfg, server: SocketAddr) {
    let open = Gate::new_open();
    let s = match TcpStream::connect(server).await {
        Ok(s) => {
            sh.log.borrow_mut().c_conn = Some(Ok(()));
            s
        }
        Err(e) => {
            let mut l = sh.log.borrow_mut();
            l.c_conn = Some(Err(errk(&e)));
            l.c_done = true;
            return;
        }
    };
    {
        let ok = s.peer_addr().ok() == Some(server) && s.local_addr().is_ok();
        sh.log.borrow_mut().addr_ok = Some(ok);
    }
    match cfg.mode {
        Mode::ServerSpeaksFirst => {
            let mut s = s;
            read_all(&mut s, cfg.reader_buf, &open, |r| {
                let mut l = sh.log.borrow_mut();
                match r {
                    Ok([]) => l.c_eof = true,
                    Ok(b) => l.c_read.extend_from_slice(b),
                    Err(e) => l.c_rerr = Some(e),
                }
            })
            .await;
            let r = s.shutdown().await.map_err(|e| errk(&e));
            {
                let mut l = sh.log.borrow_mut();
                l.c_closed_wr = r.is_ok();
                l.c_shut = Some(r);
            }
            drop(s);
        }
        Mode::Sequential => {
            let mut s = s;
            let ok = write_pattern(&mut s, &cfg.c_chunks, pat_c, &sh.wgate, |r| {
                let mut l = sh.log.borrow_mut();
                match r {
                    Ok(n) => l.c_wrote += n,
                    Err(e) => l.c_werr = Some(e),
                }
            })
            .await;
            if ok {
                let r = s.shutdown().await.map_err(|e| errk(&e));
                let mut l = sh.log.borrow_mut();
                l.c_closed_wr = r.is_ok();
                l.c_shut = Some(r);
            }
            read_all(&mut s, cfg.reader_buf, &open, |r| {
                let mut l = sh.log.borrow_mut();
                match r {
                    Ok([]) => l.c_eof = true,
                    Ok(b) => l.c_read.extend_from_slice(b),
                    Err(e) => l.c_rerr = Some(e),
                }
            })
            .await;
            drop(s);
        }
        Mode::Concurrent => {
            let (mut rd, mut wr) = s.into_split();
            let sh1 = sh.clone();
            let sh2 = sh.clone();
            let cfg1 = cfg.clone();
            let wfut = async move {
                let ok = write_pattern(&mut wr, &cfg1.c_chunks, pat_c, &sh1.wgate, |r| {
                    let mut l = sh1.log.borrow_mut();
                    match r {
                        Ok(n) => l.c_wrote += n,
                        Err(e) => l.c_werr = Some(e),
                    }
                })
                .await;
                if ok {
                    let r = wr.shutdown().await.map_err(|e| errk(&e));
                    let mut l = sh1.log.borrow_mut();
                    l.c_closed_wr = r.is_ok();
                    l.c_shut = Some(r);
                }
                wr
            };
            let rfut = async move {
                let open = Gate::new_open();
                read_all(&mut rd, cfg.reader_buf, &open, |r| {
                    let mut l = sh2.log.borrow_mut();
                    match r {
                        Ok([]) => l.c_eof = true,
                        Ok(b) => l.c_read.extend_from_slice(b),
                        Err(e) => l.c_rerr = Some(e),
                    }
                })
                .await;
                rd
            };
            let (wr, rd) = tokio::join!(wfut, rfut);
            drop(rd);
            drop(wr);
        }
        Mode::DropClose => {
            let mut s = s;
            let _ = write_pattern(&mut s, &cfg.c_chunks, pat_c, &sh.wgate, |r| {
                let mut l = sh.log.borrow_mut();
                match r {
                    Ok(n) => l.c_wrote += n,
                    Err(e) => l.c_werr = Some(e),
                }
            })
            .await;
            sh.log.borrow_mut().c_closed_wr = true;
            drop(s);
        }
    }
    sh.log.borrow_mut().c_done = true;
}

async fn server(sh: Rc<Shared>, cfg: TcpCfg, bind: SocketAddr) {
    let l = match TcpListener::bind(bind).await {
        Ok(l) => l,
        Err(e) => {
            let mut lg = sh.log.borrow_mut();
            lg.s_acc = Some(Err(format!("bind:{}", errk(&e))));
            lg.s_done = true;
            return;
        }
    };
    let s = match l.accept().await {
        Ok((s, _peer)) => {
            sh.log.borrow_mut().s_acc = Some(Ok(()));
            s
        }
        Err(e) => {
            let mut lg = sh.log.borrow_mut();
            lg.s_acc = Some(Err(errk(&e)));
            lg.s_done = true;
            return;
        }
    };
    let s_chunks: Vec<usize> = if cfg.s_bytes == 0 { vec![] } else { vec![cfg.s_bytes] };
    let open = Gate::new_open();
    match cfg.mode {
        Mode::ServerSpeaksFirst => {
            let mut s = s;
            let ok = write_pattern(&mut s, &s_chunks, pat_s, &open, |r| {
                let mut l = sh.log.borrow_mut();
                match r {
                    Ok(n) => l.s_wrote += n,
                    Err(e) => l.s_werr = Some(e),
                }
            })
            .await;
            if ok {
                let r = s.shutdown().await;
                sh.log.borrow_mut().s_closed_wr = r.is_ok();
            }
            read_all(&mut s, cfg.reader_buf, &sh.rgate, |r| {
                let mut l = sh.log.borrow_mut();
                match r {
                    Ok([]) => l.s_eof = true,
                    Ok(b) => l.s_read.extend_from_slice(b),
                    Err(e) => l.s_rerr = Some(e),
                }
            })
            .await;
            drop(s);
        }
        Mode::Sequential | Mode::DropClose => {
            let mut s = s;
            read_all(&mut s, cfg.reader_buf, &sh.rgate, |r| {
                let mut l = sh.log.borrow_mut();
                match r {
                    Ok([]) => l.s_eof = true,
                    Ok(b) => l.s_read.extend_from_slice(b),
                    Err(e) => l.s_rerr = Some(e),
                }
            })
            .await;
            sh.sgate.pass().await;
            let _ = write_pattern(&mut s, &s_chunks, pat_s, &open, |r| {
                let mut l = sh.log.borrow_mut();
                match r {
                    Ok(n) => l.s_wrote += n,
                    Err(e) => l.s_werr = Some(e),
                }
            })
            .await;
            sh.log.borrow_mut().s_closed_wr = true;
            drop(s);
        }
        Mode::Concurrent => {
            let (mut rd, mut wr) = s.into_split();
            let sh1 = sh.clone();
            let sh2 = sh.clone();
            let rb = cfg.reader_buf;
            let wfut = async move {
                let open = Gate::new_open();
                let ok = write_pattern(&mut wr, &s_chunks, pat_s, &open, |r| {
                    let mut l = sh1.log.borrow_mut();
                    match r {
                        Ok(n) => l.s_wrote += n,
                        Err(e) => l.s_werr = Some(e),
                    }
                })
                .await;
                if ok {
                    let r = wr.shutdown().await;
                    sh1.log.borrow_mut().s_closed_wr = r.is_ok();
                }
                wr
            };
            let rfut = async move {
                read_all(&mut rd, rb, &sh2.rgate, |r| {
                    let mut l = sh2.log.borrow_mut();
                    match r {
                        Ok([]) => l.s_eof = true,
                        Ok(b) => l.s_read.extend_from_slice(b),
                        Err(e) => l.s_rerr = Some(e),
                    }
                })
                .await;
                rd
            };
            let (wr, rd) = tokio::join!(wfut, rfut);
            drop(rd);
            drop(wr);
        }
    }
    drop(l);
    sh.log.borrow_mut().s_done = true;
}

#[derive(Default, Clone, Debug)]
struct Mon {
    una: Option<u32>,
    wnd: Option<u32>,
}

pub struct TcpSys {
    // field order matters: tasks must drop while the Net is still installed
    exec: Executor,
    pub sh: Rc<Shared>,
    cfg: TcpCfg,
    hosts: Vec<HostId>,
    host_ips: Vec<IpAddr>,
    wire: Wire,
    drops_left: u32,
    rounds: u32,
    /// per direction (src endpoint -> dst endpoint) monitor of what the *sender* was told
    mon: HashMap<(SocketAddr, SocketAddr), Mon>,
    /// last window each endpoint advertised to its peer, in emission order: (src, dst) -> window
    adv: HashMap<(SocketAddr, SocketAddr), u32>,
    cause: String,
    dropped: Vec<String>,
    states_seen: Vec<&'static str>,
    pub verbose: bool,
    guard: EnterGuard,
}

pub const A_END: u16 = 0;
pub const A_GO: u16 = 1;
pub const A_GO_SERVER: u16 = 2;
pub const A_DELIVER: u16 = 100;
pub const A_DROP: u16 = 300;

impl TcpSys {
    fn run_apps(&mut self) -> Result<(), Violation> {
        if self.cfg.reader == Pace::Stepped {
            self.sh.rgate.grant();
        }
        if self.cfg.writer == Pace::Stepped {
            self.sh.wgate.grant();
        }
        let hosts = self.hosts.clone();
        let polls = self.exec.run_until_stalled(10_000, |tag| turmoil_net::set_current(hosts[tag as usize]));
        if polls >= 10_000 {
            return Err(Violation::new("livelock", "application tasks keep waking without quiescing".into()));
        }
        self.check_safety()
    }

    fn check_safety(&self) -> Result<(), Violation> {
        let l = self.sh.log.borrow();
        let cfg = &self.cfg;
        // server reads must be a prefix of what the client's writes accepted
        if l.s_read.len() > l.c_wrote || l.s_read.iter().enumerate().any(|(i, &b)| b != pat_c(i)) {
            return Err(Violation::new(
                "prefix",
                format!("server read {:?} which is not a prefix of the {} bytes the client's writes accepted", l.s_read, l.c_wrote),
            ));
        }
        if l.c_read.len() > l.s_wrote || l.c_read.iter().enumerate().any(|(i, &b)| b != pat_s(i)) {
            return Err(Violation::new(
                "prefix",
                format!("client read {:?} which is not a prefix of the {} bytes the server's writes accepted", l.c_read, l.s_wrote),
            ));
        }
        if l.s_eof && (l.s_read.len() != l.c_wrote || !l.c_closed_wr && l.c_werr.is_none() && !l.c_done) {
            return Err(Violation::new(
                "early-eof",
                format!(
                    "server saw EOF after {} bytes but the client's writes accepted {} (write side closed: {})",
                    l.s_read.len(),
                    l.c_wrote,
                    l.c_closed_wr
                ),
            ));
        }
        if l.c_eof && (l.c_read.len() != l.s_wrote || !l.s_closed_wr && !l.s_done) {
            return Err(Violation::new(
                "early-eof",
                format!("client saw EOF after {} bytes but the server's writes accepted {}", l.c_read.len(), l.s_wrote),
            ));
        }
        if l.addr_ok == Some(false) {
            return Err(Violation::new("addr", "client stream peer_addr/local_addr wrong".into()));
        }
        drop(l);
        self.check_caps()?;
        Ok(())
    }

    /// queue lengths against the configured caps (netstat view); also called between the
    /// kernel's ingress and the applications' reaction, when a buffer is at its fullest
    fn check_caps(&self) -> Result<(), Violation> {
        let cfg = &self.cfg;
        if cfg.check_caps {
            for ip in &self.host_ips {
                let ns = turmoil_net::netstat(*ip);
                for e in &ns.entries {
                    if e.proto == turmoil_net::Proto::Tcp && e.state != Some(turmoil_net::NetstatState::Listen) {
                        if e.send_q > cfg.send_cap {
                            return Err(Violation::new(
                                "send-cap",
                                format!("socket {}->{:?} queues {} unsent+unacked bytes, send_buf_cap is {}", e.local, e.peer, e.send_q, cfg.send_cap),
                            ));
                        }
                        if e.recv_q > cfg.recv_cap {
                            return Err(Violation::new(
                                "recv-cap",
                                format!("socket {}->{:?} queues {} unread bytes, recv_buf_cap is {}", e.local, e.peer, e.recv_q, cfg.recv_cap),
                            ));
                        }
                    }
                }
            }
        }
        Ok(())
    }

    fn note_states(&mut self) {
        for ip in &self.host_ips {
            let ns = turmoil_net::netstat(*ip);
            for e in &ns.entries {
                if let Some(s) = e.state {
                    let n = state_name(s);
                    if !self.states_seen.contains(&n) {
                        self.states_seen.push(n);
                    }
                }
            }
        }
    }

    fn mss_for(&self, src: IpAddr) -> usize {
        let mtu = if src.is_loopback() { self.cfg.loopback_mtu } else { self.cfg.mtu };
        let hdr = if src.is_ipv6() { 60 } else { 40 };
        mtu.saturating_sub(hdr) as usize
    }

    fn on_emit(&self, p: &Packet) -> Result<(), Violation> {
        if !self.cfg.check_caps {
            return Ok(());
        }
        if let Transport::Tcp(s) = &p.payload {
            let mss = self.mss_for(p.src);
            if s.payload.len() > mss {
                return Err(Violation::new(
                    "mss",
                    format!("segment with {} payload bytes left {} whose MSS is {}", s.payload.len(), p.src, mss),
                ));
            }
            let occupies = s.payload.len() as u32 + if s.flags.fin { 1 } else { 0 };
            if occupies > 0 && !s.flags.syn && !s.flags.rst {
                let src = SocketAddr::new(p.src, s.src_port);
                let dst = SocketAddr::new(p.dst, s.dst_port);
                if let Some(m) = self.mon.get(&(src, dst)) {
                    if let (Some(una), Some(wnd)) = (m.una, m.wnd) {
                        let end = s.seq.wrapping_add(occupies);
                        let infl = end.wrapping_sub(una);
                        if infl > wnd && infl < 0x8000_0000 {
                            return Err(Violation::new(
                                "window",
                                format!(
                                    "{}->{} emitted seq={} len={}{}: {} bytes beyond the last acknowledged byte, but the window last delivered to the sender is {}",
                                    src, dst, s.seq, s.payload.len(), if s.flags.fin { "+FIN" } else { "" }, infl, wnd
                                ),
                            ));
                        }
                    }
                }
            }
        }
        Ok(())
    }

    fn on_deliver(&mut self, p: &Packet) {
        if let Transport::Tcp(s) = &p.payload {
            // packet travels src->dst; it informs the endpoint `dst` about its sending direction dst->src
            let me = SocketAddr::new(p.dst, s.dst_port);
            let peer = SocketAddr::new(p.src, s.src_port);
            if s.flags.rst {
                self.mon.remove(&(me, peer));
                return;
            }
            let m = self.mon.entry((me, peer)).or_default();
            if s.flags.syn && !s.flags.ack {
                // fresh connection attempt: reset what we know
                *m = Mon { una: None, wnd: Some(s.window as u32) };
                return;
            }
            if s.flags.syn && s.flags.ack && m.una.is_some() {
                // a retransmitted SYN-ACK on a connection that is already established at this
                // end carries nothing new (in particular not a current window)
                return;
            }
            if s.flags.ack {
                m.wnd = Some(s.window as u32);
                m.una = Some(match m.una {
                    None => s.ack,
                    Some(u) => {
                        if s.ack.wrapping_sub(u) < 0x8000_0000 {
                            s.ack
                        } else {
                            u
                        }
                    }
                });
            }
        }
    }

    fn end_round(&mut self) -> Result<(), Violation> {
        self.wire.age_all();
        let mut out = vec![];
        self.guard.egress_all(&mut out);
        for p in &out {
            self.on_emit(p)?;
            if let Transport::Tcp(s) = &p.payload {
                if s.flags.ack && !s.flags.rst {
                    self.adv.insert(
                        (SocketAddr::new(p.src, s.src_port), SocketAddr::new(p.dst, s.dst_port)),
                        s.window as u32,
                    );
                }
            }
        }
        self.wire.add(out);
        self.rounds += 1;
        self.run_apps()
    }

    fn deliver(&mut self, i: usize) -> Result<(), Violation> {
        let p = self.wire.take(i);
        self.on_deliver(&p.pkt);
        self.guard.deliver(p.pkt);
        self.check_caps()?;
        self.run_apps()
    }

    fn quiescent(&self) -> bool {
        self.wire.is_empty() && self.exec.all_done()
    }
}

pub fn state_name(s: turmoil_net::NetstatState) -> &'static str {
    use turmoil_net::NetstatState::*;
    match s {
        Listen => "Listen",
        SynSent => "SynSent",
        SynReceived => "SynReceived",
        Established => "Established",
        FinWait1 => "FinWait1",
        FinWait2 => "FinWait2",
        CloseWait => "CloseWait",
        LastAck => "LastAck",
        Closing => "Closing",
        Closed => "Closed",
    }
}

impl System for TcpSys {
    type Cfg = TcpCfg;

    fn init(cfg: &TcpCfg) -> Self {
        let kc = KernelConfig::default()
            .mtu(cfg.mtu)
            .loopback_mtu(cfg.loopback_mtu)
            .send_buf_cap(cfg.send_cap)
            .recv_buf_cap(cfg.recv_cap)
            .retx_threshold(cfg.retx_threshold)
            .retx_max(cfg.retx_max);
        let mut net = Net::with_config(kc);
        let (cip, sip) = cfg.ips();
        let (hosts, host_ips, bind, target) = match cfg.topo {
            Topo::TwoHosts => {
                let c = net.add_host(cip);
                let s = net.add_host(sip);
                (vec![c, s], vec![cip, sip], SocketAddr::new(sip, 80), SocketAddr::new(sip, 80))
            }
            Topo::Loopback => {
                let c = net.add_host(cip);
                let lo: IpAddr = if cfg.v6 { "::1".parse().unwrap() } else { "127.0.0.1".parse().unwrap() };
                (vec![c, c], vec![cip], SocketAddr::new(lo, 80), SocketAddr::new(lo, 80))
            }
            Topo::OwnAddr => {
                let c = net.add_host(cip);
                let any: IpAddr = if cfg.v6 { "::".parse().unwrap() } else { "0.0.0.0".parse().unwrap() };
                (vec![c, c], vec![cip], SocketAddr::new(any, 80), SocketAddr::new(cip, 80))
            }
        };
        let guard = net.enter();
        let sh = Rc::new(Shared {
            log: RefCell::new(Log::default()),
            rgate: if cfg.reader == Pace::Eager { Gate::new_open() } else { Gate::default() },
            wgate: if cfg.writer == Pace::Eager { Gate::new_open() } else { Gate::default() },
            sgate: if cfg.server_reply_late { Gate::default() } else { Gate::new_open() },
        });
        let mut exec = Executor::new();
        // server first so that the listener exists before the client's SYN can arrive
        exec.spawn(1, server(sh.clone(), cfg.clone(), bind));
        exec.spawn(0, client(sh.clone(), cfg.clone(), target));
        let mut s = TcpSys {
            exec,
            sh,
            cfg: cfg.clone(),
            hosts,
            host_ips,
            wire: Wire::default(),
            drops_left: cfg.drops,
            rounds: 0,
            mon: HashMap::new(),
            adv: HashMap::new(),
            cause: String::new(),
            dropped: vec![],
            states_seen: vec![],
            verbose: false,
            guard,
        };
        let hosts = s.hosts.clone();
        s.exec.run_until_stalled(10_000, |tag| turmoil_net::set_current(hosts[tag as usize]));
        s
    }

    fn actions(&self, out: &mut Vec<u16>) {
        if self.wire.max_age() < self.cfg.d && self.wire.len() <= self.cfg.w {
            out.push(A_END);
        }
        if self.cfg.server_reply_late && !self.sh.sgate.is_open() {
            out.push(A_GO_SERVER);
        }
        if self.cfg.reader == Pace::Late && !self.sh.rgate.is_open() {
            out.push(A_GO);
        }
        let pos = self.wire.distinct_positions();
        for &i in &pos {
            out.push(A_DELIVER + i as u16);
        }
        if self.drops_left > 0 {
            for &i in &pos {
                out.push(A_DROP + i as u16);
            }
        }
    }

    fn describe(&self, a: u16) -> String {
        match a {
            A_END => "end-round".into(),
            A_GO => "reader-go".into(),
            A_GO_SERVER => "server-replies-now".into(),
            a if a >= A_DROP => {
                let p = &self.wire.pkts[(a - A_DROP) as usize];
                format!("DROP {} (age {})", p.key, p.age)
            }
            a => {
                let p = &self.wire.pkts[(a - A_DELIVER) as usize];
                format!("deliver {} (age {})", p.key, p.age)
            }
        }
    }

    fn apply(&mut self, a: u16) -> Result<(), Violation> {
        let r = match a {
            A_END => self.end_round(),
            A_GO => {
                self.sh.rgate.open();
                self.run_apps()
            }
            A_GO_SERVER => {
                self.sh.sgate.open();
                self.run_apps()
            }
            a if a >= A_DROP => {
                let p = self.wire.take((a - A_DROP) as usize);
                self.drops_left -= 1;
                self.dropped.push(pkt_kind(&p.pkt).to_string());
                self.run_apps()
            }
            a => self.deliver((a - A_DELIVER) as usize),
        };
        self.note_states();
        r.map_err(|v| self.sign(v))
    }

    fn digest(&self) -> u128 {
        let mut d = Digest::new();
        d.add_str(&turmoil_net::verif_dump());
        self.wire.digest_into(&mut d);
        d.add(&self.exec.shape());
        d.add(&*self.sh.log.borrow());
        d.add(&self.drops_left);
        d.add(&self.sh.rgate.is_open());
        d.add(&self.sh.sgate.is_open());
        d.add(&self.sh.rgate.tokens());
        d.add(&self.sh.wgate.tokens());
        // window monitor state (only when it is judged)
        {
            // the monitor decides the window invariant (C16) and the stall
            // classification (C06), so it is part of the state
            let mut m: Vec<_> = self.mon.iter().map(|(k, v)| (*k, v.una, v.wnd)).collect();
            m.sort();
            d.add(&m);
            let mut a: Vec<_> = self.adv.iter().map(|(k, v)| (*k, *v)).collect();
            a.sort();
            d.add(&a);
        }
        d.finish()
    }

    fn features(&self, out: &mut Vec<&'static str>) {
        out.extend(self.states_seen.iter().copied());
        if self.cfg.drops > self.drops_left {
            out.push("dropped");
        }
    }

    fn finish(mut self) -> (u64, Option<Violation>) {
        // fair suffix: release every gate, deliver FIFO, no more drops
        let pre = self.sh.log.borrow().clone();
        self.sh.rgate.open();
        self.sh.wgate.open();
        self.sh.sgate.open();
        let mut v = self.run_apps().err();
        let mut idle = 0;
        let h = self.cfg.horizon();
        let mut r = 0;
        while v.is_none() && r < h {
            r += 1;
            while !self.wire.is_empty() && v.is_none() {
                if self.verbose { println!("--- suffix deliver {}", self.wire.pkts[0].key); }
                v = self.deliver(0).err();
                if self.verbose { println!("{}", self.trace_state()); }
            }
            if v.is_some() {
                break;
            }
            let before = self.wire.len();
            v = self.end_round().err();
            if self.verbose { println!("--- suffix end-round\n{}", self.trace_state()); }
            if self.wire.len() == before && self.wire.is_empty() {
                idle += 1;
            } else {
                idle = 0;
            }
            if self.quiescent() && idle >= 2 {
                break;
            }
        }
        let l = self.sh.log.borrow().clone();
        // an outcome is the pair (what had been observed when the explored prefix
        // ended, what was observed at the end of the fair suffix)
        let outcome = Digest::of64(&(&pre, &l));
        if v.is_none() && self.cfg.liveness {
            let total = self.cfg.total();
            let mut why = vec![];
            if l.c_conn != Some(Ok(())) {
                why.push(format!("connect={:?}", l.c_conn));
            }
            if l.s_acc != Some(Ok(())) {
                why.push(format!("accept={:?}", l.s_acc));
            }
            if l.c_wrote != total {
                why.push(format!("client wrote {}/{}", l.c_wrote, total));
            }
            if let Some(e) = &l.c_werr {
                why.push(format!("client write error {e}"));
            }
            if matches!(l.c_shut, Some(Err(_))) {
                why.push(format!("client shutdown {:?}", l.c_shut));
            }
            if let Some(e) = &l.s_rerr {
                why.push(format!("server read error {e}"));
            }
            if l.s_read.len() != total {
                why.push(format!("server read {}/{}", l.s_read.len(), total));
            }
            if !l.s_eof {
                why.push("server never saw EOF".into());
            }
            if self.cfg.mode != Mode::DropClose {
                if let Some(e) = &l.c_rerr {
                    why.push(format!("client read error {e}"));
                }
                if let Some(e) = &l.s_werr {
                    why.push(format!("server write error {e}"));
                }
                if l.s_wrote != self.cfg.s_bytes {
                    why.push(format!("server wrote {}/{}", l.s_wrote, self.cfg.s_bytes));
                }
                if l.c_read.len() != self.cfg.s_bytes {
                    why.push(format!("client read {}/{}", l.c_read.len(), self.cfg.s_bytes));
                }
                if !l.c_eof {
                    why.push("client never saw EOF".into());
                }
            }
            if !l.c_done {
                why.push("client task parked".into());
            }
            if !l.s_done {
                why.push("server task parked".into());
            }
            if !why.is_empty() {
                let errs = l.c_werr.is_some() || l.s_rerr.is_some() || l.c_rerr.is_some() || l.s_werr.is_some()
                    || matches!(l.c_conn, Some(Err(_)));
                let clause = if errs { "aborted" } else { "stall" };
                if !errs {
                    // classify the stall for known-findings matching: was a sender left
                    // believing the window is closed although its peer's latest
                    // advertisement (in emission order) was an open window?
                    let mut causes = vec![];
                    for ((me, peer), m) in &self.mon {
                        if m.wnd == Some(0) {
                            match self.adv.get(&(*peer, *me)) {
                                Some(w) if *w > 0 => causes.push("zero-window:update-lost-or-overtaken"),
                                _ => causes.push("zero-window:never-reopened"),
                            }
                        }
                    }
                    causes.sort();
                    causes.dedup();
                    self.cause = causes.join("+");
                }
                v = Some(Violation::new(
                    clause,
                    format!(
                        "after the fair suffix ({} rounds, FIFO delivery, no further loss; {} drops so far: {:?}): {}",
                        r,
                        self.dropped.len(),
                        self.dropped,
                        why.join("; ")
                    ),
                ));
            }
        }
        let v = v.map(|v| self.sign(v));
        (outcome, v)
    }
}

impl TcpSys {
    /// Human-readable state for replays: log, wire and the TCB lines of the dump.
    pub fn trace_state(&self) -> String {
        let mut out = String::new();
        out.push_str(&format!("    log: {:?}\n", self.sh.log.borrow()));
        for p in &self.wire.pkts {
            out.push_str(&format!("    wire: {} age={}\n", p.key, p.age));
        }
        for line in turmoil_net::verif_dump().lines() {
            if let Some(i) = line.find("tcb=Some") {
                let head: String = line.chars().take(12).collect();
                out.push_str(&format!("    {head}.. {}\n", &line[i..]));
            }
        }
        out
    }

    /// Signature: clause + the deviations (dropped packet kinds, in order) + the policy
    /// class. One defect = one signature in practice.
    fn sign(&self, mut v: Violation) -> Violation {
        if v.clause == "stall" && self.cause == "zero-window:update-lost-or-overtaken" {
            v.sig = "stall|zero-window:update-lost-or-overtaken".into();
            v.scenario = self.cfg.describe();
            return v;
        }
        v.sig = format!(
            "{}{}|drops={}|reader={:?}/{}|mode={:?}",
            v.clause,
            if self.cause.is_empty() { String::new() } else { format!("({})", self.cause) },
            self.dropped.join("+"),
            self.cfg.reader,
            if self.cfg.reader_buf * 2 < self.cfg.recv_cap { "small" } else { "big" },
            self.cfg.mode
        );
        v.scenario = self.cfg.describe();
        v
    }
}
