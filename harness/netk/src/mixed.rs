//! C16, MSS clause with several connections on one host: a loopback connection and a
//! cross-host connection of the same address family have unsent data in the same egress
//! pass (either creation order, IPv4 / IPv6, several MTU pairs and write sizes). Every
//! packet that leaves a host must fit the MTU of the path it takes, every byte arrives.

use std::cell::RefCell;
use std::net::{IpAddr, SocketAddr};
use std::rc::Rc;

use tokio::io::{AsyncReadExt, AsyncWriteExt};
use turmoil_net::shim::tokio::net::{TcpListener, TcpStream};
use turmoil_net::{KernelConfig, Net, Transport};
use vx_core::dfs::Exec;
use vx_core::exec::Executor;
use vx_core::{Chooser, Digest, Violation};

pub fn scenario(ch: &mut Chooser) -> Exec {
    let v6 = ch.flag("ipv6");
    let lo_first = ch.flag("loopback_connection_created_first");
    let (mtu, lomtu) = *ch.of("mtu(external, loopback)", &[(44u32, 65536u32), (1500, 65536), (48, 44), (44, 48)]);
    let hdr: u32 = if v6 { 60 } else { 40 };
    let (mtu, lomtu) = (mtu + if v6 { 20 } else { 0 }, lomtu.max(hdr + 1) + if v6 && lomtu < 1000 { 20 } else { 0 });
    let n_lo = *ch.of("loopback_write_bytes", &[9usize, 3]);
    let n_ext = *ch.of("cross_host_write_bytes", &[9usize, 3]);
    let both_at_once = !ch.flag("writes_one_round_apart");

    let kc = KernelConfig::default().mtu(mtu).loopback_mtu(lomtu).send_buf_cap(64).recv_buf_cap(64);
    let mut net = Net::with_config(kc);
    let (aip, bip): (IpAddr, IpAddr) = if v6 { ("fd00::1".parse().unwrap(), "fd00::2".parse().unwrap()) } else { ("10.0.0.1".parse().unwrap(), "10.0.0.2".parse().unwrap()) };
    let lo: IpAddr = if v6 { "::1".parse().unwrap() } else { "127.0.0.1".parse().unwrap() };
    let a = net.add_host(aip);
    let b = net.add_host(bip);
    let hosts = [a, b];
    let guard = net.enter();
    let got: Rc<RefCell<[Vec<u8>; 2]>> = Rc::new(RefCell::new([vec![], vec![]]));
    let go: Rc<RefCell<[bool; 2]>> = Rc::new(RefCell::new([false, false]));
    let mut exec = Executor::new();
    // listeners: on A's loopback, and on B
    for (tag, bind, idx) in [(0u32, SocketAddr::new(lo, 80), 0usize), (1, SocketAddr::new(bip, 80), 1)] {
        let got = got.clone();
        exec.spawn(tag, async move {
            let Ok(l) = TcpListener::bind(bind).await else { return };
            let Ok((mut s, _)) = l.accept().await else { return };
            let mut buf = [0u8; 32];
            loop {
                match s.read(&mut buf).await {
                    Ok(0) | Err(_) => break,
                    Ok(n) => got.borrow_mut()[idx].extend_from_slice(&buf[..n]),
                }
            }
        });
    }
    exec.run_until_stalled(1000, |tag| turmoil_net::set_current(hosts[tag as usize]));
    // connectors on A, in the chosen creation order
    let order: [usize; 2] = if lo_first { [0, 1] } else { [1, 0] };
    for idx in order {
        let target = if idx == 0 { SocketAddr::new(lo, 80) } else { SocketAddr::new(bip, 80) };
        let n = if idx == 0 { n_lo } else { n_ext };
        let go = go.clone();
        exec.spawn(0, async move {
            let Ok(mut s) = TcpStream::connect(target).await else { return };
            // wait for the signal so that both connections hold unsent data in one pass
            std::future::poll_fn(|cx| {
                if go.borrow()[idx] {
                    std::task::Poll::Ready(())
                } else {
                    cx.waker().wake_by_ref();
                    std::task::Poll::Pending
                }
            })
            .await;
            let data: Vec<u8> = (0..n as u8).map(|i| i.wrapping_mul(3).wrapping_add(idx as u8 * 100)).collect();
            let _ = s.write_all(&data).await;
            let _ = s.shutdown().await;
            std::future::pending::<()>().await;
        });
    }
    let mut violation: Option<Violation> = None;
    let mut obs: Vec<String> = vec![];
    let mut wire: Vec<turmoil_net::Packet> = vec![];
    let mss = |src: IpAddr, dst: IpAddr| -> usize {
        let m = if src == dst || dst.is_loopback() || src.is_loopback() { lomtu } else { mtu };
        (m - hdr) as usize
    };
    'rounds: for round in 0..40 {
        if round == 6 {
            let mut g = go.borrow_mut();
            g[0] = true;
            g[1] = both_at_once;
        }
        if round == 7 {
            go.borrow_mut()[1] = true;
        }
        exec.run_until_stalled(200, |tag| turmoil_net::set_current(hosts[tag as usize]));
        for p in wire.drain(..) {
            guard.deliver(p);
        }
        exec.run_until_stalled(200, |tag| turmoil_net::set_current(hosts[tag as usize]));
        let mut out = vec![];
        guard.egress_all(&mut out);
        for p in &out {
            if let Transport::Tcp(s) = &p.payload {
                let m = mss(p.src, p.dst);
                if s.payload.len() > m {
                    violation = Some(Violation::new(
                        "mss",
                        format!("round {round}: a segment with {} payload bytes left {} for {}; that path's MTU is {} (MSS {m})", s.payload.len(), p.src, p.dst, m as u32 + hdr),
                    ));
                    break 'rounds;
                }
                if !s.payload.is_empty() {
                    obs.push(format!("round {round}: {}->{} {} bytes", p.src, p.dst, s.payload.len()));
                }
            }
        }
        wire = out;
    }
    if violation.is_none() {
        let g = got.borrow();
        let want = |idx: usize, n: usize| -> Vec<u8> { (0..n as u8).map(|i| i.wrapping_mul(3).wrapping_add(idx as u8 * 100)).collect() };
        if g[0] != want(0, n_lo) || g[1] != want(1, n_ext) {
            violation = Some(Violation::new("delivery", format!("after 40 loss-free rounds the loopback reader has {:?} (want {:?}) and the remote reader {:?} (want {:?})", g[0], want(0, n_lo), g[1], want(1, n_ext))));
        }
    }
    drop(exec);
    drop(guard);
    if let Some(v) = violation.as_mut() {
        v.sig = format!("mixed-paths|{}", v.clause);
        v.scenario = format!("c16-mixed v6={v6} lo_first={lo_first} mtu={mtu} lomtu={lomtu} n_lo={n_lo} n_ext={n_ext} both_at_once={both_at_once}");
        v.actions = obs.clone();
    }
    Exec { outcome: Digest::of64(&obs), violation, features: vec![] }
}

/// UDP half of C16: a datagram whose payload does not fit the MTU of the path to its
/// destination is rejected with an error and never sent; one that fits is sent. The socket's
/// own bind address (wildcard, loopback, external) does not change which MTU applies.
pub fn udp_scenario(ch: &mut Chooser) -> Exec {
    use turmoil_net::shim::tokio::net::UdpSocket;
    let v6 = ch.flag("ipv6");
    let (mtu, lomtu) = *ch.of("mtu(external, loopback)", &[(100u32, 200u32), (200, 100), (1500, 65536), (90, 90)]);
    let bind_kind = ch.choose("bind(wildcard|loopback|external)", 3);
    let dst_kind = ch.choose("destination(loopback|other host|IPv4 broadcast with SO_BROADCAST)", 3);
    if v6 && dst_kind == 2 {
        return Exec { outcome: 0, violation: None, features: vec!["skipped-no-broadcast-in-ipv6"] };
    }
    // the call the datagram goes through: send_to, or connect() followed by send / try_send,
    // or try_send_to
    let api = ch.choose("api(send_to|connect+send|connect+try_send|try_send_to)", 4);
    let hdr: u32 = if v6 { 40 } else { 20 };
    let limit = |m: u32| m.saturating_sub(hdr).saturating_sub(8) as i64;
    let path_limit = if dst_kind == 0 { limit(lomtu) } else { limit(mtu) };
    let other_limit = if dst_kind == 0 { limit(mtu) } else { limit(lomtu) };
    // sizes around the limits, and sizes whose low 16 / 17 bits alone would fit
    let size_opts: Vec<i64> = vec![path_limit - 1, path_limit, path_limit + 1, other_limit, other_limit + 1, 65_535, 65_536, 65_536 + path_limit.min(1000), 131_072 + 1];
    let size = size_opts[ch.choose("payload(limit-1|limit|limit+1|other path's limit|other path's limit+1|65535|65536|65536+small|131073)", size_opts.len())].clamp(1, 140_000) as usize;

    let kc = KernelConfig::default().mtu(mtu).loopback_mtu(lomtu);
    let mut net = Net::with_config(kc);
    let (aip, bip): (IpAddr, IpAddr) = if v6 { ("fd00::1".parse().unwrap(), "fd00::2".parse().unwrap()) } else { ("10.0.0.1".parse().unwrap(), "10.0.0.2".parse().unwrap()) };
    let lo: IpAddr = if v6 { "::1".parse().unwrap() } else { "127.0.0.1".parse().unwrap() };
    let any: IpAddr = if v6 { "::".parse().unwrap() } else { "0.0.0.0".parse().unwrap() };
    let a = net.add_host(aip);
    let b = net.add_host(bip);
    let hosts = [a, b];
    let guard = net.enter();
    let bind_ip = [any, lo, aip][bind_kind];
    let dst = SocketAddr::new(if dst_kind == 0 { lo } else if dst_kind == 1 { bip } else { "255.255.255.255".parse().unwrap() }, 9);
    let res: Rc<RefCell<Option<Result<usize, String>>>> = Rc::new(RefCell::new(None));
    let mut exec = Executor::new();
    {
        let res = res.clone();
        exec.spawn(0, async move {
            let s = match UdpSocket::bind(SocketAddr::new(bind_ip, 0)).await {
                Ok(s) => s,
                Err(e) => {
                    *res.borrow_mut() = Some(Err(format!("bind {:?}", e.kind())));
                    return;
                }
            };
            if dst_kind == 2 {
                if let Err(e) = s.set_broadcast(true) {
                    *res.borrow_mut() = Some(Err(format!("set_broadcast {:?}", e.kind())));
                    return;
                }
            }
            let payload = vec![7u8; size];
            let fe = |e: std::io::Error| format!("{:?} os={:?}", e.kind(), e.raw_os_error());
            let r = match api {
                0 => s.send_to(&payload, dst).await.map_err(fe),
                3 => s.try_send_to(&payload, dst).map_err(fe),
                _ => match s.connect(dst).await {
                    Err(e) => Err(format!("connect: {}", fe(e))),
                    Ok(()) if api == 1 => s.send(&payload).await.map_err(fe),
                    Ok(()) => s.try_send(&payload).map_err(fe),
                },
            };
            *res.borrow_mut() = Some(r);
            std::future::pending::<()>().await;
        });
    }
    exec.run_until_stalled(200, |tag| turmoil_net::set_current(hosts[tag as usize]));
    let mut out = vec![];
    guard.egress_all(&mut out);
    let sent_bytes: Vec<usize> = out
        .iter()
        .filter_map(|p| match &p.payload {
            Transport::Udp(d) => Some(d.payload.len()),
            _ => None,
        })
        .collect();
    let r = res.borrow().clone();
    let fits = size as i64 <= path_limit;
    let mut violation = None;
    let obs = format!("v6={v6} mtu={mtu} lomtu={lomtu} bind={bind_kind} api={api} dst={dst} size={size} path_limit={path_limit} -> {r:?}, on the wire {sent_bytes:?}");
    // a socket bound to the loopback address talking to another host (or the reverse) may be
    // refused for addressing reasons; only the size rule is judged there
    let cross = (bind_kind == 1 && dst_kind >= 1) || (bind_kind == 2 && dst_kind == 0);
    match (&r, fits) {
        (Some(Ok(n)), true) if *n == size => {}
        (Some(Err(_)), true) if cross => {}
        (Some(Err(e)), false) if sent_bytes.is_empty() => {
            let _ = e;
        }
        _ => {
            violation = Some(Violation::new(
                "udp-mtu",
                format!(
                    "a {size}-byte UDP payload to {dst} ({} path, MTU {}, at most {path_limit} payload bytes) through {}: the call returned {:?} and {:?} payload bytes went onto the wire; expected {}",
                    ["loopback", "external", "external (broadcast)"][dst_kind],
                    if dst_kind == 0 { lomtu } else { mtu },
                    ["send_to", "connect + send", "connect + try_send", "try_send_to"][api],
                    r,
                    sent_bytes,
                    if fits { "Ok(size)" } else { "an error and nothing sent" }
                ),
            ));
        }
    }
    drop(exec);
    drop(guard);
    if let Some(v) = violation.as_mut() {
        v.sig = "udp-mtu".into();
        v.scenario = format!("c16-udp {obs}");
        v.actions = vec![obs.clone()];
    }
    Exec { outcome: Digest::of64(&obs), violation, features: vec![] }
}
