//! vx-netk: engine E — turmoil-net kernel through the public shim, harness is the wire.

mod tcpx;
mod wire;

use std::time::Duration;

use serde_json::json;
use tcpx::{Mode, Pace, TcpCfg, TcpSys, Topo};
use vx_core::report::{Report, Tier};
use vx_core::{explore_bfs, BfsConfig};

fn run_tcp_configs(rep: &mut Report, cfgs: Vec<TcpCfg>, wall_each: Duration, max_states: usize) {
    for c in cfgs {
        let mut b = BfsConfig::new(&c.name);
        b.scenario = c.describe();
        b.bounds = c.describe();
        b.wall = wall_each;
        b.max_states = max_states;
        let st = explore_bfs::<TcpSys>(&b, &c);
        for s in st.samples.iter().take(1) {
            rep.sample(json!({"config": c.name, "history": s}));
        }
        rep.violations.extend(st.violations);
        rep.add_part(st.part);
    }
}

fn c06_configs(tier: Tier) -> Vec<TcpCfg> {
    let mut v = vec![];
    let mut add = |name: &str, f: &dyn Fn(&mut TcpCfg)| {
        let mut c = TcpCfg::base(name);
        c.check_caps = false;
        f(&mut c);
        c.liveness = c.liveness && c.bounded_loss_ok();
        v.push(c);
    };
    // MSS 1, small send buffer, one drop anywhere, eager reader
    add("mss1-snd2-t4-D1", &|c| {
        c.c_chunks = vec![4];
    });
    // small receive window, small reads (window closes and must reopen)
    add("rcv4-mss2-rbuf1-t6-D0", &|c| {
        c.mtu = 42;
        c.send_cap = 4;
        c.recv_cap = 4;
        c.c_chunks = vec![3, 3];
        c.reader_buf = 1;
        c.drops = 0;
        c.d = 1;
    });
    add("rcv2-stepped-t4-D1", &|c| {
        c.mtu = 41;
        c.send_cap = 4;
        c.recv_cap = 2;
        c.c_chunks = vec![4];
        c.reader_buf = 1;
        c.reader = Pace::Stepped;
        c.drops = 1;
    });
    // half close with reply, one drop
    add("halfclose-t2-s2-D1", &|c| {
        c.c_chunks = vec![2];
        c.s_bytes = 2;
        c.mode = Mode::Sequential;
    });
    // both directions at once through owned halves
    add("concurrent-t2-s2-D1", &|c| {
        c.c_chunks = vec![1, 1];
        c.s_bytes = 2;
        c.mode = Mode::Concurrent;
        c.send_cap = 4;
    });
    // drop without shutdown
    add("dropclose-t3-D1", &|c| {
        c.c_chunks = vec![3];
        c.mode = Mode::DropClose;
    });
    // retransmit budget exhausted: failure must surface as an error, never silent loss
    add("exhaust-T1-max1-D2", &|c| {
        c.retx_threshold = 1;
        c.retx_max = 1;
        c.drops = 2;
        c.c_chunks = vec![2];
        c.liveness = false;
    });
    add("loopback-t4", &|c| {
        c.topo = Topo::Loopback;
        c.loopback_mtu = 42;
        c.send_cap = 2;
        c.recv_cap = 2;
        c.c_chunks = vec![4];
        c.reader_buf = 1;
        c.drops = 0;
    });
    add("ownaddr-v6-t4", &|c| {
        c.topo = Topo::OwnAddr;
        c.v6 = true;
        c.mtu = 62;
        c.send_cap = 2;
        c.recv_cap = 2;
        c.c_chunks = vec![4];
        c.reader_buf = 2;
        c.drops = 0;
    });
    if tier == Tier::Thorough {
        add("mss1-snd2-t4-D2-d1", &|c| {
            c.retx_max = 4;
            c.drops = 2;
            c.c_chunks = vec![4];
        });
        add("mss1-snd2-t8-D1-d2", &|c| {
            c.retx_max = 4;
            c.d = 2;
            c.c_chunks = vec![8];
        });
        add("v6-mss2-t6-D1", &|c| {
            c.v6 = true;
            c.mtu = 62;
            c.send_cap = 4;
            c.c_chunks = vec![2, 4];
            c.reader_buf = 2;
        });
        add("rcv2-snd4-t4-D1-eager", &|c| {
            c.send_cap = 4;
            c.recv_cap = 2;
            c.reader_buf = 1;
            c.w = 3;
        });
        add("rcv4-mss2-rbuf1-t6-D1", &|c| {
            c.mtu = 42;
            c.send_cap = 4;
            c.recv_cap = 4;
            c.c_chunks = vec![3, 3];
            c.reader_buf = 1;
            c.drops = 1;
        });
        add("late-reader-rcv2-t4-D1", &|c| {
            c.recv_cap = 2;
            c.send_cap = 4;
            c.reader = Pace::Late;
            c.reader_buf = 2;
            c.liveness = false;
        });
        add("stepped-writer-t3-D1", &|c| {
            c.writer = Pace::Stepped;
            c.c_chunks = vec![1, 1, 1];
        });
        add("halfclose-t2-s2-D2", &|c| {
            c.c_chunks = vec![2];
            c.s_bytes = 2;
            c.retx_max = 4;
            c.drops = 2;
        });
        add("concurrent-t3-s3-D1-d2", &|c| {
            c.c_chunks = vec![3];
            c.s_bytes = 3;
            c.mode = Mode::Concurrent;
            c.send_cap = 4;
            c.retx_max = 4;
            c.d = 2;
        });
    }
    v
}

fn c16_configs(tier: Tier) -> Vec<TcpCfg> {
    let mut v = vec![];
    let mut add = |name: &str, f: &dyn Fn(&mut TcpCfg)| {
        let mut c = TcpCfg::base(name);
        c.check_caps = true;
        c.liveness = false;
        f(&mut c);
        v.push(c);
    };
    add("mss1-snd2-rcv2-t5-late", &|c| {
        c.send_cap = 2;
        c.recv_cap = 2;
        c.c_chunks = vec![1, 3, 1];
        c.reader = Pace::Late;
        c.reader_buf = 1;
        c.drops = 1;
    });
    add("mss2-snd5-rcv3-t7-stepped", &|c| {
        c.mtu = 42;
        c.send_cap = 5;
        c.recv_cap = 3;
        c.c_chunks = vec![7];
        c.reader = Pace::Stepped;
        c.reader_buf = 2;
        c.drops = 1;
    });
    add("mss4-snd3-rcv1-t4", &|c| {
        c.mtu = 44;
        c.send_cap = 3;
        c.recv_cap = 1;
        c.c_chunks = vec![3, 1];
        c.reader = Pace::Stepped;
        c.reader_buf = 8;
        c.drops = 0;
    });
    add("v6-mss1-snd1-rcv5-bidir", &|c| {
        c.v6 = true;
        c.mtu = 61;
        c.send_cap = 1;
        c.recv_cap = 5;
        c.c_chunks = vec![3];
        c.s_bytes = 3;
        c.mode = Mode::Concurrent;
        c.drops = 1;
    });
    add("loopback-mss1-snd3-rcv2", &|c| {
        c.topo = Topo::Loopback;
        c.loopback_mtu = 41;
        c.send_cap = 3;
        c.recv_cap = 2;
        c.c_chunks = vec![7];
        c.reader = Pace::Stepped;
        c.reader_buf = 1;
        c.drops = 0;
    });
    if tier == Tier::Thorough {
        add("mss1500-snd64-rcv5-t8", &|c| {
            c.mtu = 1500;
            c.send_cap = 64;
            c.recv_cap = 5;
            c.c_chunks = vec![7, 1];
            c.reader = Pace::Stepped;
            c.reader_buf = 2;
            c.drops = 1;
        });
        add("mss2-snd3-rcv3-t8-late-d2", &|c| {
            c.mtu = 42;
            c.send_cap = 3;
            c.recv_cap = 3;
            c.c_chunks = vec![3, 3, 2];
            c.reader = Pace::Late;
            c.reader_buf = 2;
            c.d = 2;
            c.drops = 1;
        });
        add("ownaddr-mss1-snd2-rcv2", &|c| {
            c.topo = Topo::OwnAddr;
            c.send_cap = 2;
            c.recv_cap = 2;
            c.c_chunks = vec![5];
            c.reader = Pace::Stepped;
            c.reader_buf = 1;
            c.drops = 0;
        });
    }
    v
}

fn main() {
    vx_core::install_quiet_panic_hook();
    let args: Vec<String> = std::env::args().collect();
    if args.len() < 3 {
        eprintln!("usage: vx-netk <C06|C13|C16|C17|C19> <quick|thorough> | vx-netk replay <file>");
        std::process::exit(2);
    }
    if args[1] == "replay" {
        replay(&args[2]);
        return;
    }
    let tier = Tier::parse(&args[2]);
    match args[1].as_str() {
        "C06" => {
            let mut rep = Report::new("C06", tier, "model_checking", "netk");
            rep.rule = "explicit-state BFS over environment actions (end-round / deliver(i) / drop(i)) of the real turmoil-net stack driven through the public shim; applications are deterministic policies; fair suffix from every state".into();
            rep.assumptions = vec![
                "packet duplication outside the fault model".into(),
                "payload is a position-revealing counter pattern".into(),
                "liveness judged only when D*T + 2d + 2 < (retx_max+1)*T (no legitimate retransmit exhaustion)".into(),
            ];
            let (wall, cap) = tier.pick((Duration::from_secs(40), 3_000_000), (Duration::from_secs(600), 30_000_000));
            run_tcp_configs(&mut rep, c06_configs(tier), wall, cap);
            rep.finish();
        }
        "C16" => {
            let mut rep = Report::new("C16", tier, "model_checking", "netk");
            rep.rule = "same state graph as C06 with cap / MSS / window invariants evaluated on every state and every emitted packet".into();
            let (wall, cap) = tier.pick((Duration::from_secs(40), 3_000_000), (Duration::from_secs(600), 30_000_000));
            run_tcp_configs(&mut rep, c16_configs(tier), wall, cap);
            rep.finish();
        }
        other => vx_core::machinery_error(&format!("vx-netk does not serve {other}")),
    }
}

fn replay(path: &str) {
    let txt = std::fs::read_to_string(path).unwrap_or_else(|e| vx_core::machinery_error(&format!("{e}")));
    let v: serde_json::Value = serde_json::from_str(&txt).unwrap();
    println!("property {} clause {}", v["property"], v["clause"]);
    println!("scenario: {}", v["scenario"]);
    println!("actions:");
    for a in v["actions"].as_array().cloned().unwrap_or_default() {
        println!("  {}", a.as_str().unwrap_or(""));
    }
    println!("detail: {}", v["detail"]);
}
