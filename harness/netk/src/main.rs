//! vx-netk: engine E — turmoil-net kernel through the public shim, harness is the wire.

mod tcpx;
mod wire;

use std::time::Duration;

use serde_json::json;
use tcpx::{Mode, Pace, TcpCfg, TcpSys, Topo};
use vx_core::report::{Report, Tier};
use vx_core::{explore_bfs, BfsConfig};

fn run_tcp_configs(rep: &mut Report, cfgs: Vec<TcpCfg>, wall_each: Duration, max_states: usize) {
    for c in cfgs {
        let mut b = BfsConfig::new(&c.name);
        b.scenario = c.describe();
        b.bounds = c.describe();
        b.wall = wall_each;
        b.max_states = max_states;
        let st = explore_bfs::<TcpSys>(&b, &c);
        for s in st.samples.iter().take(1) {
            rep.sample(json!({"config": c.name, "history": s}));
        }
        rep.violations.extend(st.violations);
        rep.add_part(st.part);
    }
}

fn c06_configs(tier: Tier) -> Vec<TcpCfg> {
    let mut v = vec![];
    let mut add = |name: &str, f: &dyn Fn(&mut TcpCfg)| {
        let mut c = TcpCfg::base(name);
        c.check_caps = false;
        c.w = 2;
        f(&mut c);
        c.liveness = c.liveness && c.bounded_loss_ok();
        v.push(c);
    };
    // ---- quick tier: every configuration closes (frontier empty) in seconds ----
    // MSS 1, send buffer 2, one drop anywhere, eager reader
    add("mss1-snd2-t3-D1", &|c| c.c_chunks = vec![3]);
    // small receive window drained in 1-byte reads (window closes and must reopen)
    add("rcv4-mss2-rbuf1-t6-D1", &|c| {
        c.mtu = 42;
        c.send_cap = 4;
        c.recv_cap = 4;
        c.c_chunks = vec![3, 3];
        c.reader_buf = 1;
    });
    add("rcv2-stepped-t2-D1", &|c| {
        c.send_cap = 4;
        c.recv_cap = 2;
        c.c_chunks = vec![2];
        c.reader_buf = 1;
        c.reader = Pace::Stepped;
    });
    // half close with reply
    add("halfclose-t2-s2-D1", &|c| {
        c.c_chunks = vec![2];
        c.s_bytes = 2;
    });
    // both directions at once through owned halves
    add("concurrent-t1-s1-D1", &|c| {
        c.c_chunks = vec![1];
        c.s_bytes = 1;
        c.mode = Mode::Concurrent;
        c.send_cap = 4;
    });
    // drop without shutdown
    add("dropclose-t3-D1", &|c| {
        c.c_chunks = vec![3];
        c.mode = Mode::DropClose;
    });
    // segments larger than the free receive room are accepted partially
    add("partial-mss4-rcv3-t5-D1", &|c| {
        c.mtu = 44;
        c.send_cap = 5;
        c.recv_cap = 3;
        c.c_chunks = vec![5];
        c.reader_buf = 2;
        c.reader = Pace::Stepped;
    });
    add("mss1-snd2-t2-D2", &|c| {
        c.c_chunks = vec![2];
        c.retx_max = 5;
        c.drops = 2;
    });
    // retransmit budget exhausted: failure must surface as an error, never silent loss
    add("exhaust-T1-max1-D2", &|c| {
        c.retx_threshold = 1;
        c.retx_max = 1;
        c.drops = 2;
        c.c_chunks = vec![2];
        c.liveness = false;
    });
    add("loopback-t4", &|c| {
        c.topo = Topo::Loopback;
        c.loopback_mtu = 42;
        c.send_cap = 2;
        c.recv_cap = 2;
        c.c_chunks = vec![4];
        c.reader_buf = 1;
        c.drops = 0;
    });
    add("ownaddr-v6-t4", &|c| {
        c.topo = Topo::OwnAddr;
        c.v6 = true;
        c.mtu = 62;
        c.send_cap = 2;
        c.recv_cap = 2;
        c.c_chunks = vec![4];
        c.reader_buf = 2;
        c.drops = 0;
    });
    if tier == Tier::Thorough {
        add("mss1-snd2-t4-D1-W3", &|c| {
            c.c_chunks = vec![4];
            c.w = 3;
        });
        add("mss1-snd2-t4-D2-W2", &|c| {
            c.retx_max = 5;
            c.drops = 2;
            c.c_chunks = vec![4];
        });
        add("mss1-snd2-t6-D1-d2", &|c| {
            c.retx_max = 5;
            c.d = 2;
            c.c_chunks = vec![6];
        });
        add("v6-mss2-t6-D1", &|c| {
            c.v6 = true;
            c.mtu = 62;
            c.send_cap = 4;
            c.c_chunks = vec![2, 4];
            c.reader_buf = 2;
        });
        add("rcv2-snd4-t4-D1-eager", &|c| {
            c.send_cap = 4;
            c.recv_cap = 2;
            c.c_chunks = vec![4];
            c.reader_buf = 1;
        });
        add("rcv2-stepped-t3-D1", &|c| {
            c.send_cap = 4;
            c.recv_cap = 2;
            c.c_chunks = vec![3];
            c.reader_buf = 1;
            c.reader = Pace::Stepped;
        });
        add("late-reader-rcv2-t4-D1", &|c| {
            c.recv_cap = 2;
            c.send_cap = 4;
            c.c_chunks = vec![4];
            c.reader = Pace::Late;
            c.reader_buf = 2;
            c.liveness = false;
        });
        add("stepped-writer-t3-D1", &|c| {
            c.writer = Pace::Stepped;
            c.c_chunks = vec![1, 1, 1];
        });
        add("halfclose-t2-s2-D2", &|c| {
            c.c_chunks = vec![2];
            c.s_bytes = 2;
            c.retx_max = 5;
            c.drops = 2;
        });
        add("concurrent-t2-s2-D1", &|c| {
            c.c_chunks = vec![1, 1];
            c.s_bytes = 2;
            c.mode = Mode::Concurrent;
            c.send_cap = 4;
        });
        add("dropclose-t3-D2", &|c| {
            c.c_chunks = vec![3];
            c.mode = Mode::DropClose;
            c.retx_max = 5;
            c.drops = 2;
        });
    }
    v
}

fn c16_configs(tier: Tier) -> Vec<TcpCfg> {
    let mut v = vec![];
    let mut add = |name: &str, f: &dyn Fn(&mut TcpCfg)| {
        let mut c = TcpCfg::base(name);
        c.check_caps = true;
        c.liveness = false;
        c.w = 2;
        f(&mut c);
        v.push(c);
    };
    add("mss1-snd2-rcv2-t5-late", &|c| {
        c.send_cap = 2;
        c.recv_cap = 2;
        c.c_chunks = vec![1, 3, 1];
        c.reader = Pace::Late;
        c.reader_buf = 1;
    });
    add("mss2-snd5-rcv3-t5-stepped", &|c| {
        c.mtu = 42;
        c.send_cap = 5;
        c.recv_cap = 3;
        c.c_chunks = vec![5];
        c.reader = Pace::Stepped;
        c.reader_buf = 2;
        c.drops = 0;
    });
    add("mss4-snd3-rcv1-t4", &|c| {
        c.mtu = 44;
        c.send_cap = 3;
        c.recv_cap = 1;
        c.c_chunks = vec![3, 1];
        c.reader = Pace::Stepped;
        c.reader_buf = 8;
        c.drops = 0;
    });
    add("v6-mss1-snd1-rcv5-bidir", &|c| {
        c.v6 = true;
        c.mtu = 61;
        c.send_cap = 1;
        c.recv_cap = 5;
        c.c_chunks = vec![2];
        c.s_bytes = 2;
        c.mode = Mode::Concurrent;
        c.drops = 0;
    });
    // the accepting side sends first, into a client whose receive cap is below the flight
    add("srvfirst-mss1-snd4-rcv2-s4", &|c| {
        c.send_cap = 4;
        c.recv_cap = 2;
        c.c_chunks = vec![1];
        c.s_bytes = 4;
        c.mode = Mode::Concurrent;
        c.reader_buf = 1;
        c.drops = 0;
    });
    add("loopback-mss1-snd3-rcv2", &|c| {
        c.topo = Topo::Loopback;
        c.loopback_mtu = 41;
        c.send_cap = 3;
        c.recv_cap = 2;
        c.c_chunks = vec![7];
        c.reader = Pace::Stepped;
        c.reader_buf = 1;
        c.drops = 0;
    });
    if tier == Tier::Thorough {
        add("mss2-snd5-rcv3-t7-stepped-D1", &|c| {
            c.mtu = 42;
            c.send_cap = 5;
            c.recv_cap = 3;
            c.c_chunks = vec![7];
            c.reader = Pace::Stepped;
            c.reader_buf = 2;
        });
        add("v6-mss1-snd1-rcv5-bidir-D1", &|c| {
            c.v6 = true;
            c.mtu = 61;
            c.send_cap = 1;
            c.recv_cap = 5;
            c.c_chunks = vec![3];
            c.s_bytes = 3;
            c.mode = Mode::Concurrent;
        });
        add("mss1500-snd64-rcv5-t8", &|c| {
            c.mtu = 1500;
            c.send_cap = 64;
            c.recv_cap = 5;
            c.c_chunks = vec![7, 1];
            c.reader = Pace::Stepped;
            c.reader_buf = 2;
        });
        add("mss2-snd3-rcv3-t8-late-d2", &|c| {
            c.mtu = 42;
            c.send_cap = 3;
            c.recv_cap = 3;
            c.c_chunks = vec![3, 3, 2];
            c.reader = Pace::Late;
            c.reader_buf = 2;
            c.d = 2;
        });
        add("ownaddr-mss1-snd2-rcv2", &|c| {
            c.topo = Topo::OwnAddr;
            c.send_cap = 2;
            c.recv_cap = 2;
            c.c_chunks = vec![5];
            c.reader = Pace::Stepped;
            c.reader_buf = 1;
            c.drops = 0;
        });
    }
    v
}

fn main() {
    vx_core::install_quiet_panic_hook();
    let args: Vec<String> = std::env::args().collect();
    if args.len() < 3 {
        eprintln!("usage: vx-netk <C06|C13|C16|C17|C19> <quick|thorough> | vx-netk replay <file>");
        std::process::exit(2);
    }
    if args[1] == "exp" {
        exp(&args[2]);
        return;
    }
    if args[1] == "replay" {
        replay(&args[2]);
        return;
    }
    let tier = Tier::parse(&args[2]);
    match args[1].as_str() {
        "C06" => {
            let mut rep = Report::new("C06", tier, "model_checking", "netk");
            rep.rule = "explicit-state BFS over environment actions (end-round / deliver(i) / drop(i)) of the real turmoil-net stack driven through the public shim; applications are deterministic policies; fair suffix from every state".into();
            rep.assumptions = vec![
                "packet duplication outside the fault model".into(),
                "payload is a position-revealing counter pattern".into(),
                "liveness judged only when D*T + 2d + 2 < (retx_max+1)*T (no legitimate retransmit exhaustion)".into(),
            ];
            let (wall, cap) = tier.pick((Duration::from_secs(20), 3_000_000), (Duration::from_secs(600), 40_000_000));
            run_tcp_configs(&mut rep, c06_configs(tier), wall, cap);
            rep.finish();
        }
        "C16" => {
            let mut rep = Report::new("C16", tier, "model_checking", "netk");
            rep.rule = "same state graph as C06 with cap / MSS / window invariants evaluated on every state and every emitted packet".into();
            let (wall, cap) = tier.pick((Duration::from_secs(20), 3_000_000), (Duration::from_secs(600), 40_000_000));
            run_tcp_configs(&mut rep, c16_configs(tier), wall, cap);
            rep.finish();
        }
        other => vx_core::machinery_error(&format!("vx-netk does not serve {other}")),
    }
}

fn replay(path: &str) {
    use vx_core::System;
    let (prop, scenario, choices) = vx_core::report::load_replay(path);
    let name = scenario.split_whitespace().next().unwrap_or("").to_string();
    let mut all = vec![];
    match prop.as_str() {
        "C06" => {
            all.extend(c06_configs(Tier::Thorough));
            all.extend(c06_configs(Tier::Quick));
        }
        "C16" => {
            all.extend(c16_configs(Tier::Thorough));
            all.extend(c16_configs(Tier::Quick));
        }
        _ => {}
    }
    let Some(cfg) = all.into_iter().find(|c| c.name == name) else {
        vx_core::machinery_error(&format!("replay: unknown scenario {name} for {prop}"));
    };
    println!("replaying {prop} {}", cfg.describe());
    let mut s = TcpSys::init(&cfg);
    s.verbose = true;
    for (i, &a) in choices.iter().enumerate() {
        let a = a as u16;
        println!("--- step {i}: {}", s.describe(a));
        let r = vx_core::catch(|| s.apply(a));
        println!("{}", s.trace_state());
        match r {
            Ok(Ok(())) => {}
            Ok(Err(v)) => {
                println!("VIOLATION clause={} : {}", v.clause, v.detail);
                std::process::exit(1);
            }
            Err(p) => {
                println!("PANIC {p}");
                std::process::exit(1);
            }
        }
    }
    println!("--- fair suffix");
    let (_, v) = s.finish();
    match v {
        Some(v) => {
            println!("VIOLATION clause={} : {}", v.clause, v.detail);
            std::process::exit(1);
        }
        None => println!("no violation on this history"),
    }
}

/// ad-hoc sizing experiments: vx-netk exp key=val,key=val
fn exp(spec: &str) {
    let mut c = TcpCfg::base("exp");
    c.check_caps = false;
    for kv in spec.split(',') {
        let (k, v) = kv.split_once('=').unwrap_or((kv, ""));
        match k {
            "T" => c.retx_threshold = v.parse().unwrap(),
            "max" => c.retx_max = v.parse().unwrap(),
            "W" => c.w = v.parse().unwrap(),
            "d" => c.d = v.parse().unwrap(),
            "D" => c.drops = v.parse().unwrap(),
            "mtu" => c.mtu = v.parse().unwrap(),
            "snd" => c.send_cap = v.parse().unwrap(),
            "rcv" => c.recv_cap = v.parse().unwrap(),
            "rbuf" => c.reader_buf = v.parse().unwrap(),
            "sbytes" => c.s_bytes = v.parse().unwrap(),
            "chunks" => c.c_chunks = v.split('+').map(|x| x.parse().unwrap()).collect(),
            "mode" => c.mode = match v { "seq" => Mode::Sequential, "conc" => Mode::Concurrent, _ => Mode::DropClose },
            "reader" => c.reader = match v { "eager" => Pace::Eager, "stepped" => Pace::Stepped, _ => Pace::Late },
            "writer" => c.writer = match v { "eager" => Pace::Eager, _ => Pace::Stepped },
            "caps" => c.check_caps = v == "1",
            "live" => c.liveness = v == "1",
            _ => panic!("unknown key {k}"),
        }
    }
    c.liveness = c.liveness && c.bounded_loss_ok();
    let mut b = BfsConfig::new("exp");
    b.wall = Duration::from_secs(120);
    let t = std::time::Instant::now();
    let st = explore_bfs::<TcpSys>(&b, &c);
    println!("{}", c.describe());
    println!(
        "states={} transitions={} execs={} outcomes={} depth={} closed={} violations={} caps={:?} {:.1}s",
        st.part.states, st.part.transitions, st.part.executions, st.part.distinct_outcomes, st.part.max_depth,
        st.closed, st.violations.len(), st.part.caps_hit, t.elapsed().as_secs_f64()
    );
    for v in st.violations.iter().take(3) {
        println!("  {} :: {}", v.sig, v.detail);
    }
}
