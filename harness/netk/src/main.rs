//! vx-netk: engine E — turmoil-net kernel through the public shim, harness is the wire.

mod backlog;
mod fixedlat;
mod life;
mod mixed;
mod portwrap;
mod rules;
mod sock;
mod tcpx;
mod wire;

use std::time::Duration;

use serde_json::json;
use life::{LifeCfg, LifeSys};
use sock::{SockCfg, SockSys};
use tcpx::{Mode, Pace, TcpCfg, TcpSys, Topo};
use vx_core::report::{Report, Tier};
use vx_core::{explore_bfs, BfsConfig};

fn run_tcp_configs(rep: &mut Report, cfgs: Vec<TcpCfg>, wall_each: Duration, max_states: usize) {
    for c in cfgs {
        let mut b = BfsConfig::new(&c.name);
        b.scenario = c.describe();
        b.bounds = c.describe();
        b.wall = wall_each;
        b.max_states = max_states;
        let st = explore_bfs::<TcpSys>(&b, &c);
        for s in st.samples.iter().take(1) {
            rep.sample(json!({"config": c.name, "history": s}));
        }
        rep.violations.extend(st.violations);
        rep.add_part(st.part);
    }
}

fn c06_configs(tier: Tier) -> Vec<TcpCfg> {
    let mut v = vec![];
    let mut add = |name: &str, f: &dyn Fn(&mut TcpCfg)| {
        let mut c = TcpCfg::base(name);
        c.check_caps = false;
        c.w = 2;
        f(&mut c);
        c.liveness = c.liveness && c.bounded_loss_ok();
        v.push(c);
    };
    // ---- quick tier: every configuration closes (frontier empty) in seconds ----
    // MSS 1, send buffer 2, one drop anywhere, eager reader
    add("mss1-snd2-t3-D1", &|c| c.c_chunks = vec![3]);
    // small receive window drained in 1-byte reads (window closes and must reopen)
    add("rcv4-mss2-rbuf1-t6-D1", &|c| {
        c.mtu = 42;
        c.send_cap = 4;
        c.recv_cap = 4;
        c.c_chunks = vec![3, 3];
        c.reader_buf = 1;
    });
    add("rcv2-stepped-t2-D1", &|c| {
        c.send_cap = 4;
        c.recv_cap = 2;
        c.c_chunks = vec![2];
        c.reader_buf = 1;
        c.reader = Pace::Stepped;
    });
    // half close with reply
    add(if tier == Tier::Thorough { "halfclose-t2-s2-D1" } else { "halfclose-t2-s1-D1" }, &|c| {
        c.c_chunks = vec![2];
        c.s_bytes = tier.pick(1, 2);
    });
    // both directions at once through owned halves
    add("concurrent-t1-s1-D1", &|c| {
        c.c_chunks = vec![1];
        c.s_bytes = 1;
        c.mode = Mode::Concurrent;
        c.send_cap = 4;
    });
    // drop without shutdown
    add("dropclose-t3-D1", &|c| {
        c.c_chunks = vec![3];
        c.mode = Mode::DropClose;
    });
    // segments larger than the free receive room are accepted partially
    add(if tier == Tier::Thorough { "partial-mss4-rcv3-t5-D1" } else { "partial-mss4-rcv3-t4-D1" }, &|c| {
        c.mtu = 44;
        c.send_cap = 5;
        c.recv_cap = 3;
        c.c_chunks = vec![tier.pick(4, 5)];
        c.reader_buf = 2;
        c.reader = Pace::Stepped;
    });
    // the receive buffer fills completely (window 0) and is then drained in reads smaller
    // than half the cap: the first such read has to reopen the window
    add("rcv4-full-then-1byte-reads-t5-D0", &|c| {
        c.mtu = 44;
        c.send_cap = 5;
        c.recv_cap = 4;
        c.c_chunks = vec![5];
        c.reader_buf = 1;
        c.reader = Pace::Stepped;
        c.drops = 0;
    });
    add("mss1-snd2-t2-D2", &|c| {
        c.c_chunks = vec![2];
        c.retx_max = 5;
        c.drops = 2;
    });
    // retransmit budget exhausted: failure must surface as an error, never silent loss
    add("exhaust-T1-max1-D2", &|c| {
        c.retx_threshold = 1;
        c.retx_max = 1;
        c.drops = 2;
        c.c_chunks = vec![2];
        c.liveness = false;
    });
    // abort while the peer's data and FIN sit unread: the error must still surface
    add("exhaust-bidir-unread-T2-max1-D2", &|c| {
        c.retx_threshold = 2;
        c.retx_max = 1;
        c.drops = 2;
        c.c_chunks = vec![1];
        c.s_bytes = 1;
        c.mode = Mode::Concurrent;
        c.reader = Pace::Late;
        c.liveness = false;
        c.w = 1;
    });
    // only the accepting side writes: the handshake ACK is the client's only packet until
    // it has something to acknowledge, and it may be the one that is lost
    add("server-speaks-first-s2-D1", &|c| {
        c.c_chunks = vec![];
        c.s_bytes = 2;
        c.mode = Mode::ServerSpeaksFirst;
        c.send_cap = 4;
    });
    // half close where the other side stays silent for a long time after it has seen the
    // FIN: only re-ACKs of the retransmitted FIN keep the closer's retransmit budget alive
    add("halfclose-silent-server-t1-s1-D1", &|c| {
        c.c_chunks = vec![1];
        c.s_bytes = 1;
        c.server_reply_late = true;
        c.w = 1;
    });
    add("loopback-t4", &|c| {
        c.topo = Topo::Loopback;
        c.loopback_mtu = 42;
        c.send_cap = 2;
        c.recv_cap = 2;
        c.c_chunks = vec![4];
        c.reader_buf = 1;
        c.drops = 0;
    });
    add("ownaddr-v6-t4", &|c| {
        c.topo = Topo::OwnAddr;
        c.v6 = true;
        c.mtu = 62;
        c.send_cap = 2;
        c.recv_cap = 2;
        c.c_chunks = vec![4];
        c.reader_buf = 2;
        c.drops = 0;
    });
    if tier == Tier::Thorough {
        add("mss1-snd2-t4-D1-W3", &|c| {
            c.c_chunks = vec![4];
            c.w = 3;
        });
        add("mss1-snd2-t4-D2-W2", &|c| {
            c.retx_max = 5;
            c.drops = 2;
            c.c_chunks = vec![4];
        });
        add("mss1-snd2-t6-D1-d2", &|c| {
            c.retx_max = 5;
            c.d = 2;
            c.c_chunks = vec![6];
        });
        add("v6-mss2-t6-D1", &|c| {
            c.v6 = true;
            c.mtu = 62;
            c.send_cap = 4;
            c.c_chunks = vec![2, 4];
            c.reader_buf = 2;
        });
        add("rcv2-snd4-t4-D1-eager", &|c| {
            c.send_cap = 4;
            c.recv_cap = 2;
            c.c_chunks = vec![4];
            c.reader_buf = 1;
        });
        add("rcv2-stepped-t3-D1", &|c| {
            c.send_cap = 4;
            c.recv_cap = 2;
            c.c_chunks = vec![3];
            c.reader_buf = 1;
            c.reader = Pace::Stepped;
        });
        add("late-reader-rcv2-t4-D1", &|c| {
            c.recv_cap = 2;
            c.send_cap = 4;
            c.c_chunks = vec![4];
            c.reader = Pace::Late;
            c.reader_buf = 2;
            c.liveness = false;
        });
        add("stepped-writer-t3-D1", &|c| {
            c.writer = Pace::Stepped;
            c.c_chunks = vec![1, 1, 1];
        });
        add("halfclose-t2-s2-D2", &|c| {
            c.c_chunks = vec![2];
            c.s_bytes = 2;
            c.retx_max = 5;
            c.drops = 2;
        });
        add("concurrent-t2-s2-D1", &|c| {
            c.c_chunks = vec![1, 1];
            c.s_bytes = 2;
            c.mode = Mode::Concurrent;
            c.send_cap = 4;
        });
        add("dropclose-t3-D2", &|c| {
            c.c_chunks = vec![3];
            c.mode = Mode::DropClose;
            c.retx_max = 5;
            c.drops = 2;
        });
    }
    v
}

fn c16_configs(tier: Tier) -> Vec<TcpCfg> {
    let mut v = vec![];
    let mut add = |name: &str, f: &dyn Fn(&mut TcpCfg)| {
        let mut c = TcpCfg::base(name);
        c.check_caps = true;
        c.liveness = false;
        c.w = 2;
        f(&mut c);
        v.push(c);
    };
    add("mss1-snd2-rcv2-t5-late", &|c| {
        c.send_cap = 2;
        c.recv_cap = 2;
        c.c_chunks = vec![1, 3, 1];
        c.reader = Pace::Late;
        c.reader_buf = 1;
    });
    add(if tier == Tier::Thorough { "mss2-snd5-rcv3-t5-stepped" } else { "mss2-snd5-rcv3-t4-stepped" }, &|c| {
        c.mtu = 42;
        c.send_cap = 5;
        c.recv_cap = 3;
        c.c_chunks = vec![tier.pick(4, 5)];
        c.reader = Pace::Stepped;
        c.reader_buf = 2;
        c.drops = 0;
    });
    add("mss4-snd3-rcv1-t4", &|c| {
        c.mtu = 44;
        c.send_cap = 3;
        c.recv_cap = 1;
        c.c_chunks = vec![3, 1];
        c.reader = Pace::Stepped;
        c.reader_buf = 8;
        c.drops = 0;
    });
    add("v6-mss1-snd1-rcv5-bidir", &|c| {
        c.v6 = true;
        c.mtu = 61;
        c.send_cap = 1;
        c.recv_cap = 5;
        c.c_chunks = vec![2];
        c.s_bytes = 2;
        c.mode = Mode::Concurrent;
        c.drops = 0;
    });
    // a first burst beyond the receiver's room is accepted partially; with one packet lost the
    // go-back-N retransmission overlaps what the receiver already holds while the reader lags
    add(if tier == Tier::Thorough { "partial-overlap-mss4-rcv3-t5-D1" } else { "partial-overlap-mss4-rcv3-t4-D1" }, &|c| {
        c.mtu = 44;
        c.send_cap = 5;
        c.recv_cap = 3;
        c.c_chunks = vec![tier.pick(4, 5)];
        c.reader = Pace::Late;
        c.reader_buf = 2;
        c.drops = 1;
    });
    // the accepting side sends first, into a client whose receive cap is below the flight
    add(if tier == Tier::Thorough { "srvfirst-mss1-snd4-rcv2-s4" } else { "srvfirst-mss1-snd2-rcv1-s2" }, &|c| {
        c.send_cap = tier.pick(2, 4);
        c.recv_cap = tier.pick(1, 2);
        c.c_chunks = vec![1];
        c.s_bytes = tier.pick(2, 4);
        c.mode = Mode::Concurrent;
        c.reader_buf = 1;
        c.drops = 0;
    });
    add("loopback-mss1-snd3-rcv2", &|c| {
        c.topo = Topo::Loopback;
        c.loopback_mtu = 41;
        c.send_cap = 3;
        c.recv_cap = 2;
        c.c_chunks = vec![7];
        c.reader = Pace::Stepped;
        c.reader_buf = 1;
        c.drops = 0;
    });
    if tier == Tier::Thorough {
        add("mss2-snd5-rcv3-t7-stepped-D1", &|c| {
            c.mtu = 42;
            c.send_cap = 5;
            c.recv_cap = 3;
            c.c_chunks = vec![7];
            c.reader = Pace::Stepped;
            c.reader_buf = 2;
        });
        add("v6-mss1-snd1-rcv5-bidir-D1", &|c| {
            c.v6 = true;
            c.mtu = 61;
            c.send_cap = 1;
            c.recv_cap = 5;
            c.c_chunks = vec![3];
            c.s_bytes = 3;
            c.mode = Mode::Concurrent;
        });
        add("mss1500-snd64-rcv5-t8", &|c| {
            c.mtu = 1500;
            c.send_cap = 64;
            c.recv_cap = 5;
            c.c_chunks = vec![7, 1];
            c.reader = Pace::Stepped;
            c.reader_buf = 2;
        });
        add("mss2-snd3-rcv3-t8-late-d2", &|c| {
            c.mtu = 42;
            c.send_cap = 3;
            c.recv_cap = 3;
            c.c_chunks = vec![3, 3, 2];
            c.reader = Pace::Late;
            c.reader_buf = 2;
            c.d = 2;
        });
        add("ownaddr-mss1-snd2-rcv2", &|c| {
            c.topo = Topo::OwnAddr;
            c.send_cap = 2;
            c.recv_cap = 2;
            c.c_chunks = vec![5];
            c.reader = Pace::Stepped;
            c.reader_buf = 1;
            c.drops = 0;
        });
    }
    v
}

fn c17_configs(tier: Tier) -> Vec<SockCfg> {
    let mk = |name: &str, v6: bool, depth: usize, udp: bool, tcp: bool, ports: Vec<u16>, h2: bool| SockCfg {
        name: name.into(),
        v6,
        depth,
        udp,
        tcp,
        ports,
        h2_binds: h2,
    };
    let mut v = vec![
        mk("v4-udp-d4", false, 4, true, false, vec![80], true),
        mk("v4-tcp-d4", false, 4, false, true, vec![80], true),
        mk("v6-mixed-d3-pq", true, 3, true, true, vec![80, 81], true),
    ];
    if tier == Tier::Thorough {
        v.push(mk("v4-udp-d5-pq", false, 5, true, false, vec![80, 81], true));
        v.push(mk("v4-tcp-d5", false, 5, false, true, vec![80], true));
        v.push(mk("v4-mixed-d4-pq", false, 4, true, true, vec![80, 81], true));
        v.push(mk("v6-tcp-d5", true, 5, false, true, vec![80], false));
        v.push(mk("v4-udp-d6", false, 6, true, false, vec![80], false));
        v.push(mk("v4-tcp-d6", false, 6, false, true, vec![80], false));
        v.push(mk("v6-mixed-d4-pq", true, 4, true, true, vec![80, 81], true));
    }
    v
}

fn c13_configs(tier: Tier) -> Vec<LifeCfg> {
    let mut v = vec![];
    let mut add = |name: &str, f: &dyn Fn(&mut LifeCfg)| {
        let mut c = LifeCfg::base(name);
        f(&mut c);
        v.push(c);
    };
    add("one-conn-D0", &|c| {
        c.attempts = 1;
        c.max_depth = if tier == Tier::Quick { 15 } else { 40 };
    });
    add("one-conn-D1-nowrite", &|c| {
        c.attempts = 1;
        c.drops = 1;
        c.allow_write = false;
        c.allow_listener_drop = false;
    });
    add("two-conn-D0-nowrite", &|c| {
        c.attempts = 2;
        c.allow_write = false;
        c.allow_listener_drop = false;
        c.max_depth = if tier == Tier::Quick { 19 } else { 40 };
    });
    add("refused-start", &|c| {
        c.attempts = 2;
        c.start_listening = false;
        c.allow_write = false;
        c.max_depth = if tier == Tier::Quick { 17 } else { 30 };
    });
    if tier == Tier::Thorough {
        add("two-conn-D0", &|c| {
            c.attempts = 2;
            c.max_depth = 30;
        });
        add("three-conn-D0-nowrite", &|c| {
            c.attempts = 3;
            c.allow_write = false;
            c.max_depth = 30;
        });
        add("one-conn-D2", &|c| {
            c.attempts = 1;
            c.drops = 2;
            c.retx_max = 5;
        });
        add("two-conn-backlog2-D1", &|c| {
            c.attempts = 2;
            c.backlog = 2;
            c.drops = 1;
            c.allow_write = false;
            c.max_depth = 28;
        });
        add("one-conn-D1-d2", &|c| {
            c.attempts = 1;
            c.drops = 1;
            c.d = 2;
            c.retx_max = 5;
        });
    }
    v
}

fn main() {
    vx_core::install_quiet_panic_hook();
    let args: Vec<String> = std::env::args().collect();
    if args.len() < 3 {
        eprintln!("usage: vx-netk <C06|C13|C16|C17|C19> <quick|thorough> | vx-netk replay <file>");
        std::process::exit(2);
    }
    if args[1] == "exp" {
        exp(&args[2]);
        return;
    }
    if args[1] == "replay" {
        replay(&args[2]);
        return;
    }
    let tier = Tier::parse(&args[2]);
    match args[1].as_str() {
        "C06" => {
            let mut rep = Report::new("C06", tier, "model_checking", "netk");
            rep.rule = "explicit-state BFS over environment actions (end-round / deliver(i) / drop(i)) of the real turmoil-net stack driven through the public shim; applications are deterministic policies; fair suffix from every state".into();
            rep.assumptions = vec![
                "packet duplication outside the fault model".into(),
                "payload is a position-revealing counter pattern".into(),
                "liveness judged only when D*T + 2d + 2 < (retx_max+1)*T (no legitimate retransmit exhaustion)".into(),
            ];
            let (wall, cap) = tier.pick((Duration::from_secs(45), 3_000_000), (Duration::from_secs(300), 40_000_000));
            run_tcp_configs(&mut rep, c06_configs(tier), wall, cap);
            {
                // bounded delay without loss: fixed one-way latency on a FIFO wire, writer
                // appending while earlier data is in flight (deterministic runs over a grid)
                let mut d = vx_core::DfsConfig::new("fixed-latency-grid-no-loss", 0);
                d.wall = wall;
                let thorough = tier == Tier::Thorough;
                let st = vx_core::explore_dfs(&d, move |ch| fixedlat::scenario(ch, thorough));
                rep.violations.extend(st.violations);
                rep.add_part(st.part);
            }
            {
                // both directions at once, one side busy (not reading) while the other streams
                // more than the buffers hold; fixed latency, no loss
                let mut d = vx_core::DfsConfig::new("fixed-latency-grid-bidirectional-busy-side", 0);
                d.wall = wall;
                let thorough = tier == Tier::Thorough;
                let st = vx_core::explore_dfs(&d, move |ch| fixedlat::bidir_scenario(ch, thorough));
                rep.violations.extend(st.violations);
                rep.add_part(st.part);
            }
            {
                // request / reply with the replying stream dropped while the reply is still
                // queued; round trips above the retransmit threshold, so duplicates of data that
                // has arrived reach the lingering socket; fixed latency, no loss
                let mut d = vx_core::DfsConfig::new("fixed-latency-grid-reply-then-drop", 0);
                d.wall = wall;
                let thorough = tier == Tier::Thorough;
                let st = vx_core::explore_dfs(&d, move |ch| fixedlat::reply_then_drop_scenario(ch, thorough));
                rep.violations.extend(st.violations);
                rep.add_part(st.part);
            }
            {
                // one side streams until the other side's single byte arrives; that byte is lost
                // once or twice while the stream (every segment an ACK) keeps flowing
                let mut d = vx_core::DfsConfig::new("fixed-latency-grid-stream-until-stop", 0);
                d.wall = wall;
                let thorough = tier == Tier::Thorough;
                let st = vx_core::explore_dfs(&d, move |ch| fixedlat::stream_until_stop_scenario(ch, thorough));
                rep.violations.extend(st.violations);
                rep.add_part(st.part);
            }
            {
                // one lost packet around the close handshake while the acceptor (which shut down
                // first, without reading) still has unread data
                let mut d = vx_core::DfsConfig::new("fixed-latency-grid-close-with-unread-data", 0);
                d.wall = wall;
                let thorough = tier == Tier::Thorough;
                let st = vx_core::explore_dfs(&d, move |ch| fixedlat::close_with_unread_scenario(ch, thorough));
                rep.violations.extend(st.violations);
                rep.add_part(st.part);
            }
            rep.finish();
        }
        "C16" => {
            let mut rep = Report::new("C16", tier, "model_checking", "netk");
            rep.rule = "same state graph as C06 with cap / MSS / window invariants evaluated on every state and every emitted packet".into();
            let (wall, cap) = tier.pick((Duration::from_secs(45), 3_000_000), (Duration::from_secs(300), 40_000_000));
            run_tcp_configs(&mut rep, c16_configs(tier), wall, cap);
            {
                // several connections on one host: loopback and cross-host in one egress pass
                let mut d = vx_core::DfsConfig::new("mixed-paths-one-host", 0);
                d.wall = wall;
                let st = vx_core::explore_dfs(&d, mixed::scenario);
                rep.violations.extend(st.violations);
                rep.add_part(st.part);
                // UDP: payloads that do not fit the path's MTU are rejected, never sent
                let mut d = vx_core::DfsConfig::new("udp-payload-vs-path-mtu", 0);
                d.wall = wall;
                let st = vx_core::explore_dfs(&d, mixed::udp_scenario);
                rep.violations.extend(st.violations);
                rep.add_part(st.part);
            }
            rep.finish();
        }
        "C13" => {
            let mut rep = Report::new("C13", tier, "model_checking", "netk");
            rep.rule = "explicit-state BFS over lifecycle actions of both applications (connect / cancel / accept / write / shutdown / drop / listener drop / re-bind) interleaved with wire actions on the real stack; from every state the fair suffix closes everything, checks the socket/binding/connection tables through the cfg-guarded count hook and then re-uses every port and 4-tuple".into();
            let (wall, cap) = tier.pick((Duration::from_secs(50), 4_000_000), (Duration::from_secs(300), 40_000_000));
            let mut all_feats: Vec<String> = vec![];
            for c in c13_configs(tier) {
                let mut b = BfsConfig::new(&c.name);
                b.scenario = c.describe();
                b.bounds = c.describe();
                b.wall = wall;
                b.max_states = cap;
                b.max_depth = c.max_depth;
                let st = explore_bfs::<LifeSys>(&b, &c);
                for s in st.samples.iter().take(1) {
                    rep.sample(json!({"config": c.name, "history": s}));
                }
                all_feats.extend(st.features.iter().cloned());
                rep.violations.extend(st.violations);
                rep.add_part(st.part);
            }
            // backlog clause: simultaneous connects against a listener that accepts on demand
            for (name, backlog, connects, accepts, depth) in [("backlog2-three-connects", 2usize, 3usize, 1usize, tier.pick(14usize, 18)), ("backlog1-two-connects", 1, 2, 1, tier.pick(14, 18)), ("backlog3-four-connects", 3, 4, 0, tier.pick(12, 16))] {
                let c = backlog::BkCfg { name: name.into(), backlog, connects, accepts, d: 1, w: 3, max_depth: depth };
                let mut b = BfsConfig::new(&c.name);
                b.scenario = c.describe();
                b.bounds = c.describe();
                b.wall = wall;
                b.max_states = cap;
                b.max_depth = c.max_depth;
                let st = explore_bfs::<backlog::BacklogSys>(&b, &c);
                rep.violations.extend(st.violations);
                rep.add_part(st.part);
            }
            {
                // an abortive close (unread bytes) against a peer that lingers after a clean close;
                // each of the resetting side's packets is lost in turn, the RST among them
                let mut d = vx_core::DfsConfig::new("abortive-close-with-a-lost-packet", 0);
                d.wall = wall;
                let thorough = tier == Tier::Thorough;
                let st = vx_core::explore_dfs(&d, move |ch| fixedlat::lost_rst_scenario(ch, thorough));
                rep.violations.extend(st.violations);
                rep.add_part(st.part);
            }
            {
                // a connect future that is not polled between the SYN-ACK and the acceptor's close
                let mut d = vx_core::DfsConfig::new("lazily-polled-connect", 0);
                d.wall = wall;
                let thorough = tier == Tier::Thorough;
                let st = vx_core::explore_dfs(&d, move |ch| fixedlat::lazy_connect_scenario(ch, thorough));
                rep.violations.extend(st.violations);
                rep.add_part(st.part);
            }
            {
                // overlapping lifetimes on a tiny ephemeral range (ports and 4-tuples reused)
                let mut d = vx_core::DfsConfig::new("port-reuse-overlapping-lifetimes", 0);
                d.wall = wall;
                let thorough = tier == Tier::Thorough;
                let st = vx_core::explore_dfs(&d, move |ch| portwrap::scenario(ch, thorough));
                rep.violations.extend(st.violations);
                rep.add_part(st.part);
            }
            {
                // two loss episodes on one connection, each within its segment's budget
                let mut d = vx_core::DfsConfig::new("lossy-handshake-then-lossy-first-segment", 0);
                d.wall = wall;
                let thorough = tier == Tier::Thorough;
                let st = vx_core::explore_dfs(&d, move |ch| fixedlat::lossy_phases_scenario(ch, thorough));
                rep.violations.extend(st.violations);
                rep.add_part(st.part);
            }
            {
                // graceful close by drop while written bytes are still in flight
                let mut d = vx_core::DfsConfig::new("dropped-with-bytes-in-flight", 0);
                d.wall = wall;
                let thorough = tier == Tier::Thorough;
                let st = vx_core::explore_dfs(&d, move |ch| fixedlat::drop_after_write_scenario(ch, thorough));
                rep.violations.extend(st.violations);
                rep.add_part(st.part);
            }
            {
                // dual-stack host, two wildcard listeners on one port, one of them closed
                let mut d = vx_core::DfsConfig::new("dual-stack-listener-close", 0);
                d.wall = wall;
                let thorough = tier == Tier::Thorough;
                let st = vx_core::explore_dfs(&d, move |ch| fixedlat::dualstack_scenario(ch, thorough));
                rep.violations.extend(st.violations);
                rep.add_part(st.part);
            }
            {
                // one side drops while the other keeps writing into it
                let mut d = vx_core::DfsConfig::new("dropped-while-the-peer-keeps-writing", 0);
                d.wall = wall;
                let thorough = tier == Tier::Thorough;
                let st = vx_core::explore_dfs(&d, move |ch| fixedlat::orphan_scenario(ch, thorough));
                rep.violations.extend(st.violations);
                rep.add_part(st.part);
            }
            all_feats.sort();
            all_feats.dedup();
            let need = ["SynSent", "SynReceived", "Established", "FinWait1", "FinWait2", "CloseWait", "LastAck", "Closing"];
            let missing: Vec<_> = need.iter().filter(|n| !all_feats.iter().any(|f| f == *n)).collect();
            rep.extra.insert("tcp_states_visited".into(), json!(all_feats.iter().filter(|f| !f.contains(':')).collect::<Vec<_>>()));
            rep.extra.insert("state_pairs_visited".into(), json!(all_feats.iter().filter(|f| f.starts_with("pair:")).count()));
            rep.extra.insert("action_at_state_pairs_visited".into(), json!(all_feats.iter().filter(|f| f.starts_with("act:")).collect::<Vec<_>>()));
            if !missing.is_empty() && rep.violations.is_empty() {
                vx_core::machinery_error(&format!("C13 exploration is vacuous: TCP states never visited: {missing:?}"));
            }
            rep.finish();
        }
        "C17" => {
            let mut rep = Report::new("C17", tier, "model_checking", "netk");
            rep.rule = "explicit-state BFS over histories of bind / listen / udp-connect / tcp-connect(+accept) / close on two hosts (one with two addresses); every step compared with a reference socket table; from every state a probe sweep sends one tagged UDP datagram and one TCP connect from every host to every (address, port) and checks which socket observes it".into();
            let (wall, cap) = tier.pick((Duration::from_secs(50), 2_000_000), (Duration::from_secs(900), 30_000_000));
            for c in c17_configs(tier) {
                let mut b = BfsConfig::new(&c.name);
                b.scenario = c.describe();
                b.bounds = c.describe();
                b.wall = wall;
                b.max_states = cap;
                b.max_depth = c.depth + 1;
                let st = explore_bfs::<SockSys>(&b, &c);
                for s in st.samples.iter().take(1) {
                    rep.sample(json!({"config": c.name, "history": s}));
                }
                rep.violations.extend(st.violations);
                rep.add_part(st.part);
            }
            rep.finish();
        }
        "C19" => {
            let mut rep = Report::new("C19", tier, "model_checking", "netk");
            rep.rule = "stateless exhaustive enumeration of choice trees: (i) rule install/remove/send event sequences with per-rule verdict families on a hand-driven Net (decision clauses, all four install points), (ii) per-datagram send tick x verdict x destination inside fixture::ClientServer on the paused clock (timing clauses), (iii) fixture::lo with rules installed (loopback never shown)".into();
            let (ev, n) = tier.pick((5usize, 3usize), (6, 5));
            let mut d = vx_core::DfsConfig::new(&format!("decision-events{ev}-rules3"), 0);
            d.wall = tier.pick(Duration::from_secs(30), Duration::from_secs(900));
            let st = vx_core::explore_dfs(&d, |ch| rules::decision_scenario(ch, ev, 3));
            for s in st.samples.iter().take(2) {
                rep.sample(json!({"part": "decision", "choices": s}));
            }
            rep.violations.extend(st.violations);
            rep.add_part(st.part);
            let mut d = vx_core::DfsConfig::new(&format!("timing-clientserver-n{n}"), 0);
            d.wall = tier.pick(Duration::from_secs(30), Duration::from_secs(900));
            let st = vx_core::explore_dfs(&d, |ch| rules::timing_scenario(ch, n));
            for s in st.samples.iter().take(2) {
                rep.sample(json!({"part": "timing", "choices": s}));
            }
            rep.violations.extend(st.violations);
            rep.add_part(st.part);
            let d = vx_core::DfsConfig::new("timing-identical-datagrams", 0);
            let st = vx_core::explore_dfs(&d, rules::identical_scenario);
            rep.violations.extend(st.violations);
            rep.add_part(st.part);
            let d = vx_core::DfsConfig::new("lo-fixture", 0);
            let st = vx_core::explore_dfs(&d, rules::lo_scenario);
            rep.violations.extend(st.violations);
            rep.add_part(st.part);
            rep.finish();
        }
        other => vx_core::machinery_error(&format!("vx-netk does not serve {other}")),
    }
}

fn replay(path: &str) {
    use vx_core::System;
    let (prop, scenario, choices) = vx_core::report::load_replay(path);
    let name = scenario.split_whitespace().next().unwrap_or("").to_string();
    let mut all = vec![];
    match prop.as_str() {
        "C06" => {
            all.extend(c06_configs(Tier::Thorough));
            all.extend(c06_configs(Tier::Quick));
        }
        "C16" => {
            all.extend(c16_configs(Tier::Thorough));
            all.extend(c16_configs(Tier::Quick));
        }
        _ => {}
    }
    if prop == "C06" && scenario.starts_with("c06-bidir") {
        println!("replaying {prop}: {scenario}");
        let mut ch = vx_core::Chooser::from_choices(&choices);
        let e = fixedlat::bidir_scenario(&mut ch, scenario.contains("tier=thorough"));
        for l in ch.describe() {
            println!("  choice {l}");
        }
        match e.violation {
            Some(v) => {
                println!("VIOLATION clause={} : {}", v.clause, v.detail);
                std::process::exit(1);
            }
            None => println!("no violation on this execution"),
        }
        return;
    }
    if prop == "C06" && scenario.starts_with("c06-fixedlat") {
        println!("replaying {prop}: {scenario}");
        let mut ch = vx_core::Chooser::from_choices(&choices);
        let e = fixedlat::scenario(&mut ch, scenario.contains("tier=thorough"));
        for l in ch.describe() {
            println!("  choice {l}");
        }
        match e.violation {
            Some(v) => {
                println!("VIOLATION clause={} : {}", v.clause, v.detail);
                std::process::exit(1);
            }
            None => println!("no violation on this execution"),
        }
        return;
    }
    if prop == "C16" && scenario.starts_with("c16-udp") {
        println!("replaying {prop}: {scenario}");
        let mut ch = vx_core::Chooser::from_choices(&choices);
        let e = mixed::udp_scenario(&mut ch);
        match e.violation {
            Some(v) => {
                println!("VIOLATION clause={} : {}", v.clause, v.detail);
                std::process::exit(1);
            }
            None => println!("no violation on this execution"),
        }
        return;
    }
    if prop == "C16" && scenario.starts_with("c16-mixed") {
        println!("replaying {prop}: {scenario}");
        let mut ch = vx_core::Chooser::from_choices(&choices);
        let e = mixed::scenario(&mut ch);
        for l in ch.describe() {
            println!("  choice {l}");
        }
        match e.violation {
            Some(v) => {
                for a in &v.actions {
                    println!("  {a}");
                }
                println!("VIOLATION clause={} : {}", v.clause, v.detail);
                std::process::exit(1);
            }
            None => println!("no violation on this execution"),
        }
        return;
    }
    if prop == "C06" && scenario.starts_with("c06-close-with-unread") {
        println!("replaying {prop}: {scenario}");
        let mut ch = vx_core::Chooser::from_choices(&choices);
        let e = fixedlat::close_with_unread_scenario(&mut ch, false);
        match e.violation {
            Some(v) => {
                println!("VIOLATION clause={} : {}", v.clause, v.detail);
                std::process::exit(1);
            }
            None => println!("no violation on this execution"),
        }
        return;
    }
    if prop == "C06" && scenario.starts_with("c06-stream-until-stop") {
        println!("replaying {prop}: {scenario}");
        let mut ch = vx_core::Chooser::from_choices(&choices);
        let e = fixedlat::stream_until_stop_scenario(&mut ch, false);
        match e.violation {
            Some(v) => {
                println!("VIOLATION clause={} : {}", v.clause, v.detail);
                std::process::exit(1);
            }
            None => println!("no violation on this execution"),
        }
        return;
    }
    if prop == "C06" && scenario.starts_with("c06-reply-then-drop") {
        println!("replaying {prop}: {scenario}");
        let mut ch = vx_core::Chooser::from_choices(&choices);
        let e = fixedlat::reply_then_drop_scenario(&mut ch, false);
        match e.violation {
            Some(v) => {
                println!("VIOLATION clause={} : {}", v.clause, v.detail);
                std::process::exit(1);
            }
            None => println!("no violation on this execution"),
        }
        return;
    }
    if prop == "C13" && scenario.starts_with("c13-lost-rst") {
        println!("replaying {prop}: {scenario}");
        let mut ch = vx_core::Chooser::from_choices(&choices);
        let e = fixedlat::lost_rst_scenario(&mut ch, false);
        match e.violation {
            Some(v) => {
                println!("VIOLATION clause={} : {}", v.clause, v.detail);
                std::process::exit(1);
            }
            None => println!("no violation on this execution"),
        }
        return;
    }
    if prop == "C13" && scenario.starts_with("c13-lazy-connect") {
        println!("replaying {prop}: {scenario}");
        let mut ch = vx_core::Chooser::from_choices(&choices);
        let e = fixedlat::lazy_connect_scenario(&mut ch, false);
        match e.violation {
            Some(v) => {
                println!("VIOLATION clause={} : {}", v.clause, v.detail);
                std::process::exit(1);
            }
            None => println!("no violation on this execution"),
        }
        return;
    }
    if prop == "C13" && scenario.starts_with("c13-drop-after-write") {
        println!("replaying {prop}: {scenario}");
        let mut ch = vx_core::Chooser::from_choices(&choices);
        let e = fixedlat::drop_after_write_scenario(&mut ch, false);
        match e.violation {
            Some(v) => {
                println!("VIOLATION clause={} : {}", v.clause, v.detail);
                std::process::exit(1);
            }
            None => println!("no violation on this execution"),
        }
        return;
    }
    if prop == "C13" && scenario.starts_with("c13-dualstack") {
        println!("replaying {prop}: {scenario}");
        let mut ch = vx_core::Chooser::from_choices(&choices);
        let e = fixedlat::dualstack_scenario(&mut ch, false);
        match e.violation {
            Some(v) => {
                for a in &v.actions {
                    println!("  {a}");
                }
                println!("VIOLATION clause={} : {}", v.clause, v.detail);
                std::process::exit(1);
            }
            None => println!("no violation on this execution"),
        }
        return;
    }
    if prop == "C13" && scenario.starts_with("c13-orphan") {
        println!("replaying {prop}: {scenario}");
        let mut ch = vx_core::Chooser::from_choices(&choices);
        let e = fixedlat::orphan_scenario(&mut ch, false);
        match e.violation {
            Some(v) => {
                println!("VIOLATION clause={} : {}", v.clause, v.detail);
                std::process::exit(1);
            }
            None => println!("no violation on this execution"),
        }
        return;
    }
    if prop == "C13" && scenario.starts_with("c13-lossy-phases") {
        println!("replaying {prop}: {scenario}");
        let mut ch = vx_core::Chooser::from_choices(&choices);
        let e = fixedlat::lossy_phases_scenario(&mut ch, false);
        match e.violation {
            Some(v) => {
                for a in &v.actions {
                    println!("  {a}");
                }
                println!("VIOLATION clause={} : {}", v.clause, v.detail);
                std::process::exit(1);
            }
            None => println!("no violation on this execution"),
        }
        return;
    }
    if prop == "C13" && scenario.starts_with("c13-portwrap") {
        println!("replaying {prop}: {scenario}");
        let mut ch = vx_core::Chooser::from_choices(&choices);
        let e = portwrap::scenario(&mut ch, scenario.contains("tier=thorough"));
        match e.violation {
            Some(v) => {
                for a in &v.actions {
                    println!("  {a}");
                }
                println!("VIOLATION clause={} : {}", v.clause, v.detail);
                std::process::exit(1);
            }
            None => println!("no violation on this execution"),
        }
        return;
    }
    if prop == "C13" && name.starts_with("backlog") {
        let num = |k: &str| -> usize { scenario.split_whitespace().find_map(|t| t.strip_prefix(k).and_then(|x| x.parse().ok())).unwrap_or(1) };
        let cfg = backlog::BkCfg { name: name.clone(), backlog: num("backlog="), connects: num("simultaneous_connects="), accepts: num("accepts_allowed="), d: num("d=") as u32, w: num("W="), max_depth: num("depth=") };
        println!("replaying {prop} {}", cfg.describe());
        let mut s = backlog::BacklogSys::init(&cfg);
        for (i, &a) in choices.iter().enumerate() {
            let a = a as u16;
            println!("--- step {i}: {}", s.describe(a));
            match vx_core::catch(|| s.apply(a)) {
                Ok(Ok(())) => {}
                Ok(Err(v)) => {
                    println!("VIOLATION clause={} : {}", v.clause, v.detail);
                    std::process::exit(1);
                }
                Err(p) => {
                    println!("PANIC {p}");
                    std::process::exit(1);
                }
            }
        }
        println!("--- fair suffix");
        match s.finish().1 {
            Some(v) => {
                println!("VIOLATION clause={} : {}", v.clause, v.detail);
                std::process::exit(1);
            }
            None => println!("no violation on this history"),
        }
        return;
    }
    if prop == "C13" {
        let mut cs = c13_configs(Tier::Thorough);
        cs.extend(c13_configs(Tier::Quick));
        let Some(cfg) = cs.into_iter().find(|c| c.name == name) else {
            vx_core::machinery_error(&format!("replay: unknown scenario {name} for {prop}"));
        };
        println!("replaying {prop} {}", cfg.describe());
        let mut s = LifeSys::init(&cfg);
        s.verbose = true;
        for (i, &a) in choices.iter().enumerate() {
            let a = a as u16;
            println!("--- step {i}: {}", s.describe(a));
            let r = vx_core::catch(|| s.apply(a));
            println!("{}", s.trace_state());
            match r {
                Ok(Ok(())) => {}
                Ok(Err(v)) => {
                    println!("VIOLATION clause={} : {}", v.clause, v.detail);
                    std::process::exit(1);
                }
                Err(p) => {
                    println!("PANIC {p}");
                    std::process::exit(1);
                }
            }
        }
        println!("--- fair suffix");
        match s.finish().1 {
            Some(v) => {
                println!("VIOLATION clause={} : {}", v.clause, v.detail);
                std::process::exit(1);
            }
            None => println!("no violation on this history"),
        }
        return;
    }
    if prop == "C17" {
        let mut cs = c17_configs(Tier::Thorough);
        cs.extend(c17_configs(Tier::Quick));
        let Some(cfg) = cs.into_iter().find(|c| c.name == name) else {
            vx_core::machinery_error(&format!("replay: unknown scenario {name} for {prop}"));
        };
        println!("replaying {prop} {}", cfg.describe());
        let mut s = SockSys::init(&cfg);
        s.verbose = true;
        for (i, &a) in choices.iter().enumerate() {
            let a = a as u16;
            println!("--- step {i}: {}", s.describe(a));
            let r = vx_core::catch(|| s.apply(a));
            println!("{}", s.trace_state());
            match r {
                Ok(Ok(())) => {}
                Ok(Err(v)) => {
                    println!("VIOLATION clause={} : {}", v.clause, v.detail);
                    std::process::exit(1);
                }
                Err(p) => {
                    println!("PANIC {p}");
                    std::process::exit(1);
                }
            }
        }
        println!("--- probe sweep");
        match s.finish().1 {
            Some(v) => {
                println!("VIOLATION clause={} : {}", v.clause, v.detail);
                std::process::exit(1);
            }
            None => println!("no violation on this history"),
        }
        return;
    }
    let Some(cfg) = all.into_iter().find(|c| c.name == name) else {
        vx_core::machinery_error(&format!("replay: unknown scenario {name} for {prop}"));
    };
    println!("replaying {prop} {}", cfg.describe());
    let mut s = TcpSys::init(&cfg);
    s.verbose = true;
    for (i, &a) in choices.iter().enumerate() {
        let a = a as u16;
        println!("--- step {i}: {}", s.describe(a));
        let r = vx_core::catch(|| s.apply(a));
        println!("{}", s.trace_state());
        match r {
            Ok(Ok(())) => {}
            Ok(Err(v)) => {
                println!("VIOLATION clause={} : {}", v.clause, v.detail);
                std::process::exit(1);
            }
            Err(p) => {
                println!("PANIC {p}");
                std::process::exit(1);
            }
        }
    }
    println!("--- fair suffix");
    let (_, v) = s.finish();
    match v {
        Some(v) => {
            println!("VIOLATION clause={} : {}", v.clause, v.detail);
            std::process::exit(1);
        }
        None => println!("no violation on this history"),
    }
}

/// ad-hoc sizing experiments: vx-netk exp key=val,key=val
fn exp(spec: &str) {
    let mut c = TcpCfg::base("exp");
    c.check_caps = false;
    for kv in spec.split(',') {
        let (k, v) = kv.split_once('=').unwrap_or((kv, ""));
        match k {
            "T" => c.retx_threshold = v.parse().unwrap(),
            "max" => c.retx_max = v.parse().unwrap(),
            "W" => c.w = v.parse().unwrap(),
            "d" => c.d = v.parse().unwrap(),
            "D" => c.drops = v.parse().unwrap(),
            "mtu" => c.mtu = v.parse().unwrap(),
            "snd" => c.send_cap = v.parse().unwrap(),
            "rcv" => c.recv_cap = v.parse().unwrap(),
            "rbuf" => c.reader_buf = v.parse().unwrap(),
            "sbytes" => c.s_bytes = v.parse().unwrap(),
            "chunks" => c.c_chunks = v.split('+').map(|x| x.parse().unwrap()).collect(),
            "mode" => c.mode = match v { "seq" => Mode::Sequential, "conc" => Mode::Concurrent, _ => Mode::DropClose },
            "reader" => c.reader = match v { "eager" => Pace::Eager, "stepped" => Pace::Stepped, _ => Pace::Late },
            "writer" => c.writer = match v { "eager" => Pace::Eager, _ => Pace::Stepped },
            "caps" => c.check_caps = v == "1",
            "live" => c.liveness = v == "1",
            _ => panic!("unknown key {k}"),
        }
    }
    c.liveness = c.liveness && c.bounded_loss_ok();
    let mut b = BfsConfig::new("exp");
    b.wall = Duration::from_secs(120);
    let t = std::time::Instant::now();
    let st = explore_bfs::<TcpSys>(&b, &c);
    println!("{}", c.describe());
    println!(
        "states={} transitions={} execs={} outcomes={} depth={} closed={} violations={} caps={:?} {:.1}s",
        st.part.states, st.part.transitions, st.part.executions, st.part.distinct_outcomes, st.part.max_depth,
        st.closed, st.violations.len(), st.part.caps_hit, t.elapsed().as_secs_f64()
    );
    for v in st.violations.iter().take(3) {
        println!("  {} :: {}", v.sig, v.detail);
    }
}
